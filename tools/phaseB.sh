#!/bin/bash
# tools/phaseB.sh <Cxx-n> [<Cyy>] : run the quick check of <Cyy> (default: the change's own property)
# against a scratch worktree carrying the filed seeded change (tools/partrial.sh) and write or
# refresh seeded/<Cxx-n>/meta.json from the phase-A record (.phaseA) or the existing meta.json.
set -u
id="$1"; dir=/verif/seeded/$id; prop=${id%-*}; n=${id#*-}; by="${2:-$prop}"
out=$(/verif/tools/partrial.sh "$dir/patch.diff" "$by" quick 2>&1)
echo "$out" > /verif/work/sweep/phaseB-$id-$by.log
rc=$(echo "$out" | grep -o "exit=[0-9]*" | tail -1)
classes=$(echo "$out" | grep -o "class=[^ ]*" | sort -u | head -6 | tr '\n' ' ')
python3 - "$dir" "$prop" "$n" "$by" "$rc" "$classes" <<'PY'
import json, sys, re, os
dst, prop, n, by, rc, classes = sys.argv[1:]
mp = os.path.join(dst, 'meta.json')
notes = open(os.path.join(dst, 'notes.md')).read() if os.path.exists(os.path.join(dst, 'notes.md')) else ''
if os.path.exists(mp):
    meta = json.load(open(mp))
else:
    suite, with_, without, demo_cmd = (open(os.path.join(dst, '.phaseA')).read().split('\n') + ['']*4)[:4]
    title = notes.splitlines()[0].lstrip('# ').strip() if notes else ''
    m = re.search(r'##\s*What is needed for it to manifest\s*\n(.*?)(\n## |\Z)', notes, re.S)
    needs = ' '.join(m.group(1).split())[:900] if m else ''
    meta = {"property": prop, "title": title, "what_it_needs_to_manifest": needs,
            "what_i_ran": {"suite_with_patch": "go test -vet=off -count=1 ./...  -> %s failing lines" % suite,
                           "demo": demo_cmd,
                           "demo_exit_with_patch": int(with_) if with_.isdigit() else with_,
                           "demo_exit_without_patch": int(without) if without.isdigit() else without},
            "confirmed": suite == "0" and with_ not in ("0",) and without == "0"}
w = meta["what_i_ran"]
caught = rc == "exit=1"
if by == prop or caught or "check_result" not in w:
    if by != prop:
        meta["caught_by"] = by
        w["own_property_check"] = w.get("check_result", "not run") 
    w["check"] = "tools/partrial.sh patch.diff %s quick  (scratch worktree of /repo HEAD with the patch; same as: git -C /repo apply patch.diff; ./check %s quick; git -C /repo checkout -- .)" % (by, by)
    w["check_result"] = rc
    w["violation_classes"] = classes.split()
    meta["caught_by_quick_check"] = caught
json.dump(meta, open(mp, 'w'), indent=1)
print(dst.split('/')[-1], "by", by, rc, classes[:160])
PY
