#!/usr/bin/env python3
"""Regenerates /verif/MANIFEST.json from the table below (keeps it schema-valid)."""
import json, subprocess, os

CLAIMED = {
 # id: (technique, level text, level note, design_ref)
 "C14": ("runtime monitoring: tiling/position invariant monitor over lexer token streams + range-slice re-parse monitor over parsed ASTs",
         "Every token stream the three lexer modes produce for generated, corpus and mutated byte strings (invalid UTF-8, CR/LF mixes, BOMs, random start positions) is checked against the tiling invariant and an independent newline/grapheme position counter; every range recorded in the AST of generated error-free configurations is sliced and re-parsed. Held on the executions observed; no claim beyond them.",
         "Trusts go-textseg grapheme segmentation as the definition of a column, cty value equality, and the Go runtime.", "DESIGN.md §5 C14"),
 "C15": ("runtime monitoring: panic / CPU-time / determinism / diagnostic well-formedness monitors around all parsing entry points on mutated near-valid inputs in crash-isolated workers, plus a fixed blow-up ladder",
         "Twelve entry points are called twice each on corpus, generated and mutated inputs (native and JSON); the monitors judge panics (recover + process isolation), CPU seconds per call, equality of the two results, non-nil results, error diagnostics for unusable results and every diagnostic's severity/summary/ranges; the resulting bodies are pushed through Content/PartialContent/JustAttributes with schemas built from their own identifiers and error-free expressions are evaluated in known/unknown/marked/nil scopes. Held on the executions observed.",
         "Trusts process CPU time as a load-independent clock; a panic is attributed to hcl when an hcl frame is below the panicking frame and above the harness.", "DESIGN.md §5 C15"),
 "C09": ("runtime monitoring: token-identity, re-parse/value-equivalence and idempotence monitors around hclwrite.Format",
         "Format is run on generated error-free configurations in noisy layouts and on adjacency micro-cases; the monitor compares the LexConfig token sequences of input and output, requires the output to parse to the same attributes/blocks/labels with equal expression values in a generated scope, and requires Format(Format(x)) == Format(x). Held on the executions observed.",
         "Trusts hclsyntax.LexConfig/ParseConfig as the definition of tokens and meaning (monitored separately by C14/C02) and cty equality.", "DESIGN.md §5 C09"),
 "C10": ("runtime monitoring: load/save round-trip monitor around hclwrite.ParseConfig (token identity with the source, byte identity with Format, structural agreement with hclsyntax)",
         "hclwrite.ParseConfig(src).Bytes() is compared token by token with src and byte by byte with Format(src) on generated configurations, traversal-shape micro-cases in every expression position and comment-placement micro-cases; attributes, blocks, labels and the token text of every variable reference exposed by the tree are compared with hclsyntax's view of the same source. Held on the executions observed.",
         "Trusts hclsyntax as the reference view of the source.", "DESIGN.md §5 C10"),
 "C11": ("runtime monitoring: generate-then-read-back round-trip monitor over hclwrite's source generators",
         "Values, traversals and block labels drawn from hostile alphabets are turned into source through TokensForValue/TokensForTraversal/SetAttributeValue/SetAttributeTraversal/NewBlock/AppendNewBlock/SetLabels and read back with hclsyntax; the monitor requires error-free parse and evaluation, equality after conversion to the original type, identical traversal steps and identical labels. Held on the executions observed.",
         "Trusts cty conversion and equality and hclsyntax's reading of literals (C01/C02 monitor those). Domain: finite values; number index keys are non-negative (the syntax has no negative literals).", "DESIGN.md §5 C11"),
 "C12": ("runtime monitoring: random edit histories checked after every step against an executable list/map model, the VerifCheckTree invariant hook, a re-parse of the output and the API's read accessors",
         "Seeded histories of 1-40 writer operations on empty, API-built and parsed files; after every step the tag-guarded invariant walker inspects the private node lists, the serialised file is re-parsed and compared item by item (order, names, expression tokens, block types, labels, nesting) with the model, the read accessors are compared with the model and untouched items must still contain their original tokens. Two adjudicated defect zones are reported as KNOWN-FINDING. Held on the executions observed.",
         "Trusts hclsyntax as the reader of the output; the model is the documented set/rename/remove/append semantics.", "DESIGN.md §5 C12"),
 "C13": ("runtime monitoring: differential monitor of json.Parse/ParseExpression against an independent RFC 8259 recogniser (cross-checked with encoding/json), an exact-decimal literal model and the native template parser",
         "Grammar-generated JSON, near-miss mutants and JSON documents whose strings are rendered templates are parsed; acceptance is compared with the recogniser (disputes between the recogniser and encoding/json are inconclusive, never violations), literal-mode values with an exact model (512-bit decimals, duplicate names rejected at evaluation, arrays as tuples, null as dynamic null) and expression-mode values with hclsyntax.ParseTemplate's outcome for every string and property name. Held on the executions observed.",
         "Exempt from acceptance comparison: ill-formed UTF-8, lone surrogate escapes, a leading BOM, exponents with more than 6 digits.", "DESIGN.md §5 C13"),
 "C16": ("runtime monitoring: encode/decode round-trip monitor over reflect-generated values of a tagged struct family (native route, harness-rendered JSON twin in literal and expression mode, hclsimple), plus a panic monitor on perturbed contents",
         "Values of six struct types covering every tag kind and Go field type are filled by reflection from hostile alphabets, encoded with gohcl, parsed and decoded back (nil and non-nil EvalContext), decoded from the harness's own JSON rendering of the same value, and decoded through hclsimple by file name; the decoded value must equal the original (nil == empty, NFC strings). Mutated contents are decoded into the same types under a panic guard. Held on the executions observed.",
         "Pointer-typed attributes are tagged optional (a nil pointer is encoded by omission). Trusts gocty conversions.", "DESIGN.md §5 C16"),
 "C05": ("runtime monitoring: abstraction-soundness relation between one evaluation with unknown variables and many concrete evaluations admitted by the same refinements",
         "Generated and directed expressions are evaluated once with a subset of their variables replaced by typed / refined / dynamic / nested unknowns and 8 times with concrete instantiations that satisfy the same refinements (original values, random values, extremes); each error-free concrete result must be consistent with the abstract one (known parts equal, typed unknowns of the concrete type, not-null / prefix / numeric / length refinements satisfied) and must itself contain no unknown. Held on the executions observed.",
         "Trusts cty's own operations on unknown values; marks are ignored (C06). One adjudicated class is reported as KNOWN-FINDING.", "DESIGN.md §5 C05"),
 "C06": ("runtime monitoring: two-run non-interference (hyperproperty) monitor with a marked variable whose content differs between the runs",
         "The same program (native expression, JSON-syntax expression, hcldec-decoded body, dynamic-block body) is evaluated in two scopes that differ only in the content of the marked part of one variable; when both runs are error-free and the unmarked results differ, both results must carry the mark. Witnesses are shrunk on the AST and classed; adjudicated classes are reported as KNOWN-FINDING. Held on the executions observed.",
         "Trusts cty's propagation of marks inside its own operations and function calls; marked parts that are null are excluded (go-cty drops the marks of a null element entering a set).", "DESIGN.md §5 C06"),
 "C07": ("runtime monitoring: scope-pruning and scope-perturbation relations over reported variable sets",
         "Native and JSON expressions, hcldec bodies and bodies with dynamic blocks are evaluated under the full scope, under only the reported root names, and with every unreported variable replaced; value and diagnostic multiset must agree. Decoy variables named like bound iterators are present; a precision clause with globally fresh iterator names requires that bound names are never reported; the expansion variable set of dynamic blocks is pruned independently. Held on the executions observed.",
         "Diagnostics compared modulo the 'Did you mean' suggestion and modulo order (hcldec iterates Go maps).", "DESIGN.md §5 C07"),
 "C19": ("runtime monitoring: taint-canary monitor scanning every diagnostic's summary, detail and text-writer rendering for secrets that occur only inside marked values",
         "Generated (50% ill-typed) and directed erroneous expressions, JSON expressions and hcldec/dynblock bodies are evaluated in scopes whose marked values hold per-case random canaries (strings, numbers, map keys); all diagnostics are rendered as Summary, Detail and through NewDiagnosticTextWriter with the source registered, and scanned. One adjudicated root cause is reported as KNOWN-FINDING (identified by re-running with element-level marks). Held on the executions observed.",
         "Canaries never occur in source text or message templates; harness function messages are fixed canary-free strings.", "DESIGN.md §5 C19"),
 "C20": ("runtime monitoring: agreement monitors between static views (traversal, list, map, call, type constraint) and evaluation / parsers, both syntaxes",
         "Traversal-shaped texts are analysed statically and the resulting absolute and relative traversals are applied to generated scopes and compared with evaluation, repeatedly and in either order; texts accepted by the stand-alone traversal parser are compared step by step with the expression parser (and with the JSON string view); static list/map/call parts are evaluated one by one and compared with the whole; generated types are rendered with TypeString and parsed back natively and from JSON. Held on the executions observed.",
         "Keyword roots (true/false/null) are excluded from the evaluation comparison (a deviation the specification prescribes).", "DESIGN.md §5 C20"),
 "C01": ("runtime monitoring: reference-model monitor (independent evaluator written from the specification) plus a model-free layout-invariance relation over the concrete layouts of each generated AST",
         "Generated ASTs over the whole expression and template grammar are rendered in a canonical and three random layouts (stand-alone, body attribute, bare template; spacing, comments, newlines in brackets, redundant parentheses, quoted / heredoc / flush heredoc, number spellings, escapes), evaluated in two scopes of known values of every cty kind, and compared with refeval (value incl. type, error, or an explicit 'unspecified') and with each other. ~110 directed programs pin rules of the specification on written-out expectations. Held on the executions observed.",
         "go-cty conversion, unification, number formatting and equality are the value domain (trusted). Unspecified zones (set iteration order, splat sequence kind, short-circuit with an erroneous operand, ill-typed bodies over empty collections, duplicate constructor keys, non-integer modulo, division by zero) are counted, not judged.", "DESIGN.md §5 C01"),
 "C02": ("runtime monitoring: render-then-parse monitor over abstract body trees read back through Content / PartialContent / JustAttributes",
         "Abstract body trees with literal attribute values and labels over the full label alphabet are rendered canonically and in three random layouts (comments incl. multi-line inline comments in every header gap, bare/quoted labels with every escape form, one-line and empty blocks, CRLF, BOM, missing final newline) and must parse without errors to exactly the tree; trees with a duplicated attribute name must be rejected in every rendering. Held on the executions observed.",
         "Expected attribute values are built alongside the AST; labels compared after NFC.", "DESIGN.md §5 C02"),
 "C03": ("runtime monitoring: cross-syntax differential monitor between the native rendering and six JSON encodings of one abstract configuration under a generated hcldec spec",
         "Attribute names, block sequences with labels (per type always; in total for order-preserving encodings), hcldec.Decode and PartialDecode values and error-ness of six admissible JSON encodings (object / array roots, duplicate property names, per-type arrays, nested label objects with shared prefixes, arrays of single-property label objects, arrays of bodies, // properties, permutations, whitespace/escapes) are compared with the native reading, for conforming and perturbed configurations, with literal and scope-expression attribute values. Held on the executions observed.",
         "Label-count mismatches are excluded (the JSON reading is schema-directed). Strings avoid lone CR and leading U+FEFF (known findings of C01/C16).", "DESIGN.md §5 C03"),
 "C08": ("runtime monitoring: type-conformance and reference-interpreter monitors around hcldec.Decode / PartialDecode for generated spec trees and conforming/perturbed bodies, native and JSON, panic-guarded",
         "Spec trees are generated for abstract bodies within the documented preconditions of every spec kind; bodies are decoded as written and after one perturbation; the monitor requires a non-panicking result whose type conforms to ImpliedType(spec), an error whenever the independent spec interpreter finds a violation, and value equality with the interpreter otherwise. One adjudicated finding is reported as KNOWN-FINDING. Held on the executions observed.",
         "cty conversion defines attribute conversion; hcldec.ImpliedType is taken as the statement of the implied type; BlockMapSpec is generated with one label (two-label empty case is the known finding).", "DESIGN.md §5 C08"),
 "C04": ("runtime monitoring: executable accounting model of schema-directed extraction compared with four hcl.Body implementations (native, JSON, merged, dynblock-expanded) over chains of Content / PartialContent / JustAttributes calls",
         "Abstract bodies are rendered natively, as JSON, split over merged files and wrapped with dynamic blocks; random schema chains (subsets, unknown names, required names, label-name lists) are applied; at every step the returned attributes/blocks, the error-ness and the remainder (probed by a further PartialContent with the full schema and by JustAttributes) are compared with a set-accounting model: every item is returned exactly once along a chain and never resurrected. Held on the executions observed.",
         "JSON is skipped when an attribute and a block share a name (the JSON reading is schema-directed).", "DESIGN.md §5 C04"),
 "C18": ("runtime monitoring: differential monitor between a body written with dynamic blocks and the same body written out by the harness, decoded under generated specifications; conformance / partial-equality monitors for unknown for_each; expansion-variable pruning",
         "Body trees with repetition groups (labels computed from the iterator, content referring to own and outer iterators and scope variables, nested static blocks and nested groups to depth 3, default and custom iterator names incl. shadowing names and for_each variables named like the iterator) over collections of every iterable kind (sizes 0-4, marked or not) are rendered with dynamic blocks and written out by substitution on the harness AST; both are decoded under a generated spec (tuple / object / single / attrs kinds) and must agree in error-ness and value; expansion is repeated with only the reported expansion variables; in 1 case of 5 one for_each (any depth) is unknown and the result must conform to the implied type, leave unaffected parts equal and the affected part not wholly known. Held on the executions observed.",
         "cty element iteration defines iteration order; marks are compared by C06, here values are compared unmarked; the affected-part clause is decided only when the unknown group's content holds an attribute directly.", "DESIGN.md §5 C18"),
 "C17": ("runtime monitoring: Go race detector over goroutine storms on shared parsed trees + solo-vs-concurrent differential + register-history check (direct and with porcupine) of the splat symbol's per-context state recorded through the tag-guarded hooks, with seeded yields at the hook sites",
         "One program per case (splat-rich native expression, native body, JSON body, body with dynamic blocks) is parsed once; 2-32 goroutines, each with its own child context of a shared parent and goroutine-unique values, repeat Value / Variables / Decode / PartialDecode / PartialContent+JustAttributes / Expand+Content with shared schemas; every result is compared with the same call run alone; the worker is the -race build and every race report (halt_on_error=0, read from the log after each storm) is a violation; the hooks record every set/get/clear of the splat symbol state under its own lock and the per-(symbol, context) histories must be register histories (checked directly and with porcupine); yields at the hook sites are seeded; evidence reports overlaps actually observed. Held on the executions observed.",
         "The race detector sees only executed interleavings. Order of traversals reported by hcldec.Variables is not part of the result (Go map iteration).", "DESIGN.md §5 C17"),
}

NOT_YET = "monitor designed in DESIGN.md §5 but not yet built in this tree; will be claimed once its check is registered"

def main():
    props = [json.loads(l) for l in open('/verif/properties.jsonl')]
    checks, na = [], []
    for p in props:
        pid = p['id']
        if pid in CLAIMED:
            tech, text, note, ref = CLAIMED[pid]
            checks.append({
                "property_id": pid,
                "quick_cmd": f"./check {pid} quick",
                "thorough_cmd": f"./check {pid} thorough",
                "evidence_file": f"/verif/evidence/{pid}.json",
                "replay_cmd_template": f"./check {pid} --replay {{path}}",
                "engine": "hv",
                "level_claimed": {"category": "exploration", "text": text, "design_ref": ref},
                "level_note": note,
                "technique": tech,
            })
        else:
            na.append({"property_id": pid, "reason": NA_REASONS.get(pid, NOT_YET)})
    hooks = []
    try:
        out = subprocess.check_output(['git','-C','/repo','log','--format=%H %s'], text=True)
        for l in out.splitlines():
            if 'verif hook' in l:
                hooks.append(l.split()[0])
    except Exception:
        pass
    m = {
        "version": 1,
        "setup_cmd": "./check --build",
        "hooks": {
            "guard": "verif",
            "enable": "go build -tags verif (the harness module replaces github.com/hashicorp/hcl/v2 with /repo, so every check compiles /repo's working tree with the tag on)",
            "baseline_off_cmd": "cd /repo && go test -vet=off -count=1 ./...",
            "source_commits": hooks,
            "add_only": True,
        },
        "engines": [{"name": "hv", "path": "/verif/harness", "serves_properties": sorted(CLAIMED), "kind_free_text": "Go driver + crash-isolated worker processes running seeded workload generators against the real hcl packages under per-property runtime monitors (reference models, two-run relations, round trips, invariants, race detector, porcupine history check)"}],
        "checks": checks,
        "not_applicable": na,
        "notes": "All checks are runtime monitors (see DESIGN.md). VERIF_SEED selects the PRNG seed (default 1). Exit 0 = held on everything explored (KNOWN-FINDING / INCONCLUSIVE lines possible), exit 1 = VIOLATION lines, exit 2 = broken check (harness error or too little observed).",
    }
    json.dump(m, open('/verif/MANIFEST.json','w'), indent=1)
    open('/verif/MANIFEST.hooks','w').write(
        "guard: go build tag `verif`\n"
        "hook commits in /repo (additive only):\n" + "".join(f"  {h}\n" for h in hooks) +
        "files: hclsyntax/verif_hooks.go (tag verif), hclsyntax/verif_hooks_off.go (tag !verif), 5 added call lines in hclsyntax/expression.go (SplatExpr.Value, AnonSymbolExpr.Value/setValue/clearValue), hclwrite/verif_invariants.go (tag verif)\n"
        "with the tag off the added calls are empty functions; baseline: cd /repo && go test -vet=off -count=1 ./...\n")

NA_REASONS = {}
if __name__ == '__main__':
    main()
