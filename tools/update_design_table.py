#!/usr/bin/env python3
"""Replaces the seeded-changes table at the end of DESIGN.md §12 by the output of tools/seeded_table.py."""
import subprocess, re
p = '/verif/DESIGN.md'
s = open(p).read()
tbl = subprocess.run(['python3', '/verif/tools/seeded_table.py'], capture_output=True, text=True).stdout.rstrip('\n')
i = s.index('| id | file(s) | change |')
j = i
lines = s[i:].split('\n')
n = 0
for ln in lines:
    if ln.startswith('|'):
        n += len(ln) + 1
    else:
        break
s = s[:i] + tbl + '\n' + s[i + n:]
open(p, 'w').write(s)
print("rows:", tbl.count('\n') - 1)
