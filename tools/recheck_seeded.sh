#!/bin/bash
# tools/recheck_seeded.sh <Cxx-n> : re-run the quick check of a filed seeded change against the
# current /repo and refresh what meta.json says about it (the confirmation part is kept).
set -u
id="$1"; dir=/verif/seeded/$id
prop=${id%-*}
by=$(python3 -c "import json;print(json.load(open('$dir/meta.json')).get('caught_by','$prop'))")
cd /verif
out=$(VERIF_EVIDENCE_DIR=/verif/work/evidence-trymut tools/trymut.sh "$dir/patch.diff" "$by" quick 2>&1)
rc=$(echo "$out" | grep -o "exit=[0-9]*" | tail -1)
napply=$(echo "$out" | grep -c "PATCH-DOES-NOT-APPLY")
classes=$(echo "$out" | grep -o "class=[^ ]*" | sort -u | head -6 | tr '\n' ' ')
python3 - "$dir" "$rc" "$classes" "$napply" "$by" <<'PY'
import json, sys
d, rc, classes, napply, by = sys.argv[1:]
p = d + '/meta.json'
m = json.load(open(p))
if napply != "0":
    print(d.split('/')[-1], "PATCH-DOES-NOT-APPLY")
    sys.exit(0)
m['what_i_ran']['check_result'] = rc
m['what_i_ran']['violation_classes'] = classes.split()
m['what_i_ran']['check'] = "git -C /repo apply patch.diff; ./check %s quick; git -C /repo checkout -- ." % by
m['caught_by_quick_check'] = rc == "exit=1"
json.dump(m, open(p, 'w'), indent=1)
print(d.split('/')[-1], rc, classes[:120])
PY
