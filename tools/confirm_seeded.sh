#!/bin/bash
# tools/confirm_seeded.sh <srcdir> <Cxx> <n>
# Confirms one seeded change (made by a sub-agent in its own scratch worktree)
# and files it under /verif/seeded/<Cxx>-<n>/:
#   1. in a scratch worktree of /repo's HEAD: apply the patch, run the pinned
#      suite (must pass), run the demo (must fail), undo the patch, run the demo
#      again (must pass);
#   2. apply the patch to /repo, run ./check <Cxx> quick, undo; record what it said.
# Nothing is ever committed to /repo.
# PHASE=A does only step 1 (safe to run in parallel: own worktree per change),
# PHASE=B only step 2 (serial: it patches /repo), default both.
set -u
src="$1"; prop="$2"; n="$3"; phase="${PHASE:-AB}"
export GOFLAGS=-mod=mod GOPROXY=off GOSUMDB=off GOTOOLCHAIN=local
GO=/root/go/pkg/mod/golang.org/toolchain@v0.0.1-go1.24.0.linux-amd64/bin/go
[ -x "$GO" ] || GO=go
dst=/verif/seeded/$prop-$n
mkdir -p "$dst"
cp "$src/patch.diff" "$dst/patch.diff"
[ -f "$src/notes.md" ] && cp "$src/notes.md" "$dst/notes.md"
wt=/tmp/confirm-wt-$prop-$n
res=$dst/.phaseA
if [[ "$phase" == *A* ]]; then
if [ ! -d $wt ]; then git -C /repo worktree add -q --detach $wt HEAD || exit 2; fi
cd $wt && git checkout -q --detach "$(git -C /repo rev-parse HEAD)" && git reset -q --hard && git clean -qfd
if ! git apply --check "$dst/patch.diff" 2>/dev/null; then
  git apply --3way "$dst/patch.diff" >/dev/null 2>&1 || { echo "$prop-$n PATCH-DOES-NOT-APPLY"; exit 3; }
  git reset -q
  # keep the patch as it applies to the current tree
  git diff > "$dst/patch.diff"
else
  git apply "$dst/patch.diff"
fi
suite=$($GO test -vet=off -count=1 ./... 2>&1 | grep -c "^FAIL\|^---\ FAIL\|panic:")
# demo
demo_cmd=""; demo_dir=""
if [ -f "$src/demo_test.go" ]; then
  demo_cmd=$(grep -h -o "go test [^#\`]*-run [^#\`]*" "$src/notes.md" | grep -v -- "-race" | head -1 | sed 's/[[:space:]]*$//' | tr -d "'")
  pkg=$(echo "$demo_cmd" | awk '{print $NF}')
  demo_dir="$wt/${pkg#./}"
  cp "$src/demo_test.go" "$demo_dir/zz_seeded_demo_test.go"
  cp "$src/demo_test.go" "$dst/demo_test.go"
  run_demo() { (cd $wt && timeout 600 $GO ${demo_cmd#go } >/tmp/confirm-demo-$prop-$n.out 2>&1; echo $?); }
elif [ -d "$src/demo" ]; then
  mkdir -p "$wt/_seeded_demo" && cp "$src/demo/main.go" "$wt/_seeded_demo/main.go"
  mkdir -p "$dst/demo" && cp "$src/demo/main.go" "$dst/demo/main.go"
  demo_cmd="go run ./_seeded_demo"
  run_demo() { (cd $wt && timeout 600 $GO run ./_seeded_demo >/tmp/confirm-demo-$prop-$n.out 2>&1; echo $?); }
fi
with=$(run_demo)
git -C $wt checkout -q -- .
without=$(run_demo)
rm -rf "$wt/_seeded_demo" "$demo_dir/zz_seeded_demo_test.go" 2>/dev/null
git -C /repo worktree remove --force $wt
printf '%s\n%s\n%s\n%s\n' "$suite" "$with" "$without" "$demo_cmd" > $res
fi
[[ "$phase" == *B* ]] || exit 0
{ read suite; read with; read without; read demo_cmd; } < $res
# the check
cd /verif
out=$(VERIF_EVIDENCE_DIR=/verif/work/evidence-trymut tools/trymut.sh "$dst/patch.diff" "$prop" quick 2>&1)
rc=$(echo "$out" | grep -o "exit=[0-9]*" | tail -1)
classes=$(echo "$out" | grep -o "class=[^ ]*" | sort -u | head -6 | tr '\n' ' ')
python3 - "$dst" "$prop" "$n" "$suite" "$with" "$without" "$rc" "$classes" "$demo_cmd" <<'EOF'
import json, sys, re, os
dst, prop, n, suite, with_, without, rc, classes, demo_cmd = sys.argv[1:]
notes = open(os.path.join(dst, 'notes.md')).read() if os.path.exists(os.path.join(dst, 'notes.md')) else ''
title = notes.splitlines()[0].lstrip('# ').strip() if notes else ''
m = re.search(r'##\s*What is needed for it to manifest\s*\n(.*?)(\n## |\Z)', notes, re.S)
needs = ' '.join(m.group(1).split())[:900] if m else ''
meta = {
 "property": prop,
 "title": title,
 "what_it_needs_to_manifest": needs,
 "what_i_ran": {
   "suite_with_patch": "go test -vet=off -count=1 ./...  -> %s failing lines" % suite,
   "demo": demo_cmd,
   "demo_exit_with_patch": int(with_) if with_.isdigit() else with_,
   "demo_exit_without_patch": int(without) if without.isdigit() else without,
   "check": "git -C /repo apply patch.diff; ./check %s quick; git -C /repo checkout -- ." % prop,
   "check_result": rc,
   "violation_classes": classes.split(),
 },
 "confirmed": suite == "0" and with_ not in ("0",) and without == "0",
 "caught_by_quick_check": rc == "exit=1",
}
json.dump(meta, open(os.path.join(dst, 'meta.json'), 'w'), indent=1)
try: os.remove(os.path.join(dst, '.phaseA'))
except OSError: pass
print(prop, n, "suite_fail_lines=%s demo_with=%s demo_without=%s check=%s %s" % (suite, with_, without, rc, classes[:150]))
EOF
