#!/bin/bash
# tools/partrial.sh <patch.diff> <Cxx> [tier]
# Runs one property's check against a *scratch worktree* of /repo's HEAD with the patch
# applied (the harness is built with a -modfile whose replace points at the worktree), so
# several seeded changes can be tried side by side and /repo itself is never touched.
# Evidence goes to a scratch directory; witnesses to /verif/replays/<Cxx>/ as usual.
# (The registered checks always build from /repo itself; this is a tool for seeded trials.)
set -u
patch="$(readlink -f "$1")"; prop="$2"; tier="${3:-quick}"
export GOFLAGS=-mod=mod GOPROXY=off GOSUMDB=off GOTOOLCHAIN=local
GO=/root/go/pkg/mod/golang.org/toolchain@v0.0.1-go1.24.0.linux-amd64/bin/go
[ -x "$GO" ] || GO=go1.26
t=/tmp/partrial-$$
wt=$t/hcl
mkdir -p $t
cleanup() { git -C /repo worktree remove --force $wt >/dev/null 2>&1; rm -rf $t; }
trap cleanup EXIT
git -C /repo worktree add -q --detach $wt HEAD || exit 2
if ! git -C $wt apply --check "$patch" 2>/dev/null; then
  git -C $wt apply --3way "$patch" >/dev/null 2>&1 || { echo "PATCH-DOES-NOT-APPLY $patch"; echo "exit=3"; exit 3; }
  git -C $wt reset -q
else
  git -C $wt apply "$patch"
fi
sed "s#=> /repo#=> $wt#" /verif/harness/go.mod > $t/go.mod
cp /verif/harness/go.sum $t/go.sum
cd /verif/harness
$GO build -modfile=$t/go.mod -tags verif -o $t/hv ./cmd/hv || { echo "BUILD-FAILED"; echo "exit=2"; exit 2; }
case "$prop" in C17) $GO build -modfile=$t/go.mod -race -tags verif -o $t/hv-race ./cmd/hv || { echo "BUILD-FAILED race"; echo "exit=2"; exit 2; }; export HV_RACE_BIN=$t/hv-race;; esac
case "$prop" in C09) $GO build -modfile=$t/go.mod -o $t/hclfmt github.com/hashicorp/hcl/v2/cmd/hclfmt || { echo "BUILD-FAILED hclfmt"; echo "exit=2"; exit 2; }; export HV_HCLFMT_BIN=$t/hclfmt;; esac
cd /verif
VERIF_EVIDENCE_DIR=$t/ev timeout 3000 $t/hv run "$prop" "$tier" > $t/out 2>&1; rc=$?
cp $t/out /verif/work/sweep/partrial-last-$prop.out 2>/dev/null
grep -a -E "^(VIOLATION|SUMMARY|KNOWN|INCONCLUSIVE|BUILD-FAILED|BROKEN)" $t/out | cut -c1-300 | head -12
grep -a -A2 "^VIOLATION" $t/out | grep -a -v "^VIOLATION\|^--" | cut -c1-300 | head -8
echo "exit=$rc"
