#!/usr/bin/env python3
"""Prints the markdown table of /verif/seeded/*/meta.json for DESIGN.md §12."""
import json, glob, os, re
rows = []
def natkey(d):
    a, b = os.path.basename(d).split('-')
    return (a, int(b))
for d in sorted(glob.glob('/verif/seeded/*'), key=natkey):
    mp = os.path.join(d, 'meta.json')
    if not os.path.exists(mp):
        continue
    m = json.load(open(mp))
    name = os.path.basename(d)
    title = re.sub(r'^(C\d\d )?[Mm]utation \d+\s*[—-]+\s*', '', m.get('title', '')).strip()
    title = title.replace('|', '/')
    files = ' '.join(sorted(set(re.findall(r'^\+\+\+ b/(\S+)', open(os.path.join(d, 'patch.diff')).read(), re.M))))
    r = m['what_i_ran']
    caught = 'yes' if m.get('caught_by_quick_check') else 'NO'
    by = m.get('caught_by', m['property'])
    classes = ', '.join(c.replace('class=', '').split('/', 1)[-1] for c in r.get('violation_classes', [])[:2])
    if m.get('caught_by_note'):
        classes = m['caught_by_note']
    rows.append(f"| {name} | {files} | {title[:110]} | {'ok' if m.get('confirmed') else 'NOT CONFIRMED'} | {caught} ({by}) | {classes[:90]} |")
print("| id | file(s) | change | suite passes / demo fails with / passes without | caught by quick check | first classes reported |")
print("|----|---------|--------|---|---|---|")
print("\n".join(rows))
