#!/bin/bash
# tools/r6_phaseA.sh <Cxx> : confirm (phase A) the two round-6 changes a sub-agent left under /tmp/r6/wt-<Cxx>/_mut/{11,12}
p="$1"
for n in 11 12; do
  src=/tmp/r6/wt-$p/_mut/$n
  [ -f $src/patch.diff ] || { echo "$p-$n missing"; continue; }
  PHASE=A /verif/tools/confirm_seeded.sh $src $p $n > /verif/work/sweep/r6A-$p-$n.log 2>&1
  echo "$p-$n phaseA: $(cat /verif/seeded/$p-$n/.phaseA | tr '\n' ' ')"
done
