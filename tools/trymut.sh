#!/bin/bash
# tools/trymut.sh <patch.diff> <Cxx> [tier]  — apply a seeded change to /repo, run the check, undo.
set -u
patch="$1"; prop="$2"; tier="${3:-quick}"
cd /repo || exit 2
if [ -n "$(git status --porcelain --untracked-files=no)" ]; then echo "repo dirty"; exit 2; fi
if ! git apply --check "$patch" 2>/dev/null; then
  if ! git apply --3way "$patch" >/dev/null 2>&1; then echo "PATCH-DOES-NOT-APPLY $patch"; git reset -q --hard HEAD; exit 3; fi
  git reset -q
else
  git apply "$patch"
fi
rm -rf "/verif/replays/$prop"; cd /verif && timeout 3000 ./check "$prop" "$tier" > /tmp/trymut.out 2>&1; rc=$?
git -C /repo checkout -- .
grep -a -E "^(VIOLATION|SUMMARY|KNOWN|INCONCLUSIVE|BUILD-FAILED|BROKEN)" /tmp/trymut.out | cut -c1-300 | head -12
grep -a -A2 "^VIOLATION" /tmp/trymut.out | grep -a -v "^VIOLATION\|^--" | cut -c1-300 | head -8
echo "exit=$rc"
