#!/usr/bin/env python3
"""tools/addfinding.py fixed|known <prop> <class> <witness> <what/why> [commit]  — append an entry to known_findings.json"""
import json, sys
status, prop, cls, witness, what = sys.argv[1:6]
commit = sys.argv[6] if len(sys.argv) > 6 else ""
p = '/verif/known_findings.json'
d = json.load(open(p))
e = {"property": prop, "class": cls, "status": status, "witness": witness}
if status == "fixed":
    e["commit"] = commit
    e["note"] = f"fixed: property={prop} {commit} {what}"
else:
    e["note"] = what
d['findings'].append(e)
json.dump(d, open(p, 'w'), indent=1, ensure_ascii=False)
print("added", status, prop, cls)
