package main

import (
	"fmt"

	"github.com/hashicorp/hcl/v2"
	"github.com/hashicorp/hcl/v2/hclsyntax"
	"github.com/zclconf/go-cty/cty"
)

func main() {
	for _, src := range []string{`!(p || f)`, `!f`, `-(f ? n : 1)`, `(f ? n : 1) + 1`, `!p`, `f || p`, `p || f`, `f ? y : false`, `obj.c >= 1 ? mp["0"] : t`, `"${p}${s}"`, `[for x in [p, "q"]: x if x != s]`} {
		e, d := hclsyntax.ParseExpression([]byte(src), "x", hcl.InitialPos)
		if d.HasErrors() {
			fmt.Println(src, d)
			continue
		}
		for _, fv := range []cty.Value{cty.True, cty.False} {
			ctx := &hcl.EvalContext{Variables: map[string]cty.Value{
				"f": fv.Mark("M"), "n": cty.UnknownVal(cty.Number), "p": cty.UnknownVal(cty.Bool), "y": cty.UnknownVal(cty.Bool),
				"obj": cty.ObjectVal(map[string]cty.Value{"c": cty.UnknownVal(cty.Number)}), "mp": cty.MapVal(map[string]cty.Value{"0": cty.StringVal("a")}).Mark("M"), "t": cty.StringVal("t"),
				"s": cty.StringVal("q").Mark("M"),
			}}
			v, dd := e.Value(ctx)
			fmt.Printf("%-36s f=%v => %#v %v\n", src, fv.True(), v, dd)
		}
	}
}
