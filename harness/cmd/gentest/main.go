// gentest is a development aid: it renders generated ASTs and reports any
// rendering the real parser rejects.
package main

import (
	"fmt"
	"math/rand"
	"os"
	"strconv"

	"github.com/hashicorp/hcl/v2"
	"github.com/hashicorp/hcl/v2/hclsyntax"
	"verifharness/gen"
)

func main() {
	n, _ := strconv.Atoi(os.Args[1])
	bad := 0
	kinds := map[string]int{}
	for i := 0; i < n; i++ {
		r := rand.New(rand.NewSource(int64(i)))
		sc := gen.NewScope(r, gen.ValOpts{StrLevel: 1})
		g := gen.NewG(r, sc, 0.15)
		g.StrLevel = 1
		e := g.Expr(gen.WAny, 4)
		gen.FixTemplates(e)
		gen.FixDollar(e)
		for _, k := range e.KindsUsed() {
			kinds[k]++
		}
		for j := 0; j < 4; j++ {
			var l *gen.Layout
			if j > 0 {
				l = gen.RandomLayout(r)
			} else {
				l = &gen.Layout{}
			}
			src := gen.RenderExpr(e, l)
			_, diags := hclsyntax.ParseExpression([]byte(src), "t.hcl", hcl.InitialPos)
			if diags.HasErrors() {
				bad++
				if bad < 15 {
					fmt.Printf("--- seed %d layout %d: %s\n%s\n", i, j, diags.Error(), src)
				}
			}
		}
	}
	fmt.Println("bad:", bad, "of", n*4)
	fmt.Println(kinds)
}
