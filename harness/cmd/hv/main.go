// hv is the driver and worker of the runtime monitors.
//
//	hv run <id> <quick|thorough>            driver: spawns crash-isolated workers, aggregates, writes evidence
//	hv worker <id> <tier> <seed> <batch> <n> <out> <cur> [index]
//	hv replay <id> <file>                   re-runs the case recorded in a replay file
//	hv list
package main

import (
	"bytes"
	"context"
	"encoding/json"
	"fmt"
	"os"
	"os/exec"
	"path/filepath"
	"regexp"
	"sort"
	"strconv"
	"strings"
	"sync"
	"time"

	"verifharness/core"
	"verifharness/mon"
)

const verifDir = "/verif"

func main() {
	if len(os.Args) < 2 {
		usage()
	}
	switch os.Args[1] {
	case "run":
		if len(os.Args) < 4 {
			usage()
		}
		os.Exit(drive(os.Args[2], os.Args[3]))
	case "worker":
		os.Exit(worker(os.Args[2:]))
	case "replay":
		if len(os.Args) < 4 {
			usage()
		}
		os.Exit(replay(os.Args[2], os.Args[3]))
	case "list":
		for _, id := range mon.IDs() {
			fmt.Println(id)
		}
	default:
		usage()
	}
}

func usage() {
	fmt.Fprintln(os.Stderr, "usage: hv run <id> <quick|thorough> | hv replay <id> <file> | hv list")
	os.Exit(2)
}

func seedFromEnv() int64 {
	if s := os.Getenv("VERIF_SEED"); s != "" {
		if v, err := strconv.ParseInt(s, 10, 64); err == nil {
			return v
		}
	}
	return 1
}

// ---------------------------------------------------------------- worker

func worker(args []string) int {
	if len(args) < 7 {
		usage()
	}
	id, tier := args[0], args[1]
	seed, _ := strconv.ParseInt(args[2], 10, 64)
	batch, _ := strconv.Atoi(args[3])
	n, _ := strconv.Atoi(args[4])
	out, cur := args[5], args[6]
	spec := mon.Registry[id]
	if spec == nil {
		fmt.Fprintln(os.Stderr, "unknown property", id)
		return 2
	}
	if spec.Race {
		// a storm of 32 goroutines under the race detector legitimately burns CPU
		core.CPUHangLimit = 900
	}
	w := core.NewWorker(id, tier, seed, batch, cur)
	if len(args) >= 8 {
		w.Replay, _ = strconv.Atoi(args[7])
	}
	if spec.Batch != nil {
		spec.Batch(w, n)
	} else {
		w.Run(n, spec.Case)
	}
	if err := w.Finish(out); err != nil {
		fmt.Fprintln(os.Stderr, "finish:", err)
		return 2
	}
	return 0
}

// ---------------------------------------------------------------- known findings

type Finding struct {
	Property string `json:"property"`
	Class    string `json:"class"`
	Status   string `json:"status"` // "known" or "fixed"
	Witness  string `json:"witness"`
	Commit   string `json:"commit,omitempty"`
	Note     string `json:"note,omitempty"`
}

type FindingsFile struct {
	Findings []Finding `json:"findings"`
}

func loadFindings() []Finding {
	b, err := os.ReadFile(filepath.Join(verifDir, "known_findings.json"))
	if err != nil {
		return nil
	}
	var ff FindingsFile
	if err := json.Unmarshal(b, &ff); err != nil {
		fmt.Fprintln(os.Stderr, "known_findings.json:", err)
		return nil
	}
	return ff.Findings
}

func matchKnown(fs []Finding, prop, class string) *Finding {
	for i := range fs {
		f := &fs[i]
		if f.Property != prop || f.Status != "known" {
			continue
		}
		if f.Class == class {
			return f
		}
	}
	return nil
}

// ---------------------------------------------------------------- driver

type batchOutcome struct {
	res      *core.BatchResult
	died     bool
	hang     bool
	diedMsg  string
	diedHCL  bool
	timedOut bool
	cur      string
	stderr   string
}

func drive(id, tier string) int {
	start := time.Now()
	spec := mon.Registry[id]
	if spec == nil {
		fmt.Fprintln(os.Stderr, "unknown property", id)
		return 2
	}
	if tier != "quick" && tier != "thorough" {
		fmt.Fprintln(os.Stderr, "tier must be quick or thorough")
		return 2
	}
	seed := seedFromEnv()
	plan := spec.Plan(tier)
	self, _ := os.Executable()
	bin := self
	if spec.Race {
		if rb := os.Getenv("HV_RACE_BIN"); rb != "" {
			bin = rb
		}
	}
	runDir := filepath.Join(verifDir, "work", "run", fmt.Sprintf("%s-%s-%d", id, tier, os.Getpid()))
	os.MkdirAll(runDir, 0o755)
	defer os.RemoveAll(runDir)
	repDir := filepath.Join(verifDir, "replays", id)
	os.MkdirAll(repDir, 0o755)

	par := 16
	if p := os.Getenv("VERIF_PAR"); p != "" {
		if v, err := strconv.Atoi(p); err == nil && v > 0 {
			par = v
		}
	}
	if spec.Race {
		par = 4 // each race worker runs its own goroutine storm
	}
	wallLimit := 40 * time.Minute
	if tier == "thorough" {
		wallLimit = 6 * time.Hour
	}

	outcomes := make([]batchOutcome, plan.Batches)
	sem := make(chan struct{}, par)
	var wg sync.WaitGroup
	for b := 0; b < plan.Batches; b++ {
		wg.Add(1)
		sem <- struct{}{}
		go func(b int) {
			defer wg.Done()
			defer func() { <-sem }()
			outcomes[b] = runBatch(bin, id, tier, seed, b, plan.PerBatch, runDir, repDir, wallLimit)
		}(b)
	}
	wg.Wait()

	// CPU-budget alarms are confirmed alone: process CPU time is not entirely
	// independent of what else the machine is doing (garbage collection and
	// page faults cost more under memory pressure), so a case that exceeded its
	// budget while 15 other workers were running is re-run in a fresh worker
	// with nothing beside it; only an alarm that recurs is reported.
	cpuClass := func(cl string) bool { return strings.Contains(cl, "/cpu/") || strings.Contains(cl, "/hang/") }
	unconfirmed := 0
	for b := range outcomes {
		o := &outcomes[b]
		if o.died && o.hang {
			idx, _ := parseCur(o.cur)
			if idx < 0 {
				continue
			}
			again := runBatchOne(bin, id, tier, seed, b, plan.PerBatch, runDir, repDir, wallLimit, idx)
			if again.died && again.hang {
				continue // confirmed
			}
			// not reproduced: the alarm is dropped and the batch is run once more, now
			// that no other worker is running
			unconfirmed++
			redo := runBatch(bin, id, tier, seed, b, plan.PerBatch, runDir, repDir, wallLimit)
			if !redo.died && !redo.timedOut && redo.res != nil {
				*o = redo
				fmt.Printf("INCONCLUSIVE property=%s batch=%d case %d exceeded its CPU budget while other workers were running but not when re-run alone; the batch was run again alone and completed\n", id, b, idx)
				// (its own CPU-class reports, if any, are confirmed below like any other)
			} else {
				o.hang, o.died, o.timedOut = false, false, true
				fmt.Printf("INCONCLUSIVE property=%s batch=%d case %d exceeded its CPU budget while other workers were running but not when re-run alone; the rest of the batch was not executed\n", id, b, idx)
				continue
			}
		}
		if o.res == nil {
			continue
		}
		var keep []core.Violation
		for _, v := range o.res.Violations {
			if !cpuClass(v.Class) {
				keep = append(keep, v)
				continue
			}
			again := runBatchOne(bin, id, tier, seed, v.Batch, plan.PerBatch, runDir, repDir, wallLimit, v.Index)
			confirmed := again.died && again.hang
			if again.res != nil {
				for _, v2 := range again.res.Violations {
					if v2.Class == v.Class {
						confirmed = true
					}
				}
			}
			if confirmed {
				keep = append(keep, v)
			} else {
				unconfirmed++
				fmt.Printf("INCONCLUSIVE property=%s batch=%d case %d: %s while other workers were running, not when re-run alone\n", id, v.Batch, v.Index, oneLine(trunc(v.Msg, 160)))
			}
		}
		o.res.Violations = keep
	}

	// aggregate
	known := loadFindings()
	nt := map[uint64]struct{}{}
	counts := map[string]int{}
	inconc := map[string]int{}
	var samples []any
	evals := 0
	var viols []core.Violation
	classOcc := map[string]int{}
	var harnessErrs []string
	extra := map[string]any{}
	for b, o := range outcomes {
		if o.timedOut {
			inconc["watchdog: worker exceeded wall-clock limit"]++
			fmt.Printf("INCONCLUSIVE property=%s batch=%d worker stopped by wall-clock watchdog\n", id, b)
			continue
		}
		if o.died {
			curIdx, curIn := parseCur(o.cur)
			_ = curIn
			if o.hang {
				hc := "other"
				if spec.HangClass != nil {
					hc = spec.HangClass(curIn)
				}
				v := core.Violation{Class: id + "/hang/cpu-bound/" + hc, Msg: fmt.Sprintf("one case consumed more than %.0f CPU-seconds: %s", core.CPUHangLimit, oneLine(trunc(o.stderr, 300))), Batch: b, Index: curIdx, Input: curIn}
				viols = append(viols, v)
			} else if o.diedHCL {
				v := core.Violation{Class: id + "/process-death/" + o.diedMsg, Msg: "worker process died: " + o.diedMsg, Batch: b, Index: curIdx, Input: curIn, Detail: map[string]any{"stderr": o.stderr}}
				viols = append(viols, v)
			} else {
				harnessErrs = append(harnessErrs, fmt.Sprintf("batch %d: worker died (%s)\n%s", b, o.diedMsg, o.stderr))
			}
			continue
		}
		r := o.res
		evals += r.Evaluations
		for _, h := range r.NonTrivial {
			nt[h] = struct{}{}
		}
		for k, v := range r.Counts {
			counts[k] += v
		}
		for k, v := range r.Inconclusive {
			inconc[k] += v
		}
		if len(samples) < 8 {
			for _, s := range r.Samples {
				if len(samples) < 8 {
					samples = append(samples, s)
				}
			}
		}
		viols = append(viols, r.Violations...)
		for cl, n := range r.ClassCounts {
			classOcc[cl] += n
		}
		harnessErrs = append(harnessErrs, r.HarnessErr...)
		for k, v := range r.Extra {
			mergeExtra(extra, k, v)
		}
	}

	// classify violations
	byClass := map[string][]core.Violation{}
	var classes []string
	for _, v := range viols {
		if _, ok := byClass[v.Class]; !ok {
			classes = append(classes, v.Class)
		}
		byClass[v.Class] = append(byClass[v.Class], v)
	}
	sort.Strings(classes)
	unlisted := 0
	knownSeen := map[string]int{}
	for _, cl := range classes {
		vs := byClass[cl]
		occ := len(vs)
		if classOcc[cl] > occ {
			occ = classOcc[cl]
		}
		if f := matchKnown(known, id, cl); f != nil {
			knownSeen[cl] = occ
			fmt.Printf("KNOWN-FINDING: property=%s %s (%d occurrences this run; listed witness: %s)\n", id, cl, occ, oneLine(f.Witness))
			continue
		}
		unlisted++
		v := vs[0]
		path := filepath.Join(repDir, safeName(cl)+".json")
		rec := map[string]any{"property": id, "tier": tier, "seed": seed, "violation": v, "occurrences": occ}
		jb, _ := json.MarshalIndent(rec, "", " ")
		os.WriteFile(path, jb, 0o644)
		fmt.Printf("VIOLATION property=%s replay=%s\n", id, path)
		fmt.Printf("  class=%s occurrences=%d\n  %s\n", cl, occ, oneLine(v.Msg))
		if v.Input != "" {
			fmt.Printf("  input: %s\n", oneLine(trunc(v.Input, 400)))
		}
	}
	if unconfirmed > 0 {
		inconc["cpu budget exceeded under load, not reproduced alone"] += unconfirmed
	}
	for k, v := range inconc {
		fmt.Printf("INCONCLUSIVE property=%s %s (x%d)\n", id, k, v)
	}
	for _, e := range harnessErrs {
		fmt.Fprintf(os.Stderr, "HARNESS-ERROR property=%s %s\n", id, e)
	}

	wall := time.Since(start).Seconds()
	cov := map[string]any{
		"evaluations":         evals,
		"distinct_nontrivial": len(nt),
		"rule":                spec.Rule,
		"samples":             samples,
		"observed":            counts,
		"inconclusive":        inconc,
		"known_findings_seen": knownSeen,
		"batches":             plan.Batches,
		"cases_per_batch":     plan.PerBatch,
	}
	for k, v := range extra {
		cov[k] = v
	}
	ev := map[string]any{
		"property_id": id,
		"tier":        tier,
		"seed":        seed,
		"level":       "exploration",
		"coverage":    cov,
		"assumptions": spec.Assumptions,
		"wall_s":      wall,
		"violations":  unlisted,
	}
	if len(samples) == 0 {
		cov["samples"] = []any{"(no sample recorded)"}
	}
	eb, _ := json.MarshalIndent(ev, "", " ")
	// (VERIF_EVIDENCE_DIR: sweeps at other seeds keep their evidence apart from the
	// committed evidence/<id>.json)
	evDir := filepath.Join(verifDir, "evidence")
	if d := os.Getenv("VERIF_EVIDENCE_DIR"); d != "" {
		evDir = d
	}
	os.MkdirAll(evDir, 0o755)
	os.WriteFile(filepath.Join(evDir, id+".json"), eb, 0o644)

	fmt.Printf("SUMMARY property=%s tier=%s seed=%d evaluations=%d distinct_nontrivial=%d violations=%d known=%d inconclusive=%d wall_s=%.1f\n",
		id, tier, seed, evals, len(nt), unlisted, len(knownSeen), len(inconc), wall)
	keys := make([]string, 0, len(counts))
	for k := range counts {
		keys = append(keys, k)
	}
	sort.Strings(keys)
	var sb strings.Builder
	for _, k := range keys {
		fmt.Fprintf(&sb, " %s=%d", k, counts[k])
	}
	fmt.Printf("OBSERVED%s\n", trunc(sb.String(), 6000))

	if unlisted > 0 {
		return 1
	}
	if len(harnessErrs) > 0 {
		fmt.Fprintf(os.Stderr, "BROKEN-CHECK property=%s: %d harness errors\n", id, len(harnessErrs))
		return 2
	}
	if len(nt) < plan.MinNonTrivial {
		fmt.Fprintf(os.Stderr, "BROKEN-CHECK property=%s: only %d distinct non-trivial cases observed (minimum %d)\n", id, len(nt), plan.MinNonTrivial)
		return 2
	}
	return 0
}

func parseCur(cur string) (int, string) {
	var rec struct {
		Index int    `json:"index"`
		Input string `json:"input"`
	}
	rec.Index = -1
	if err := json.Unmarshal([]byte(cur), &rec); err != nil {
		return -1, cur
	}
	return rec.Index, rec.Input
}

func mergeExtra(dst map[string]any, k string, v any) {
	switch nv := v.(type) {
	case float64:
		if old, ok := dst[k].(float64); ok {
			if strings.HasPrefix(k, "max_") {
				if nv > old {
					dst[k] = nv
				}
			} else {
				dst[k] = old + nv
			}
		} else {
			dst[k] = nv
		}
	case []any:
		old, _ := dst[k].([]any)
		if len(old) < 12 {
			dst[k] = append(old, nv...)
		}
	default:
		if _, ok := dst[k]; !ok {
			dst[k] = v
		}
	}
}

var unsafeChars = regexp.MustCompile(`[^A-Za-z0-9_.-]+`)

func safeName(s string) string {
	n := unsafeChars.ReplaceAllString(s, "_")
	if len(n) > 80 {
		n = n[:80]
	}
	return fmt.Sprintf("%s-%08x", n, core.Hash64(s)&0xffffffff)
}

func oneLine(s string) string {
	s = strings.ReplaceAll(s, "\n", "\\n")
	s = strings.ReplaceAll(s, "\r", "\\r")
	return s
}

func trunc(s string, n int) string {
	if len(s) > n {
		return s[:n] + "..."
	}
	return s
}

func runBatch(bin, id, tier string, seed int64, b, n int, runDir, repDir string, limit time.Duration) batchOutcome {
	return runBatchOne(bin, id, tier, seed, b, n, runDir, repDir, limit, -1)
}

// runBatchOne runs a whole batch (only < 0) or exactly one case of it.
func runBatchOne(bin, id, tier string, seed int64, b, n int, runDir, repDir string, limit time.Duration, only int) batchOutcome {
	out := filepath.Join(runDir, fmt.Sprintf("b%d.json", b))
	cur := filepath.Join(repDir, fmt.Sprintf("current-%d-%d.json", os.Getpid(), b))
	args := []string{"worker", id, tier, strconv.FormatInt(seed, 10), strconv.Itoa(b), strconv.Itoa(n), out, cur}
	if only >= 0 {
		out = filepath.Join(runDir, fmt.Sprintf("b%d-only%d.json", b, only))
		cur = filepath.Join(repDir, fmt.Sprintf("current-%d-%d-only%d.json", os.Getpid(), b, only))
		args = []string{"worker", id, tier, strconv.FormatInt(seed, 10), strconv.Itoa(b), strconv.Itoa(n), out, cur, strconv.Itoa(only)}
	}
	ctx, cancel := context.WithTimeout(context.Background(), limit)
	defer cancel()
	cmd := exec.CommandContext(ctx, bin, args...)
	var stderr bytes.Buffer
	cmd.Stderr = &stderr
	cmd.Stdout = &stderr
	cmd.Env = append(os.Environ(), "GOTRACEBACK=all", "GOMAXPROCS="+workerProcs(id))
	if spec := mon.Registry[id]; spec != nil && spec.Race {
		// every report is collected (the worker reads its own log after each storm)
		cmd.Env = append(cmd.Env, "GORACE=halt_on_error=0 exitcode=0 log_path="+filepath.Join(runDir, fmt.Sprintf("race-b%d", b)))
	}
	err := cmd.Run()
	o := batchOutcome{}
	if ctx.Err() == context.DeadlineExceeded {
		o.timedOut = true
		os.Remove(cur)
		return o
	}
	rb, rerr := os.ReadFile(out)
	var res core.BatchResult
	if rerr == nil {
		rerr = json.Unmarshal(rb, &res)
	}
	if err != nil || rerr != nil || !res.Done {
		o.died = true
		se := stderr.String()
		if ee, ok := err.(*exec.ExitError); ok {
			switch ee.ExitCode() {
			case core.ExitCPUHang:
				o.hang = true
			case core.ExitWallOnly:
				o.timedOut = true
				os.Remove(cur)
				return o
			}
		}
		o.stderr = trunc(se, 6000)
		o.diedMsg = deathKind(se, err)
		o.diedHCL = strings.Contains(se, "github.com/hashicorp/hcl/v2") && (strings.Contains(se, "fatal error:") || strings.Contains(se, "panic:") || strings.Contains(se, "DATA RACE"))
		if cb, e := os.ReadFile(cur); e == nil {
			o.cur = string(cb)
			// keep the dying case as the replay witness
			keep := filepath.Join(repDir, fmt.Sprintf("died-batch%d.json", b))
			os.WriteFile(keep, cb, 0o644)
		}
		os.Remove(cur)
		return o
	}
	os.Remove(cur)
	o.res = &res
	if s := stderr.String(); s != "" && os.Getenv("VERIF_DEBUG") != "" {
		fmt.Fprintf(os.Stderr, "[worker %d stderr]\n%s\n", b, trunc(s, 4000))
	}
	return o
}

func workerProcs(id string) string {
	if spec := mon.Registry[id]; spec != nil && spec.Race {
		return "16"
	}
	return "2"
}

func deathKind(stderr string, err error) string {
	for _, l := range strings.Split(stderr, "\n") {
		if strings.HasPrefix(l, "fatal error:") || strings.HasPrefix(l, "panic:") {
			return strings.TrimSpace(trunc(l, 100))
		}
	}
	if err != nil {
		return err.Error()
	}
	return "no result"
}

// ---------------------------------------------------------------- replay

func replay(id, file string) int {
	b, err := os.ReadFile(file)
	if err != nil {
		fmt.Fprintln(os.Stderr, err)
		return 2
	}
	var rec struct {
		Tier      string         `json:"tier"`
		Seed      int64          `json:"seed"`
		Violation core.Violation `json:"violation"`
		// died-batch files
		Batch *int `json:"batch"`
		Index *int `json:"index"`
	}
	if err := json.Unmarshal(b, &rec); err != nil {
		fmt.Fprintln(os.Stderr, err)
		return 2
	}
	batch, index := rec.Violation.Batch, rec.Violation.Index
	if rec.Batch != nil && rec.Index != nil {
		batch, index = *rec.Batch, *rec.Index
	}
	if rec.Tier == "" {
		rec.Tier = "quick"
	}
	spec := mon.Registry[id]
	if spec == nil {
		fmt.Fprintln(os.Stderr, "unknown property", id)
		return 2
	}
	w := core.NewWorker(id, rec.Tier, rec.Seed, batch, "")
	w.Replay = index
	plan := spec.Plan(rec.Tier)
	if spec.Batch != nil {
		spec.Batch(w, plan.PerBatch)
	} else {
		w.Run(plan.PerBatch, spec.Case)
	}
	for _, v := range w.Res.Violations {
		fmt.Printf("VIOLATION property=%s replay=%s\n  class=%s\n  %s\n  input: %s\n", id, file, v.Class, oneLine(v.Msg), oneLine(trunc(v.Input, 2000)))
		if v.Detail != nil {
			db, _ := json.MarshalIndent(v.Detail, "  ", " ")
			fmt.Printf("  detail: %s\n", trunc(string(db), 6000))
		}
	}
	for _, e := range w.Res.HarnessErr {
		fmt.Fprintln(os.Stderr, "HARNESS-ERROR", e)
	}
	if len(w.Res.Violations) > 0 {
		return 1
	}
	fmt.Printf("replay of %s batch=%d index=%d: no violation reproduced\n", id, batch, index)
	return 0
}
