// Package model holds the executable reference models the monitors compare
// the implementation with.
package model

import "unicode/utf8"

// JSONInfo describes a text the recogniser accepted.
type JSONInfo struct {
	Valid         bool
	RootKind      byte // '{', '[', '"', 'n' (number), 't','f','0'(null)
	MaxDepth      int
	InvalidUTF8   bool // the text contains ill-formed UTF-8 (inside strings)
	LoneSurrogate bool // a \uD800-\uDFFF escape that is not part of a pair
	HugeNumber    bool // a number with > 6 exponent digits (beyond what the information model must represent)
}

// RFC8259 is a strict recursive-descent recogniser written from RFC 8259:
// JSON-text = ws value ws; only space, tab, LF, CR are whitespace; no trailing
// commas, no comments, no leading zeros, no bare words, strings without raw
// control characters and with only the nine escape forms.
func RFC8259(b []byte) JSONInfo {
	p := &jp{b: b}
	p.ws()
	if p.i >= len(b) {
		return JSONInfo{}
	}
	p.info.RootKind = kindOf(b[p.i])
	if !p.value(1) {
		return JSONInfo{InvalidUTF8: p.info.InvalidUTF8}
	}
	p.ws()
	if p.i != len(b) {
		return JSONInfo{InvalidUTF8: p.info.InvalidUTF8}
	}
	p.info.Valid = true
	return p.info
}

func kindOf(c byte) byte {
	switch {
	case c == '{' || c == '[' || c == '"':
		return c
	case c == '-' || (c >= '0' && c <= '9'):
		return 'n'
	case c == 't':
		return 't'
	case c == 'f':
		return 'f'
	case c == 'n':
		return '0'
	}
	return '?'
}

type jp struct {
	b    []byte
	i    int
	info JSONInfo
}

func (p *jp) ws() {
	for p.i < len(p.b) {
		switch p.b[p.i] {
		case ' ', '\t', '\n', '\r':
			p.i++
		default:
			return
		}
	}
}

func (p *jp) lit(s string) bool {
	if len(p.b)-p.i >= len(s) && string(p.b[p.i:p.i+len(s)]) == s {
		p.i += len(s)
		return true
	}
	return false
}

func (p *jp) value(depth int) bool {
	if depth > p.info.MaxDepth {
		p.info.MaxDepth = depth
	}
	if depth > 100000 {
		return false
	}
	if p.i >= len(p.b) {
		return false
	}
	switch c := p.b[p.i]; {
	case c == '{':
		p.i++
		p.ws()
		if p.i < len(p.b) && p.b[p.i] == '}' {
			p.i++
			return true
		}
		for {
			p.ws()
			if !p.str() {
				return false
			}
			p.ws()
			if p.i >= len(p.b) || p.b[p.i] != ':' {
				return false
			}
			p.i++
			p.ws()
			if !p.value(depth + 1) {
				return false
			}
			p.ws()
			if p.i >= len(p.b) {
				return false
			}
			if p.b[p.i] == ',' {
				p.i++
				continue
			}
			if p.b[p.i] == '}' {
				p.i++
				return true
			}
			return false
		}
	case c == '[':
		p.i++
		p.ws()
		if p.i < len(p.b) && p.b[p.i] == ']' {
			p.i++
			return true
		}
		for {
			p.ws()
			if !p.value(depth + 1) {
				return false
			}
			p.ws()
			if p.i >= len(p.b) {
				return false
			}
			if p.b[p.i] == ',' {
				p.i++
				continue
			}
			if p.b[p.i] == ']' {
				p.i++
				return true
			}
			return false
		}
	case c == '"':
		return p.str()
	case c == 't':
		return p.lit("true")
	case c == 'f':
		return p.lit("false")
	case c == 'n':
		return p.lit("null")
	case c == '-' || (c >= '0' && c <= '9'):
		return p.num()
	}
	return false
}

func (p *jp) digits() int {
	n := 0
	for p.i < len(p.b) && p.b[p.i] >= '0' && p.b[p.i] <= '9' {
		p.i++
		n++
	}
	return n
}

func (p *jp) num() bool {
	if p.b[p.i] == '-' {
		p.i++
	}
	if p.i >= len(p.b) {
		return false
	}
	mant := 0
	if p.b[p.i] == '0' {
		p.i++
		mant = 1
	} else if p.b[p.i] >= '1' && p.b[p.i] <= '9' {
		mant = p.digits()
	} else {
		return false
	}
	if p.i < len(p.b) && p.b[p.i] == '.' {
		p.i++
		n := p.digits()
		if n == 0 {
			return false
		}
		mant += n
	}
	if p.i < len(p.b) && (p.b[p.i] == 'e' || p.b[p.i] == 'E') {
		p.i++
		if p.i < len(p.b) && (p.b[p.i] == '+' || p.b[p.i] == '-') {
			p.i++
		}
		n := p.digits()
		if n == 0 {
			return false
		}
		if n > 6 {
			p.info.HugeNumber = true
		}
	}
	_ = mant
	return true
}

func hexv(c byte) int {
	switch {
	case c >= '0' && c <= '9':
		return int(c - '0')
	case c >= 'a' && c <= 'f':
		return int(c-'a') + 10
	case c >= 'A' && c <= 'F':
		return int(c-'A') + 10
	}
	return -1
}

func (p *jp) str() bool {
	if p.i >= len(p.b) || p.b[p.i] != '"' {
		return false
	}
	p.i++
	for p.i < len(p.b) {
		c := p.b[p.i]
		switch {
		case c == '"':
			p.i++
			return true
		case c < 0x20:
			return false
		case c == '\\':
			p.i++
			if p.i >= len(p.b) {
				return false
			}
			switch p.b[p.i] {
			case '"', '\\', '/', 'b', 'f', 'n', 'r', 't':
				p.i++
			case 'u':
				v := 0
				for k := 1; k <= 4; k++ {
					if p.i+k >= len(p.b) {
						return false
					}
					h := hexv(p.b[p.i+k])
					if h < 0 {
						return false
					}
					v = v*16 + h
				}
				p.i += 5
				if v >= 0xD800 && v <= 0xDBFF {
					// high surrogate: needs a following \uDC00-\uDFFF
					ok := false
					if p.i+1 < len(p.b) && p.b[p.i] == '\\' && p.b[p.i+1] == 'u' {
						w := 0
						good := true
						for k := 2; k <= 5; k++ {
							if p.i+k >= len(p.b) {
								good = false
								break
							}
							h := hexv(p.b[p.i+k])
							if h < 0 {
								good = false
								break
							}
							w = w*16 + h
						}
						if good && w >= 0xDC00 && w <= 0xDFFF {
							ok = true
						}
					}
					if !ok {
						p.info.LoneSurrogate = true
					}
				} else if v >= 0xDC00 && v <= 0xDFFF {
					// low surrogate: fine only directly after a high one; detect by looking back
					if !(p.i >= 12 && p.b[p.i-12] == '\\' && p.b[p.i-11] == 'u' && isHighSurr(p.b[p.i-10:p.i-6])) {
						p.info.LoneSurrogate = true
					}
				}
			default:
				return false
			}
		case c < 0x80:
			p.i++
		default:
			r, sz := utf8.DecodeRune(p.b[p.i:])
			if r == utf8.RuneError && sz <= 1 {
				p.info.InvalidUTF8 = true
				p.i++
			} else {
				p.i += sz
			}
		}
	}
	return false
}

func isHighSurr(h []byte) bool {
	v := 0
	for _, c := range h {
		x := hexv(c)
		if x < 0 {
			return false
		}
		v = v*16 + x
	}
	return v >= 0xD800 && v <= 0xDBFF
}
