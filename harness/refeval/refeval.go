// Package refeval is an independent reference evaluator for the harness's
// expression AST, written from hclsyntax/spec.md and spec.md. It shares no
// code with hclsyntax. Where the specification is silent or delegates to the
// value domain, it either asks go-cty for the type-level answer (conversion,
// unification: the trusted base) or answers Unspecified.
package refeval

import (
	"fmt"
	"math/big"
	"sort"
	"strings"
	"unicode"

	"github.com/zclconf/go-cty/cty"
	"github.com/zclconf/go-cty/cty/convert"

	"verifharness/gen"
)

// Status of a reference evaluation.
type Status int

const (
	OK          Status = iota // the specification assigns exactly Val
	Err                       // the specification makes the expression erroneous
	Unspecified               // the specification does not decide this case
	ErrOrVal                  // either an error or exactly Val is acceptable (§4 zone 3)
)

type Result struct {
	Status Status
	Val    cty.Value
	Why    string // reason for Err / Unspecified
	// LooseSeq: a splat was evaluated; list/tuple kind of sequences is not compared
	LooseSeq bool
}

// Scope is a chain of variable maps.
type Scope struct {
	Vars   map[string]cty.Value
	Parent *Scope
}

func (s *Scope) lookup(name string) (cty.Value, bool) {
	for sc := s; sc != nil; sc = sc.Parent {
		if v, ok := sc.Vars[name]; ok {
			return v, true
		}
	}
	return cty.NilVal, false
}

func (s *Scope) child(vars map[string]cty.Value) *Scope {
	return &Scope{Vars: vars, Parent: s}
}

type Evaluator struct {
	Funcs map[string]*gen.FuncSpec
	loose bool
}

func errf(format string, a ...any) Result {
	return Result{Status: Err, Why: fmt.Sprintf(format, a...)}
}
func unspec(format string, a ...any) Result {
	return Result{Status: Unspecified, Why: fmt.Sprintf(format, a...)}
}
func ok(v cty.Value) Result { return Result{Status: OK, Val: v} }

// Eval evaluates n in scope.
func (e *Evaluator) Eval(n *gen.Node, sc *Scope) Result {
	e.loose = false
	r := e.eval(n, sc)
	r.LooseSeq = e.loose
	return r
}

// sub evaluates a child of a composite construct: a child that is
// "either an error or a value" leaves the parent undecided.
func (e *Evaluator) sub(n *gen.Node, sc *Scope) Result {
	r := e.eval(n, sc)
	if r.Status == ErrOrVal {
		return unspec("operand is either an error or %s", r.Val.GoString())
	}
	return r
}

func num(f *big.Float) cty.Value { return cty.NumberVal(f) }

func newF() *big.Float { return new(big.Float).SetPrec(512) }

// toNumber / toBool / toString apply the information model's conversion where
// an operand of that type is expected. null is never acceptable.
func toType(v cty.Value, ty cty.Type, what string) (cty.Value, *Result) {
	if v.IsNull() {
		r := errf("%s is null", what)
		return cty.NilVal, &r
	}
	cv, err := convert.Convert(v, ty)
	if err != nil {
		r := errf("%s: %s required, have %s", what, ty.FriendlyName(), v.Type().FriendlyName())
		return cty.NilVal, &r
	}
	return cv, nil
}

func (e *Evaluator) eval(n *gen.Node, sc *Scope) Result {
	switch n.Kind {
	case gen.KNum:
		return ok(gen.NumVal(n.Num))
	case gen.KBool:
		return ok(cty.BoolVal(n.Bool))
	case gen.KNull:
		return ok(cty.NullVal(cty.DynamicPseudoType))
	case gen.KStr:
		return ok(cty.StringVal(n.Str))
	case gen.KVar:
		v, found := sc.lookup(n.Name)
		if !found {
			return errf("unknown variable %s", n.Name)
		}
		return ok(v)
	case gen.KParen:
		return e.eval(n.Kids[0], sc)
	case gen.KAttr:
		base := e.sub(n.Kids[0], sc)
		if base.Status != OK {
			return base
		}
		return getAttr(base.Val, n.Name)
	case gen.KIndex:
		base := e.sub(n.Kids[0], sc)
		key := e.sub(n.Kids[1], sc)
		if base.Status != OK {
			if base.Status == Err || key.Status == OK {
				return base
			}
			return key
		}
		if key.Status != OK {
			return key
		}
		return index(base.Val, key.Val)
	case gen.KLegacy:
		base := e.sub(n.Kids[0], sc)
		if base.Status != OK {
			return base
		}
		return index(base.Val, gen.NumVal(n.Num))
	case gen.KSplat:
		return e.splat(n, sc)
	case gen.KTuple:
		if len(n.Kids) == 0 {
			return ok(cty.EmptyTupleVal)
		}
		vals := make([]cty.Value, len(n.Kids))
		var firstBad *Result
		for i, k := range n.Kids {
			r := e.sub(k, sc)
			if r.Status != OK {
				if r.Status == Err {
					return r
				}
				if firstBad == nil {
					firstBad = &r
				}
				continue
			}
			vals[i] = r.Val
		}
		if firstBad != nil {
			return *firstBad
		}
		return ok(cty.TupleVal(vals))
	case gen.KObject:
		return e.object(n, sc)
	case gen.KUnary:
		x := e.sub(n.Kids[0], sc)
		if x.Status != OK {
			return x
		}
		if n.Op == "-" {
			v, bad := toType(x.Val, cty.Number, "operand of unary -")
			if bad != nil {
				return *bad
			}
			return ok(num(newF().Neg(v.AsBigFloat())))
		}
		v, bad := toType(x.Val, cty.Bool, "operand of !")
		if bad != nil {
			return *bad
		}
		return ok(cty.BoolVal(!v.True()))
	case gen.KBinary:
		return e.binary(n, sc)
	case gen.KCond:
		return e.cond(n, sc)
	case gen.KCall:
		return e.call(n, sc)
	case gen.KForTuple, gen.KForObject:
		return e.forExpr(n, sc)
	case gen.KTemplate:
		return e.template(n, sc)
	}
	return unspec("node kind %s not modelled", n.Kind)
}

// ---------------------------------------------------------------- access

func getAttr(v cty.Value, name string) Result {
	if v.IsNull() {
		return errf("attribute access on null")
	}
	ty := v.Type()
	switch {
	case ty.IsObjectType():
		if !ty.HasAttribute(name) {
			return errf("object has no attribute %q", name)
		}
		return ok(v.GetAttr(name))
	case ty.IsMapType():
		// hclsyntax/spec.md defines attribute access for object types only
		return unspec("attribute access on a map")
	}
	return errf("attribute access on %s", ty.FriendlyName())
}

func index(coll, key cty.Value) Result {
	if coll.IsNull() {
		return errf("index on null")
	}
	if key.IsNull() {
		return errf("null index key")
	}
	ty := coll.Type()
	switch {
	case ty.IsListType() || ty.IsTupleType():
		k, err := convert.Convert(key, cty.Number)
		if err != nil {
			return errf("sequence index is not a number")
		}
		bf := k.AsBigFloat()
		if !bf.IsInt() || bf.Sign() < 0 {
			return errf("sequence index is not a non-negative whole number")
		}
		i, acc := bf.Int64()
		if acc != big.Exact || i >= int64(coll.LengthInt()) {
			return errf("sequence index out of range")
		}
		return ok(coll.Index(cty.NumberIntVal(i)))
	case ty.IsMapType():
		k, err := convert.Convert(key, cty.String)
		if err != nil {
			return errf("map key is not a string")
		}
		if !coll.HasIndex(k).True() {
			return errf("map has no key %q", k.AsString())
		}
		return ok(coll.Index(k))
	case ty.IsObjectType():
		k, err := convert.Convert(key, cty.String)
		if err != nil {
			return errf("object key is not a string")
		}
		if !ty.HasAttribute(k.AsString()) {
			return errf("object has no attribute %q", k.AsString())
		}
		return ok(coll.GetAttr(k.AsString()))
	}
	return errf("index on %s", ty.FriendlyName())
}

func (e *Evaluator) splat(n *gen.Node, sc *Scope) Result {
	e.loose = true
	src := e.sub(n.Kids[0], sc)
	if src.Status != OK {
		return src
	}
	v := src.Val
	ty := v.Type()
	isSeq := ty.IsTupleType() || ty.IsListType() || ty.IsSetType()
	var elems []cty.Value
	switch {
	case v.IsNull() && isSeq:
		return errf("splat of null sequence")
	case v.IsNull():
		elems = nil
	case isSeq:
		if ty.IsSetType() && v.LengthInt() > 1 {
			return unspec("iteration order of a set")
		}
		for it := v.ElementIterator(); it.Next(); {
			_, ev := it.Element()
			elems = append(elems, ev)
		}
	default:
		elems = []cty.Value{v}
	}
	if len(elems) == 0 && len(n.Tail) > 0 {
		return Result{Status: ErrOrVal, Val: cty.EmptyTupleVal, Why: "splat with a traversal over an empty sequence"}
	}
	out := make([]cty.Value, 0, len(elems))
	var pending *Result
	for _, ev := range elems {
		cur := ok(ev)
		for _, st := range n.Tail {
			switch {
			case st.Index != nil:
				k := e.sub(st.Index, sc)
				if k.Status != OK {
					cur = k
				} else {
					cur = index(cur.Val, k.Val)
				}
			case st.Legacy:
				cur = index(cur.Val, cty.NumberIntVal(int64(st.N)))
			default:
				cur = getAttr(cur.Val, st.Attr)
			}
			if cur.Status != OK {
				break
			}
		}
		if cur.Status == Err {
			return cur
		}
		if cur.Status != OK {
			if pending == nil {
				c := cur
				pending = &c
			}
			continue
		}
		out = append(out, cur.Val)
	}
	if pending != nil {
		return *pending
	}
	if len(out) == 0 {
		return ok(cty.EmptyTupleVal)
	}
	return ok(cty.TupleVal(out))
}

func (e *Evaluator) object(n *gen.Node, sc *Scope) Result {
	attrs := map[string]cty.Value{}
	var pending *Result
	for i, k := range n.Keys {
		var name string
		switch k.Form {
		case gen.KeyIdent:
			name = k.Name
		default:
			kr := e.sub(k.Expr, sc)
			if kr.Status == Err {
				return kr
			}
			if kr.Status != OK {
				if pending == nil {
					pending = &kr
				}
				continue
			}
			kv, bad := toType(kr.Val, cty.String, "object key")
			if bad != nil {
				return *bad
			}
			name = kv.AsString()
		}
		vr := e.sub(n.Kids[i], sc)
		if vr.Status == Err {
			return vr
		}
		if vr.Status != OK {
			if pending == nil {
				pending = &vr
			}
			continue
		}
		if _, dup := attrs[name]; dup {
			return unspec("duplicate key in an object constructor")
		}
		attrs[name] = vr.Val
	}
	if pending != nil {
		return *pending
	}
	if len(attrs) == 0 {
		return ok(cty.EmptyObjectVal)
	}
	return ok(cty.ObjectVal(attrs))
}

// ---------------------------------------------------------------- operators

func (e *Evaluator) binary(n *gen.Node, sc *Scope) Result {
	l := e.eval(n.Kids[0], sc)
	r := e.eval(n.Kids[1], sc)
	switch n.Op {
	case "&&", "||":
		return logic(n.Op, l, r)
	}
	if l.Status == ErrOrVal {
		l = unspec("operand is either an error or a value")
	}
	if r.Status == ErrOrVal {
		r = unspec("operand is either an error or a value")
	}
	if l.Status == Err {
		return l
	}
	if r.Status == Err {
		return r
	}
	if l.Status != OK {
		return l
	}
	if r.Status != OK {
		return r
	}
	switch n.Op {
	case "==", "!=":
		if e.loose && (hasSeq(l.Val.Type()) || hasSeq(r.Val.Type())) {
			// the sequence kind (list or tuple) of a splat result is not specified,
			// and equality is type-sensitive
			return unspec("equality involving a sequence after a splat")
		}
		eq, res := valuesEqual(l.Val, r.Val)
		if res != nil {
			return *res
		}
		if n.Op == "!=" {
			eq = !eq
		}
		return ok(cty.BoolVal(eq))
	}
	a, bad := toType(l.Val, cty.Number, "left operand of "+n.Op)
	if bad != nil {
		return *bad
	}
	b, bad := toType(r.Val, cty.Number, "right operand of "+n.Op)
	if bad != nil {
		return *bad
	}
	x, y := a.AsBigFloat(), b.AsBigFloat()
	if x.IsInf() || y.IsInf() {
		return unspec("arithmetic on infinities")
	}
	switch n.Op {
	case "+":
		return ok(num(newF().Add(x, y)))
	case "-":
		return ok(num(newF().Sub(x, y)))
	case "*":
		return ok(num(newF().Mul(x, y)))
	case "/":
		if y.Sign() == 0 {
			return unspec("division by zero")
		}
		return ok(num(newF().Quo(x, y)))
	case "%":
		if y.Sign() == 0 {
			return unspec("modulo by zero")
		}
		if !x.IsInt() || !y.IsInt() {
			// the remainder of non-integers depends on the working precision of
			// the division, which the specification leaves open
			return unspec("modulo of non-integers")
		}
		// remainder of truncated division: x - y*trunc(x/y)
		q := newF().Quo(x, y)
		qi, _ := q.Int(nil)
		t := newF().SetInt(qi)
		t.Mul(y, t)
		return ok(num(newF().Sub(x, t)))
	case "<":
		return ok(cty.BoolVal(x.Cmp(y) < 0))
	case "<=":
		return ok(cty.BoolVal(x.Cmp(y) <= 0))
	case ">":
		return ok(cty.BoolVal(x.Cmp(y) > 0))
	case ">=":
		return ok(cty.BoolVal(x.Cmp(y) >= 0))
	}
	return unspec("operator %s", n.Op)
}

// logic implements && and ||. When one operand alone decides the result and
// the other is erroneous or null, either the decided value or an error is
// acceptable (the specification is silent on evaluation order).
func logic(op string, l, r Result) Result {
	decides := func(x Result) (bool, bool) { // (isBoolish, value)
		if x.Status != OK || x.Val.IsNull() {
			return false, false
		}
		cv, err := convert.Convert(x.Val, cty.Bool)
		if err != nil {
			return false, false
		}
		return true, cv.True()
	}
	lb, lv := decides(l)
	rb, rv := decides(r)
	deciding := op == "||" // value that decides the result
	if lb && rb {
		if op == "&&" {
			return ok(cty.BoolVal(lv && rv))
		}
		return ok(cty.BoolVal(lv || rv))
	}
	if l.Status == Unspecified {
		return l
	}
	if r.Status == Unspecified {
		return r
	}
	if l.Status == ErrOrVal || r.Status == ErrOrVal {
		return unspec("operand of %s is itself either-error-or-value", op)
	}
	// at least one operand is erroneous, null or not a bool
	if (lb && lv == deciding) || (rb && rv == deciding) {
		return Result{Status: ErrOrVal, Val: cty.BoolVal(deciding), Why: "one operand decides " + op + " while the other is erroneous/null"}
	}
	return errf("operand of %s is null, erroneous or not a bool", op)
}

// valuesEqual implements "equal if they are of identical types and their
// values are equal", delegating structural value equality to cty.
func valuesEqual(a, b cty.Value) (bool, *Result) {
	if a.IsNull() || b.IsNull() {
		if a.IsNull() && b.IsNull() {
			if a.Type().Equals(b.Type()) || a.Type() == cty.DynamicPseudoType || b.Type() == cty.DynamicPseudoType {
				return true, nil
			}
			r := unspec("equality of nulls of different types")
			return false, &r
		}
		return false, nil
	}
	if !a.Type().Equals(b.Type()) {
		if a.Type().HasDynamicTypes() || b.Type().HasDynamicTypes() {
			r := unspec("equality involving dynamically-typed parts")
			return false, &r
		}
		return false, nil
	}
	eq := a.Equals(b)
	if !eq.IsKnown() {
		r := unspec("equality is not decided by the value domain")
		return false, &r
	}
	return eq.True(), nil
}

// hasSeq reports whether a type contains a list or tuple type anywhere.
func hasSeq(ty cty.Type) bool {
	switch {
	case ty.IsListType() || ty.IsTupleType():
		return true
	case ty.IsCollectionType():
		return hasSeq(ty.ElementType())
	case ty.IsObjectType():
		for _, a := range ty.AttributeTypes() {
			if hasSeq(a) {
				return true
			}
		}
	}
	return false
}

func (e *Evaluator) cond(n *gen.Node, sc *Scope) Result {
	p := e.sub(n.Kids[0], sc)
	t := e.sub(n.Kids[1], sc)
	f := e.sub(n.Kids[2], sc)
	if p.Status != OK {
		return p
	}
	pv, bad := toType(p.Val, cty.Bool, "condition")
	if bad != nil {
		return *bad
	}
	sel, other := t, f
	if !pv.True() {
		sel, other = f, t
	}
	if sel.Status != OK {
		return sel
	}
	if other.Status != OK {
		// errors of the unselected arm are not passed through; what type the
		// result is converted to in that case is not specified
		return unspec("unselected arm of a conditional is erroneous or unspecified")
	}
	st, ot := sel.Val.Type(), other.Val.Type()
	if e.loose && (hasSeq(st) || hasSeq(ot)) && !st.Equals(ot) {
		return unspec("unification involving a sequence after a splat")
	}
	untypedNull := func(v cty.Value) bool { return v.IsNull() && v.Type() == cty.DynamicPseudoType }
	switch {
	case untypedNull(sel.Val) && untypedNull(other.Val):
		return ok(sel.Val)
	case untypedNull(sel.Val):
		return ok(cty.NullVal(ot))
	case untypedNull(other.Val):
		return ok(sel.Val)
	}
	if e.loose && (hasSeq(st) || hasSeq(ot)) {
		return unspec("unification involving a sequence after a splat")
	}
	if st.Equals(ot) {
		return ok(sel.Val)
	}
	uty, _ := convert.UnifyUnsafe([]cty.Type{st, ot})
	if uty == cty.NilType {
		return errf("conditional arms have inconsistent types %s and %s", st.FriendlyName(), ot.FriendlyName())
	}
	cv, err := convert.Convert(sel.Val, uty)
	if err != nil {
		return errf("selected arm cannot convert to the unified type: %v", err)
	}
	if uty.HasDynamicTypes() {
		return unspec("conditional arms unify to a type with dynamic parts")
	}
	return ok(cv)
}

// ---------------------------------------------------------------- calls

func (e *Evaluator) call(n *gen.Node, sc *Scope) Result {
	fs, found := e.Funcs[n.Name]
	if !found {
		return errf("unknown function %s", n.Name)
	}
	var args []cty.Value
	var pending *Result
	for i, k := range n.Kids {
		r := e.sub(k, sc)
		if r.Status == Err {
			return r
		}
		if r.Status != OK {
			if pending == nil {
				pending = &r
			}
			continue
		}
		if n.Expand && i == len(n.Kids)-1 {
			v := r.Val
			ty := v.Type()
			switch {
			case ty.IsListType() || ty.IsTupleType():
			case ty.IsSetType():
				return unspec("expansion of a set argument")
			case ty == cty.DynamicPseudoType && v.IsNull():
				return errf("expansion of null")
			default:
				return errf("expansion argument is %s", ty.FriendlyName())
			}
			if v.IsNull() {
				return errf("expansion of null")
			}
			for it := v.ElementIterator(); it.Next(); {
				_, ev := it.Element()
				args = append(args, ev)
			}
			continue
		}
		args = append(args, r.Val)
	}
	if pending != nil {
		return *pending
	}
	if len(args) < len(fs.Params) {
		return errf("too few arguments for %s", n.Name)
	}
	if len(args) > len(fs.Params) && fs.Var == nil {
		return errf("too many arguments for %s", n.Name)
	}
	conv := make([]cty.Value, len(args))
	for i, a := range args {
		p := fs.Var
		if i < len(fs.Params) {
			p = &fs.Params[i]
		}
		cv := a
		if p.Type != cty.DynamicPseudoType {
			var err error
			cv, err = convert.Convert(a, p.Type)
			if err != nil {
				return errf("argument %d of %s: %v", i, n.Name, err)
			}
		}
		if cv.IsNull() && !p.AllowNull {
			return errf("argument %d of %s must not be null", i, n.Name)
		}
		conv[i] = cv
	}
	out, err := fs.Impl(conv)
	if err != nil {
		return errf("function %s failed: %v", n.Name, err)
	}
	return ok(out)
}

// ---------------------------------------------------------------- for

type kv struct{ k, v cty.Value }

// iterate lists the (key, value) pairs of an iterable in the order the
// specification prescribes.
func iterate(coll cty.Value) ([]kv, *Result) {
	if coll.IsNull() {
		r := errf("iteration over null")
		return nil, &r
	}
	ty := coll.Type()
	var out []kv
	switch {
	case ty.IsListType() || ty.IsTupleType():
		i := 0
		for it := coll.ElementIterator(); it.Next(); i++ {
			_, ev := it.Element()
			out = append(out, kv{cty.NumberIntVal(int64(i)), ev})
		}
	case ty.IsMapType() || ty.IsObjectType():
		m := coll.AsValueMap()
		keys := make([]string, 0, len(m))
		for k := range m {
			keys = append(keys, k)
		}
		sort.Strings(keys)
		for _, k := range keys {
			out = append(out, kv{cty.StringVal(k), m[k]})
		}
	case ty.IsSetType():
		if coll.LengthInt() > 1 {
			r := unspec("iteration order of a set")
			return nil, &r
		}
		for it := coll.ElementIterator(); it.Next(); {
			_, ev := it.Element()
			out = append(out, kv{ev, ev})
		}
	default:
		r := errf("iteration over %s", ty.FriendlyName())
		return nil, &r
	}
	return out, nil
}

func (e *Evaluator) forExpr(n *gen.Node, sc *Scope) Result {
	c := e.sub(n.Coll, sc)
	if c.Status != OK {
		return c
	}
	pairs, bad := iterate(c.Val)
	if bad != nil {
		return *bad
	}
	if len(pairs) == 0 {
		// The body is never evaluated. An implementation may still type-check it
		// (and report an ill-typed body) or return the empty result: either is
		// consistent with the per-element evaluation the specification describes.
		empty := cty.EmptyTupleVal
		if n.Kind == gen.KForObject {
			empty = cty.EmptyObjectVal
		}
		return Result{Status: ErrOrVal, Val: empty, Why: "for expression over an empty collection"}
	}
	var tupleOut []cty.Value
	objOut := map[string]cty.Value{}
	groups := map[string][]cty.Value{}
	var groupOrder []string
	var pending *Result
	note := func(r Result) bool { // returns true when evaluation must stop with r
		if r.Status == Err {
			return true
		}
		if pending == nil {
			pending = &r
		}
		return false
	}
	for _, p := range pairs {
		vars := map[string]cty.Value{n.ValVar: p.v}
		if n.KeyVar != "" {
			vars[n.KeyVar] = p.k
		}
		child := sc.child(vars)
		if n.Cond != nil {
			cr := e.sub(n.Cond, child)
			if cr.Status != OK {
				if note(cr) {
					return cr
				}
				continue
			}
			cv, badc := toType(cr.Val, cty.Bool, "for condition")
			if badc != nil {
				return *badc
			}
			if !cv.True() {
				continue
			}
		}
		if n.Kind == gen.KForTuple {
			vr := e.sub(n.ValE, child)
			if vr.Status != OK {
				if note(vr) {
					return vr
				}
				continue
			}
			tupleOut = append(tupleOut, vr.Val)
			continue
		}
		kr := e.sub(n.KeyE, child)
		if kr.Status != OK {
			if note(kr) {
				return kr
			}
			continue
		}
		ks, badk := toType(kr.Val, cty.String, "for key")
		if badk != nil {
			return *badk
		}
		vr := e.sub(n.ValE, child)
		if vr.Status != OK {
			if note(vr) {
				return vr
			}
			continue
		}
		key := ks.AsString()
		if n.Group {
			if _, seen := groups[key]; !seen {
				groupOrder = append(groupOrder, key)
			}
			groups[key] = append(groups[key], vr.Val)
		} else {
			if _, dup := objOut[key]; dup {
				return errf("duplicate key %q in object for expression", key)
			}
			objOut[key] = vr.Val
		}
	}
	if pending != nil {
		return *pending
	}
	if n.Kind == gen.KForTuple {
		if len(tupleOut) == 0 {
			return ok(cty.EmptyTupleVal)
		}
		return ok(cty.TupleVal(tupleOut))
	}
	if n.Group {
		for _, k := range groupOrder {
			objOut[k] = cty.TupleVal(groups[k])
		}
	}
	if len(objOut) == 0 {
		return ok(cty.EmptyObjectVal)
	}
	return ok(cty.ObjectVal(objOut))
}

// ---------------------------------------------------------------- templates

// flat template item after strip processing
type titem struct {
	lit    string
	isLit  bool
	part   *gen.TPart
	marker int // which marker of the part: 0 open, 1 else, 2 end (directives)
}

func isSpace(r rune) bool { return unicode.IsSpace(r) }

// stripParts applies the strip markers to the adjacent literals, at syntax level.
func stripParts(ps []gen.TPart) []gen.TPart {
	// flatten to a sequence of literals and markers with (stripLeft, stripRight)
	type ent struct {
		lit            *string
		stripL, stripR bool
	}
	var seq []ent
	out := cloneParts(ps)
	var walk func(ps []gen.TPart)
	walk = func(ps []gen.TPart) {
		for i := range ps {
			p := &ps[i]
			switch p.Kind {
			case gen.TLit:
				seq = append(seq, ent{lit: &p.Lit})
			case gen.TInterp:
				seq = append(seq, ent{stripL: p.Strip[0], stripR: p.Strip[1]})
			case gen.TIf:
				seq = append(seq, ent{stripL: p.Strip[0], stripR: p.Strip[1]})
				walk(p.Then)
				if p.HasElse {
					seq = append(seq, ent{stripL: p.Strip[2], stripR: p.Strip[3]})
					walk(p.Else)
				}
				seq = append(seq, ent{stripL: p.Strip[4], stripR: p.Strip[5]})
			case gen.TFor:
				seq = append(seq, ent{stripL: p.Strip[0], stripR: p.Strip[1]})
				walk(p.Then)
				seq = append(seq, ent{stripL: p.Strip[4], stripR: p.Strip[5]})
			}
		}
	}
	walk(out)
	for i, en := range seq {
		if en.lit != nil {
			continue
		}
		if en.stripL && i > 0 && seq[i-1].lit != nil {
			*seq[i-1].lit = strings.TrimRightFunc(*seq[i-1].lit, isSpace)
		}
		if en.stripR && i+1 < len(seq) && seq[i+1].lit != nil {
			*seq[i+1].lit = strings.TrimLeftFunc(*seq[i+1].lit, isSpace)
		}
	}
	return out
}

func cloneParts(ps []gen.TPart) []gen.TPart {
	out := make([]gen.TPart, len(ps))
	copy(out, ps)
	for i := range out {
		out[i].Then = cloneParts(ps[i].Then)
		out[i].Else = cloneParts(ps[i].Else)
	}
	return out
}

func (e *Evaluator) template(n *gen.Node, sc *Scope) Result {
	// interpolation unwrapping: a template that consists only of a single interpolation
	if len(n.Parts) == 1 && n.Parts[0].Kind == gen.TInterp {
		return e.sub(n.Parts[0].Expr, sc)
	}
	parts := stripParts(n.Parts)
	// literals that exist in the source but are stripped to nothing next to a
	// lone interpolation: whether unwrapping applies is not decided by the text
	// of the specification
	interps, others, emptyLits := 0, 0, 0
	for _, p := range parts {
		switch {
		case p.Kind == gen.TInterp:
			interps++
		case p.Kind == gen.TLit && p.Lit == "":
			emptyLits++
		default:
			others++
		}
	}
	if interps == 1 && others == 0 && emptyLits > 0 {
		return unspec("single interpolation whose surrounding literals are stripped to nothing")
	}
	var sb strings.Builder
	r := e.renderParts(parts, sc, &sb)
	if r != nil {
		return *r
	}
	return ok(cty.StringVal(sb.String()))
}

func (e *Evaluator) renderParts(ps []gen.TPart, sc *Scope, sb *strings.Builder) *Result {
	var pending *Result
	for i := range ps {
		p := &ps[i]
		switch p.Kind {
		case gen.TLit:
			sb.WriteString(p.Lit)
		case gen.TInterp:
			r := e.sub(p.Expr, sc)
			if r.Status != OK {
				if r.Status == Err {
					return &r
				}
				if pending == nil {
					pending = &r
				}
				continue
			}
			sv, bad := toType(r.Val, cty.String, "template interpolation")
			if bad != nil {
				return bad
			}
			sb.WriteString(sv.AsString())
		case gen.TIf:
			r := e.sub(p.Expr, sc)
			if r.Status != OK {
				if r.Status == Err {
					return &r
				}
				if pending == nil {
					pending = &r
				}
				continue
			}
			cv, bad := toType(r.Val, cty.Bool, "template if condition")
			if bad != nil {
				return bad
			}
			// "equivalent to the conditional expression": both sub-templates are
			// evaluated; an error in the unselected one is not passed through
			var tb, fb strings.Builder
			tr := e.renderParts(p.Then, sc, &tb)
			var fr *Result
			if p.HasElse {
				fr = e.renderParts(p.Else, sc, &fb)
			}
			selR, selS := tr, tb.String()
			if !cv.True() {
				selR, selS = fr, fb.String()
			}
			if selR != nil {
				if selR.Status == Err {
					return selR
				}
				if pending == nil {
					pending = selR
				}
				continue
			}
			sb.WriteString(selS)
		case gen.TFor:
			r := e.sub(p.Expr, sc)
			if r.Status != OK {
				if r.Status == Err {
					return &r
				}
				if pending == nil {
					pending = &r
				}
				continue
			}
			pairs, bad := iterate(r.Val)
			if bad != nil {
				if bad.Status == Err {
					return bad
				}
				if pending == nil {
					pending = bad
				}
				continue
			}
			for _, pr := range pairs {
				vars := map[string]cty.Value{p.ValVar: pr.v}
				if p.KeyVar != "" {
					vars[p.KeyVar] = pr.k
				}
				if br := e.renderParts(p.Then, sc.child(vars), sb); br != nil {
					if br.Status == Err {
						return br
					}
					if pending == nil {
						pending = br
					}
				}
			}
		}
	}
	return pending
}
