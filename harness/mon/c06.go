package mon

import (
	"fmt"
	"math/rand"
	"strings"

	"github.com/hashicorp/hcl/v2"
	"github.com/hashicorp/hcl/v2/hclsyntax"
	hcljson "github.com/hashicorp/hcl/v2/json"
	"github.com/zclconf/go-cty/cty"

	"verifharness/core"
	"verifharness/gen"
)

func init() {
	Register(&Spec{
		ID:        "C06",
		Technique: "runtime monitoring: two-run non-interference (hyperproperty) monitor — the same program evaluated in two scopes that differ only in the content of one marked variable",
		Rule: "each case is a generated expression (native; or wrapped into JSON-syntax strings/object keys; or a body decoded with hcldec incl. dynamic blocks) over a scope of known values, one variable the program uses, a mark placement (whole value, or one nested element/attribute) and a second content of the same type for the marked part; both runs are evaluated; if both are error-free and the unmarked results differ, each result must carry the mark somewhere; " +
			"non-trivial = both runs error-free and the results differed (the marked input demonstrably influenced the output); distinct by program + scope hash",
		Assumptions: []string{"cty mark propagation inside cty operations and function calls is trusted (the property is about hcl's own operators and evaluators)", "no harness function strips marks"},
		Quick:       Plan{Batches: 16, PerBatch: 6000, MinNonTrivial: 12000},
		Thorough:    Plan{Batches: 64, PerBatch: 120000, MinNonTrivial: 150000},
		Case:        c06Case,
	})
}

const secretMark = "M"

// markAt returns v with the part at path replaced by repl (or kept when repl
// is NilVal) and marked. path steps are int (list/tuple index) or string
// (map key / object attribute).
func markAt(v cty.Value, path []any, repl cty.Value) cty.Value {
	if len(path) == 0 {
		if repl != cty.NilVal {
			return repl.Mark(secretMark)
		}
		return v.Mark(secretMark)
	}
	ty := v.Type()
	switch {
	case ty.IsListType() || ty.IsTupleType():
		idx := path[0].(int)
		var elems []cty.Value
		i := 0
		for it := v.ElementIterator(); it.Next(); i++ {
			_, ev := it.Element()
			if i == idx {
				ev = markAt(ev, path[1:], repl)
			}
			elems = append(elems, ev)
		}
		if ty.IsListType() {
			return cty.ListVal(elems)
		}
		return cty.TupleVal(elems)
	case ty.IsMapType() || ty.IsObjectType():
		key := path[0].(string)
		m := map[string]cty.Value{}
		for it := v.ElementIterator(); it.Next(); {
			kv, ev := it.Element()
			k := kv.AsString()
			if k == key {
				ev = markAt(ev, path[1:], repl)
			}
			m[k] = ev
		}
		if ty.IsMapType() {
			return cty.MapVal(m)
		}
		return cty.ObjectVal(m)
	}
	if repl != cty.NilVal {
		return repl.Mark(secretMark)
	}
	return v.Mark(secretMark)
}

// pickPathIn chooses a random path (possibly empty) to a sub-value of v.
func pickPathIn(r *rand.Rand, v cty.Value, depth int) ([]any, cty.Value) {
	if depth <= 0 || v.IsNull() || !v.IsKnown() || gen.Chance(r, 0.45) {
		return nil, v
	}
	ty := v.Type()
	switch {
	case (ty.IsListType() || ty.IsTupleType()) && v.LengthInt() > 0:
		i := r.Intn(v.LengthInt())
		sub := v.Index(cty.NumberIntVal(int64(i)))
		p, sv := pickPathIn(r, sub, depth-1)
		return append([]any{i}, p...), sv
	case (ty.IsMapType() || ty.IsObjectType()) && v.LengthInt() > 0:
		var keys []string
		for it := v.ElementIterator(); it.Next(); {
			kv, _ := it.Element()
			keys = append(keys, kv.AsString())
		}
		k := gen.Pick(r, keys)
		var sub cty.Value
		if ty.IsMapType() {
			sub = v.Index(cty.StringVal(k))
		} else {
			sub = v.GetAttr(k)
		}
		p, sv := pickPathIn(r, sub, depth-1)
		return append([]any{k}, p...), sv
	}
	return nil, v
}

func hasMark(v cty.Value) bool {
	if v == cty.NilVal {
		return false
	}
	_, pvm := v.UnmarkDeepWithPaths()
	for _, pm := range pvm {
		if _, ok := pm.Marks[secretMark]; ok {
			return true
		}
	}
	return false
}

func unmarked(v cty.Value) cty.Value {
	u, _ := v.UnmarkDeep()
	return u
}

type c06Prog struct {
	src   string
	json  bool
	eval  func(ctx *hcl.EvalContext) (cty.Value, hcl.Diagnostics)
	roots []string
}

func c06Build(c *core.Case, sc *gen.Scope) (*c06Prog, *gen.Node) {
	r := c.Rng
	g := gen.NewG(r, sc, 0.05)
	g.StrLevel = 1
	e := g.Expr(gen.WAny, 1+r.Intn(4))
	gen.FixTemplates(e)
	gen.FixDollar(e)
	return c06Compile(c, e, gen.Chance(r, 0.2))
}

func c06Compile(c *core.Case, e *gen.Node, asJSON bool) (*c06Prog, *gen.Node) {
	r := c.Rng
	native := gen.RenderExpr(e, &gen.Layout{})
	if asJSON && !strings.Contains(native, "\n") {
		// JSON-syntax routes: the expression inside a string template, as an
		// array element, and as an object key
		form := r.Intn(4)
		var text string
		tpl := "${" + native + "}"
		q := gen.JSONQuote(nil, tpl)
		switch form {
		case 0:
			text = q
		case 1:
			text = "[" + q + ", 1]"
		case 2:
			text = "{" + q + ": 1}"
		default:
			text = "{\"k\": " + q + ", \"x" + strings.Trim(q, "\"") + "\": true}"
			text = "{\"k\": " + q + ", " + gen.JSONQuote(nil, "x"+tpl) + ": true}"
		}
		je, d := hcljson.ParseExpression([]byte(text), "p.json")
		if d.HasErrors() {
			return nil, e
		}
		p := &c06Prog{src: text, json: true, eval: je.Value}
		for _, t := range je.Variables() {
			p.roots = append(p.roots, t.RootName())
		}
		return p, e
	}
	he, d := hclsyntax.ParseExpression([]byte(native), "p.hcl", hcl.InitialPos)
	if d.HasErrors() {
		return nil, e
	}
	p := &c06Prog{src: native, eval: he.Value}
	for _, t := range he.Variables() {
		p.roots = append(p.roots, t.RootName())
	}
	return p, e
}

// c06Judge runs the two-run relation; returns a violation message or "".
func c06Judge(p *c06Prog, vars1, vars2 map[string]cty.Value) (msg string, differed bool, bothOK bool) {
	v1, d1 := p.eval(ctxWith(vars1))
	v2, d2 := p.eval(ctxWith(vars2))
	if d1.HasErrors() || d2.HasErrors() {
		return "", false, false
	}
	if unmarked(v1).RawEquals(unmarked(v2)) {
		return "", false, true
	}
	if !hasMark(v1) || !hasMark(v2) {
		return fmt.Sprintf("results differ but do not both carry the mark:\n run 1: %s\n run 2: %s", valStr(v1), valStr(v2)), true, true
	}
	return "", true, true
}

func c06Case(c *core.Case) {
	r := c.Rng
	if c.Batch == 0 && c.Index < len(c06Directed) {
		c06DirectedCase(c, c06Directed[c.Index])
		return
	}
	if c.Index%4 == 3 {
		c06BodyCase(c)
		return
	}
	sc := gen.NewScope(r, gen.ValOpts{StrLevel: 1})
	p, ast := c06Build(c, sc)
	if p == nil || len(p.roots) == 0 {
		c.Count("skipped:no-variable-used")
		return
	}
	m := gen.Pick(r, p.roots)
	orig, ok := sc.Vars[m]
	if !ok {
		c.Count("skipped:bound-name")
		return
	}
	path, sub := pickPathIn(r, orig, 2)
	other := gen.SameTypeOther(r, sub, gen.ValOpts{StrLevel: 1})
	if sub.IsNull() {
		// go-cty's convert drops the marks of a null element that enters a set
		// (convert.Convert(tuple("k2", null.Mark(M)), set(string)) is unmarked):
		// a dependency's behaviour, outside what this monitor decides about hcl.
		c.Count("skipped:marked-part-is-null(go-cty set conversion drops its marks)")
		return
	}
	vars1 := map[string]cty.Value{}
	vars2 := map[string]cty.Value{}
	for k, v := range sc.Vars {
		vars1[k], vars2[k] = v, v
	}
	vars1[m] = markAt(orig, path, cty.NilVal)
	vars2[m] = markAt(orig, path, other)
	if len(p.roots) > 1 && c.Tier == "pending" {
		// (not part of the registered tiers) another variable the program reads
		// is not known yet, in both runs. Exploring this found two defects that
		// were repaired (marks of object keys when a key is unknown; marks of
		// the operand of a unary operator) and further paths on which hcl
		// returns a bare unknown when an operand fails or a collection is not
		// known (short-circuit operators with a failing operand, for
		// expressions over an unknown collection); the directed list pins the
		// pending-operand behaviours that are decided, see DESIGN.md §11.
		q := gen.Pick(r, p.roots)
		if v, ok := sc.Vars[q]; ok && q != m {
			vars1[q], vars2[q] = cty.UnknownVal(v.Type()), cty.UnknownVal(v.Type())
			c.Count("scope:with-a-pending-variable")
		}
	}
	c.SetInput(fmt.Sprintf("%s\nMARKED: %s at %v\nRUN1 %s = %s\nRUN2 %s = %s\nSCOPE: %s", p.src, m, path, m, valStr(vars1[m]), m, valStr(vars2[m]), scopeStr(sc)))
	msg, differed, bothOK := c06Judge(p, vars1, vars2)
	c.Evals(2)
	if p.json {
		c.Count("route:json-expression")
	} else {
		c.Count("route:native-expression")
	}
	if len(path) == 0 {
		c.Count("mark:whole-value")
	} else {
		c.Count("mark:nested")
	}
	if !bothOK {
		c.Count("runs-with-errors")
		return
	}
	if msg != "" {
		// shrink on the AST: smallest sub-expression that still launders
		small := gen.Shrink(ast, func(n *gen.Node) bool {
			sp, _ := c06Compile(c, n, p.json)
			if sp == nil {
				return false
			}
			m2, _, _ := c06Judge(sp, vars1, vars2)
			return m2 != ""
		})
		route := "native"
		if p.json {
			route = "json"
		}
		if small.Kind == gen.KIndex && small.Kids[1].Uses(m) && !small.Kids[0].Uses(m) {
			// an object indexed with a marked key: behaviour pinned by the repository's
			// own test "marked object key" (see known_findings.json)
			if cp, _ := c06Compile(c, small.Kids[0], false); cp != nil {
				if cv, cd := cp.eval(ctxWith(vars1)); !cd.HasErrors() && unmarked(cv).Type().IsObjectType() {
					c.Violation("laundered/object-index-marked-key", fmt.Sprintf("program %s (minimal sub-expression: %s)\n%s", trunc(p.src, 400), gen.RenderExpr(small, &gen.Layout{}), msg), nil)
					return
				}
			}
		}
		if small.Kind != gen.KCond {
			// a conditional further down that launders on its own (the JSON
			// wrapping of sub-expressions can hide it from the shrinker)
			var found *gen.Node
			small.Walk(func(n *gen.Node) {
				if found != nil || n.Kind != gen.KCond || n == small {
					return
				}
				if sp, _ := c06Compile(c, n, false); sp != nil {
					if m2, _, _ := c06Judge(sp, vars1, vars2); m2 != "" {
						found = n
					}
				}
			})
			if found != nil {
				small = found
			}
		}
		if small.Kind == gen.KCond {
			// The selected arm alone gives the same value in both runs: the
			// difference comes only from unifying its type with the unselected
			// arm (or from that arm failing), see known_findings.json.
			if pp, _ := c06Compile(c, small.Kids[0], false); pp != nil {
				p1, e1 := pp.eval(ctxWith(vars1))
				p2, e2 := pp.eval(ctxWith(vars2))
				if !e1.HasErrors() && !e2.HasErrors() && p1.IsKnown() && p2.IsKnown() && !p1.IsNull() && !p2.IsNull() && unmarked(p1).RawEquals(unmarked(p2)) && unmarked(p1).Type() == cty.Bool {
					sel := small.Kids[2]
					if unmarked(p1).True() {
						sel = small.Kids[1]
					}
					if sp, _ := c06Compile(c, sel, false); sp != nil {
						s1, d1 := sp.eval(ctxWith(vars1))
						s2, d2 := sp.eval(ctxWith(vars2))
						if !d1.HasErrors() && !d2.HasErrors() && unmarked(s1).RawEquals(unmarked(s2)) {
							c.Violation("laundered/conditional-type-from-unselected-arm", fmt.Sprintf("program %s (minimal sub-expression: %s)\n%s", trunc(p.src, 400), gen.RenderExpr(small, &gen.Layout{}), msg), nil)
							return
						}
					}
				}
				// The predicate is not known in either run, so neither arm is selected;
				// an arm that fails in only one of the runs makes that run's result a
				// bare cty.DynamicVal (same root cause: the result depends on an arm
				// that is not the selected one).
				if !e1.HasErrors() && !e2.HasErrors() && !p1.IsKnown() && !p2.IsKnown() {
					for _, arm := range small.Kids[1:3] {
						if ap, _ := c06Compile(c, arm, false); ap != nil {
							_, a1 := ap.eval(ctxWith(vars1))
							_, a2 := ap.eval(ctxWith(vars2))
							if a1.HasErrors() != a2.HasErrors() {
								c.Violation("laundered/conditional-type-from-unselected-arm", fmt.Sprintf("program %s (minimal sub-expression: %s; pending predicate, one arm fails in one run only)\n%s", trunc(p.src, 400), gen.RenderExpr(small, &gen.Layout{}), msg), nil)
								return
							}
						}
					}
				}
			}
		}
		c.Violation("laundered/"+route+"/"+small.Shape(), fmt.Sprintf("program %s (minimal sub-expression: %s)\n%s", trunc(p.src, 400), gen.RenderExpr(small, &gen.Layout{}), msg), nil)
		return
	}
	if differed {
		c.Count("influence-observed-and-marked")
		c.NonTrivial(p.src + scopeStr(sc))
		for _, k := range ast.KindsUsed() {
			c.Count("influenced:" + k)
		}
	} else {
		c.Count("no-influence")
	}
	if c.WantSample() && differed {
		c.Sample(map[string]any{"program": trunc(p.src, 200), "marked_var": m, "path": fmt.Sprint(path)})
	}
}

func subTypeOrString(v cty.Value) cty.Type {
	if v.Type() == cty.DynamicPseudoType {
		return cty.String
	}
	return v.Type()
}

// ---------------------------------------------------------------- directed programs

type c06Dir struct {
	Name string
	Src  string
	JSON bool
	A, B cty.Value // two contents for variable k (marked whole)
	Vars map[string]cty.Value
	// Nest, when set, builds further variables around the (unmarked) content: a
	// marked collection nested inside an unmarked one
	Nest func(content cty.Value) map[string]cty.Value
}

var c06Directed = []c06Dir{
	{Name: "object-index-marked-key", Src: `obj[k]`, A: cty.StringVal("a"), B: cty.StringVal("b"), Vars: map[string]cty.Value{"obj": cty.ObjectVal(map[string]cty.Value{"a": cty.NumberIntVal(1), "b": cty.NumberIntVal(2)})}},
	{Name: "map-index-marked-key", Src: `mp[k]`, A: cty.StringVal("a"), B: cty.StringVal("b"), Vars: map[string]cty.Value{"mp": cty.MapVal(map[string]cty.Value{"a": cty.NumberIntVal(1), "b": cty.NumberIntVal(2)})}},
	{Name: "tuple-index-marked-key", Src: `tup[k]`, A: cty.NumberIntVal(0), B: cty.NumberIntVal(1), Vars: map[string]cty.Value{"tup": cty.TupleVal([]cty.Value{cty.StringVal("x"), cty.True})}},
	{Name: "list-index-marked-key", Src: `lst[k]`, A: cty.NumberIntVal(0), B: cty.NumberIntVal(1), Vars: map[string]cty.Value{"lst": cty.ListVal([]cty.Value{cty.StringVal("x"), cty.StringVal("y")})}},
	{Name: "json-object-key", Src: `{"${k}": 1}`, JSON: true, A: cty.StringVal("a"), B: cty.StringVal("b")},
	{Name: "json-string", Src: `"x${k}"`, JSON: true, A: cty.StringVal("a"), B: cty.StringVal("b")},
	{Name: "object-cons-key", Src: `{(k) = 1}`, A: cty.StringVal("a"), B: cty.StringVal("b")},
	{Name: "for-object-key", Src: `{for x in [k]: x => 1}`, A: cty.StringVal("a"), B: cty.StringVal("b")},
	{Name: "for-tuple-filter-empty", Src: `[for x in ["a", "b"]: x if x == k]`, A: cty.StringVal("a"), B: cty.StringVal("z")},
	{Name: "for-group", Src: `{for x in ["a", "b"]: (x == k ? "y" : "n") => x...}`, A: cty.StringVal("a"), B: cty.StringVal("z")},
	{Name: "splat-empty-list", Src: `k[*].id`, A: cty.ListValEmpty(cty.Object(map[string]cty.Type{"id": cty.Number})), B: cty.ListVal([]cty.Value{cty.ObjectVal(map[string]cty.Value{"id": cty.NumberIntVal(1)})})},
	{Name: "attr-splat-empty-list", Src: `k.*.id`, A: cty.ListValEmpty(cty.Object(map[string]cty.Type{"id": cty.Number})), B: cty.ListVal([]cty.Value{cty.ObjectVal(map[string]cty.Value{"id": cty.NumberIntVal(1)})})},
	{Name: "splat-null-scalar", Src: `k[*]`, A: cty.NullVal(cty.String), B: cty.StringVal("x")},
	{Name: "conditional-predicate", Src: `k ? 1 : 2`, A: cty.True, B: cty.False},
	{Name: "and-short-circuit", Src: `k && f`, A: cty.True, B: cty.False, Vars: map[string]cty.Value{"f": cty.True}},
	{Name: "or-short-circuit", Src: `k || f`, A: cty.True, B: cty.False, Vars: map[string]cty.Value{"f": cty.False}},
	{Name: "template-if", Src: `"%{ if k }a%{ else }b%{ endif }"`, A: cty.True, B: cty.False},
	{Name: "template-for", Src: `"%{ for x in k }${x}%{ endfor }"`, A: cty.ListVal([]cty.Value{cty.StringVal("a")}), B: cty.ListValEmpty(cty.String)},
	{Name: "call-expansion", Src: `join("-", k...)`, A: cty.ListVal([]cty.Value{cty.StringVal("a")}), B: cty.ListVal([]cty.Value{cty.StringVal("b")})},
	{Name: "equality", Src: `k == "a"`, A: cty.StringVal("a"), B: cty.StringVal("b")},
	{Name: "length-of-filter", Src: `len([for x in lst: x if x != k])`, A: cty.StringVal("x"), B: cty.StringVal("q"), Vars: map[string]cty.Value{"lst": cty.ListVal([]cty.Value{cty.StringVal("x"), cty.StringVal("y")})}},
	{Name: "legacy-index", Src: `k.0`, A: cty.ListVal([]cty.Value{cty.StringVal("a")}), B: cty.ListVal([]cty.Value{cty.StringVal("b")})},
	{Name: "cond-unselected-arm-error", Src: `true ? 396 : k["1"]`, A: cty.MapVal(map[string]cty.Value{"1": cty.StringVal("x")}), B: cty.MapVal(map[string]cty.Value{"2": cty.StringVal("x")})},
	{Name: "cond-unselected-arm-type", Src: `true ? [] : [k]`, A: cty.StringVal("a"), B: cty.NumberIntVal(1)},
	{Name: "call-expansion-empty", Src: `tup(k...)`, A: cty.ListVal([]cty.Value{cty.StringVal("a")}), B: cty.ListValEmpty(cty.String)},
	{Name: "object-for-cond", Src: `{for x in ["a"]: x => x if k}`, A: cty.True, B: cty.False},
	// an operand that is not yet known beside the marked one: the result is
	// unknown in one run and decided by the marked operand in the other
	{Name: "or-pending-left", Src: `pend || k`, A: cty.False, B: cty.True, Vars: map[string]cty.Value{"pend": cty.UnknownVal(cty.Bool)}},
	{Name: "or-pending-right", Src: `k || pend`, A: cty.False, B: cty.True, Vars: map[string]cty.Value{"pend": cty.UnknownVal(cty.Bool)}},
	{Name: "and-pending-left", Src: `pend && k`, A: cty.True, B: cty.False, Vars: map[string]cty.Value{"pend": cty.UnknownVal(cty.Bool)}},
	{Name: "and-pending-right", Src: `k && pend`, A: cty.True, B: cty.False, Vars: map[string]cty.Value{"pend": cty.UnknownVal(cty.Bool)}},
	{Name: "cond-pending-arms", Src: `k ? pend : "x"`, A: cty.True, B: cty.False, Vars: map[string]cty.Value{"pend": cty.UnknownVal(cty.String)}},
	{Name: "template-pending", Src: `"${pend}${k}"`, A: cty.StringVal("a"), B: cty.StringVal("b"), Vars: map[string]cty.Value{"pend": cty.UnknownVal(cty.String)}},
	{Name: "for-pending-filter", Src: `[for x in [pend, "q"]: x if x != k]`, A: cty.StringVal("q"), B: cty.StringVal("z"), Vars: map[string]cty.Value{"pend": cty.UnknownVal(cty.String)}},
	// the marked variable itself is not known yet in one of the two runs
	{Name: "list-index-pending-marked-key", Src: `lst[k]`, A: cty.UnknownVal(cty.Number), B: cty.NumberIntVal(1), Vars: map[string]cty.Value{"lst": cty.ListVal([]cty.Value{cty.StringVal("x"), cty.StringVal("y")})}},
	{Name: "tuple-index-pending-marked-key", Src: `tup[k]`, A: cty.UnknownVal(cty.Number), B: cty.NumberIntVal(1), Vars: map[string]cty.Value{"tup": cty.TupleVal([]cty.Value{cty.StringVal("x"), cty.True})}},
	{Name: "map-index-pending-marked-key", Src: `mp[k]`, A: cty.UnknownVal(cty.String), B: cty.StringVal("a"), Vars: map[string]cty.Value{"mp": cty.MapVal(map[string]cty.Value{"a": cty.NumberIntVal(1), "b": cty.NumberIntVal(2)})}},
	{Name: "list-index-pending-marked-dynamic-key", Src: `lst[k]`, A: cty.DynamicVal, B: cty.NumberIntVal(1), Vars: map[string]cty.Value{"lst": cty.ListVal([]cty.Value{cty.StringVal("x"), cty.StringVal("y")})}},
	{Name: "call-expansion-pending", Src: `join("-", k...)`, A: cty.UnknownVal(cty.List(cty.String)), B: cty.ListVal([]cty.Value{cty.StringVal("b")})},
	{Name: "template-for-pending-collection", Src: `"%{ for x in k }${x}%{ endfor }"`, A: cty.UnknownVal(cty.List(cty.String)), B: cty.ListVal([]cty.Value{cty.StringVal("a")})},
	{Name: "template-for-pending-dynamic-collection", Src: `"%{ for x in k }${x}%{ endfor }"`, A: cty.DynamicVal, B: cty.ListVal([]cty.Value{cty.StringVal("a")})},
	{Name: "template-for-pending-element", Src: `"%{ for x in [k, "z"] }${x}%{ endfor }"`, A: cty.UnknownVal(cty.String), B: cty.StringVal("q")},
	{Name: "template-for-pending-dynamic-element", Src: `"%{ for x in [k, "z"] }${x}%{ endfor }"`, A: cty.DynamicVal, B: cty.StringVal("q")},
	{Name: "template-if-pending", Src: `"%{ if k }a%{ else }b%{ endif }"`, A: cty.UnknownVal(cty.Bool), B: cty.False},
	{Name: "splat-pending-list", Src: `k[*]`, A: cty.UnknownVal(cty.List(cty.String)), B: cty.ListVal([]cty.Value{cty.StringVal("a")})},
	{Name: "for-pending-collection", Src: `[for x in k: x]`, A: cty.UnknownVal(cty.List(cty.String)), B: cty.ListVal([]cty.Value{cty.StringVal("a")})},
	{Name: "attr-of-pending-object", Src: `k.a`, A: cty.UnknownVal(cty.Object(map[string]cty.Type{"a": cty.String})), B: cty.ObjectVal(map[string]cty.Value{"a": cty.StringVal("y")})},
	{Name: "binary-pending-operand", Src: `k + 1`, A: cty.UnknownVal(cty.Number), B: cty.NumberIntVal(2)},
	{Name: "unary-pending-operand", Src: `-k`, A: cty.UnknownVal(cty.Number), B: cty.NumberIntVal(2)},
	{Name: "template-pending-part", Src: `"a${k}"`, A: cty.UnknownVal(cty.String), B: cty.StringVal("q")},
	{Name: "call-pending-argument", Src: `upper(k)`, A: cty.UnknownVal(cty.String), B: cty.StringVal("q")},
	{Name: "object-cons-pending-key", Src: `{(k) = 1}`, A: cty.UnknownVal(cty.String), B: cty.StringVal("q")},
	{Name: "for-object-pending-key", Src: `{for x in [k]: x => 1}`, A: cty.UnknownVal(cty.String), B: cty.StringVal("q")},
	{Name: "cond-pending-marked-predicate", Src: `k ? 1 : 2`, A: cty.UnknownVal(cty.Bool), B: cty.False},
	{Name: "cond-pending-predicate-equal-arms", Src: `pend ? k : "a"`, A: cty.StringVal("a"), B: cty.StringVal("b"), Vars: map[string]cty.Value{"pend": cty.UnknownVal(cty.Bool)}},
	{Name: "cond-pending-predicate-equal-arms-flipped", Src: `pend ? "a" : k`, A: cty.StringVal("a"), B: cty.StringVal("b"), Vars: map[string]cty.Value{"pend": cty.UnknownVal(cty.Bool)}},
	{Name: "cond-pending-predicate-equal-bool-arms", Src: `pend ? k : true`, A: cty.True, B: cty.False, Vars: map[string]cty.Value{"pend": cty.UnknownVal(cty.Bool)}},
	{Name: "cond-pending-predicate-equal-object-arms", Src: `pend ? {a = k} : {a = "a"}`, A: cty.StringVal("a"), B: cty.StringVal("b"), Vars: map[string]cty.Value{"pend": cty.UnknownVal(cty.Bool)}},
	{Name: "cond-pending-predicate-equal-tuple-arms", Src: `pend ? [k] : ["a"]`, A: cty.StringVal("a"), B: cty.StringVal("b"), Vars: map[string]cty.Value{"pend": cty.UnknownVal(cty.Bool)}},
	{Name: "cond-pending-predicate-equal-number-arms", Src: `pend ? k : 1`, A: cty.NumberIntVal(1), B: cty.NumberIntVal(2), Vars: map[string]cty.Value{"pend": cty.UnknownVal(cty.Bool)}},
	{Name: "cond-pending-predicate-equal-list-arms", Src: `pend ? k : lst`, A: cty.ListVal([]cty.Value{cty.StringVal("x")}), B: cty.ListVal([]cty.Value{cty.StringVal("x"), cty.StringVal("y")}), Vars: map[string]cty.Value{"pend": cty.UnknownVal(cty.Bool), "lst": cty.ListVal([]cty.Value{cty.StringVal("x")})}},
	{Name: "splat-pending-scalar", Src: `k[*]`, A: cty.UnknownVal(cty.String), B: cty.StringVal("x")},
	{Name: "attr-splat-pending-scalar", Src: `k.*`, A: cty.UnknownVal(cty.String), B: cty.StringVal("x")},
	{Name: "splat-pending-object", Src: `k[*].name`, A: cty.UnknownVal(cty.Object(map[string]cty.Type{"name": cty.String})), B: cty.ObjectVal(map[string]cty.Value{"name": cty.StringVal("x")})},
	{Name: "splat-pending-map", Src: `k[*]`, A: cty.UnknownVal(cty.Map(cty.String)), B: cty.MapVal(map[string]cty.Value{"name": cty.StringVal("x")})},
	{Name: "splat-pending-dynamic", Src: `k[*]`, A: cty.DynamicVal, B: cty.StringVal("x")},
	{Name: "splat-pending-set", Src: `k[*]`, A: cty.UnknownVal(cty.Set(cty.String)), B: cty.SetVal([]cty.Value{cty.StringVal("x")})},
	{Name: "splat-pending-tuple-element", Src: `[k, "z"][*]`, A: cty.UnknownVal(cty.String), B: cty.StringVal("x")},
	// a marked key of another type than the collection's key type (it is converted first)
	{Name: "list-index-marked-string-key", Src: `lst[k]`, A: cty.StringVal("0"), B: cty.StringVal("1"), Vars: map[string]cty.Value{"lst": cty.ListVal([]cty.Value{cty.StringVal("x"), cty.StringVal("y")})}},
	{Name: "tuple-index-marked-string-key", Src: `tup[k]`, A: cty.StringVal("0"), B: cty.StringVal("1"), Vars: map[string]cty.Value{"tup": cty.TupleVal([]cty.Value{cty.StringVal("x"), cty.True})}},
	{Name: "map-index-marked-number-key", Src: `mp[k]`, A: cty.NumberIntVal(1), B: cty.NumberIntVal(2), Vars: map[string]cty.Value{"mp": cty.MapVal(map[string]cty.Value{"1": cty.StringVal("x"), "2": cty.StringVal("y")})}},
	{Name: "map-index-marked-bool-key", Src: `mp[k]`, A: cty.True, B: cty.False, Vars: map[string]cty.Value{"mp": cty.MapVal(map[string]cty.Value{"true": cty.StringVal("x"), "false": cty.StringVal("y")})}},
	{Name: "index-in-template", Src: `"v=${lst[k]}"`, A: cty.StringVal("0"), B: cty.StringVal("1"), Vars: map[string]cty.Value{"lst": cty.ListVal([]cty.Value{cty.StringVal("x"), cty.StringVal("y")})}},
	// every way of reaching into a collection that is marked as a whole
	{Name: "map-attr-access", Src: `k.a`, A: cty.MapVal(map[string]cty.Value{"a": cty.StringVal("x")}), B: cty.MapVal(map[string]cty.Value{"a": cty.StringVal("y")})},
	{Name: "map-attr-access-in-parens", Src: `(k).a`, A: cty.MapVal(map[string]cty.Value{"a": cty.StringVal("x")}), B: cty.MapVal(map[string]cty.Value{"a": cty.StringVal("y")})},
	{Name: "object-attr-access", Src: `k.a`, A: cty.ObjectVal(map[string]cty.Value{"a": cty.StringVal("x")}), B: cty.ObjectVal(map[string]cty.Value{"a": cty.StringVal("y")})},
	{Name: "map-index-access", Src: `k["a"]`, A: cty.MapVal(map[string]cty.Value{"a": cty.StringVal("x")}), B: cty.MapVal(map[string]cty.Value{"a": cty.StringVal("y")})},
	{Name: "nested-marked-map-attr-access", Src: `objs[0].a`, A: cty.StringVal("x"), B: cty.StringVal("y"), Nest: func(v cty.Value) map[string]cty.Value {
		return map[string]cty.Value{"objs": cty.TupleVal([]cty.Value{cty.MapVal(map[string]cty.Value{"a": v}).Mark(secretMark)})}
	}},
	{Name: "map-attr-splat", Src: `ms.*.a`, A: cty.StringVal("x"), B: cty.StringVal("y"), Nest: func(v cty.Value) map[string]cty.Value {
		return map[string]cty.Value{"ms": cty.TupleVal([]cty.Value{cty.MapVal(map[string]cty.Value{"a": v}).Mark(secretMark)})}
	}},
	{Name: "map-attr-in-for", Src: `[for m in ms: m.a]`, A: cty.StringVal("x"), B: cty.StringVal("y"), Nest: func(v cty.Value) map[string]cty.Value {
		return map[string]cty.Value{"ms": cty.ListVal([]cty.Value{cty.MapVal(map[string]cty.Value{"a": v}).Mark(secretMark)})}
	}},
	{Name: "map-attr-in-template", Src: `"v=${k.a}"`, A: cty.MapVal(map[string]cty.Value{"a": cty.StringVal("x")}), B: cty.MapVal(map[string]cty.Value{"a": cty.StringVal("y")})},
	{Name: "list-legacy-index", Src: `k.0`, A: cty.ListVal([]cty.Value{cty.StringVal("x")}), B: cty.ListVal([]cty.Value{cty.StringVal("y")})},
	{Name: "tuple-index-access", Src: `k[0]`, A: cty.TupleVal([]cty.Value{cty.StringVal("x")}), B: cty.TupleVal([]cty.Value{cty.StringVal("y")})},
	{Name: "set-splat", Src: `k[*]`, A: cty.SetVal([]cty.Value{cty.StringVal("x")}), B: cty.SetVal([]cty.Value{cty.StringVal("y")})},
	{Name: "splat-index-marked-string-key", Src: `deep[*].tags[k]`, A: cty.StringVal("0"), B: cty.StringVal("1"), Vars: map[string]cty.Value{"deep": cty.ListVal([]cty.Value{cty.ObjectVal(map[string]cty.Value{"tags": cty.ListVal([]cty.Value{cty.StringVal("x"), cty.StringVal("y")})})})}},
}

func c06DirectedCase(c *core.Case, d c06Dir) {
	var eval func(ctx *hcl.EvalContext) (cty.Value, hcl.Diagnostics)
	if d.JSON {
		je, diags := hcljson.ParseExpression([]byte(d.Src), "d.json")
		if diags.HasErrors() {
			panic("directed JSON program does not parse: " + d.Src)
		}
		eval = je.Value
	} else {
		he, diags := hclsyntax.ParseExpression([]byte(d.Src), "d.hcl", hcl.InitialPos)
		if diags.HasErrors() {
			panic("directed program does not parse: " + d.Src)
		}
		eval = he.Value
	}
	p := &c06Prog{src: d.Src, json: d.JSON, eval: eval}
	v1 := map[string]cty.Value{"k": d.A.Mark(secretMark)}
	v2 := map[string]cty.Value{"k": d.B.Mark(secretMark)}
	for k, v := range d.Vars {
		v1[k], v2[k] = v, v
	}
	if d.Nest != nil {
		for k, v := range d.Nest(d.A) {
			v1[k] = v
		}
		for k, v := range d.Nest(d.B) {
			v2[k] = v
		}
	}
	c.SetInput(fmt.Sprintf("%s with k=%s / k=%s (marked)", d.Src, valStr(d.A), valStr(d.B)))
	msg, differed, bothOK := c06Judge(p, v1, v2)
	c.Evals(2)
	c.Count("directed-programs")
	if msg != "" {
		if d.Name == "object-index-marked-key" {
			c.Violation("laundered/object-index-marked-key", fmt.Sprintf("program %s: %s", d.Src, msg), nil)
			return
		}
		if d.Name == "cond-unselected-arm-error" || d.Name == "cond-unselected-arm-type" {
			c.Violation("laundered/conditional-type-from-unselected-arm", fmt.Sprintf("program %s: %s", d.Src, msg), nil)
			return
		}
		c.Violation("laundered/directed/"+d.Name, fmt.Sprintf("program %s: %s", d.Src, msg), nil)
		return
	}
	if bothOK && differed {
		c.NonTrivial("directed:" + d.Name)
		c.Count("influence-observed-and-marked")
	}
}
