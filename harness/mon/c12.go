package mon

import (
	"fmt"
	"sort"
	"strings"

	"github.com/hashicorp/hcl/v2"
	"github.com/hashicorp/hcl/v2/hclsyntax"
	"github.com/hashicorp/hcl/v2/hclwrite"
	"github.com/zclconf/go-cty/cty"

	"verifharness/core"
	"verifharness/gen"
)

func init() {
	Register(&Spec{
		ID:        "C12",
		Technique: "runtime monitoring: random edit histories on hclwrite trees checked after every step against an executable list/map model, the tree-invariant hook (VerifCheckTree), a re-parse of the serialised file and the API's own read accessors",
		Rule: "each case is an initial file (empty; built through the API; parsed from a generated configuration with comments, with or without final newline, with one-line and empty blocks) and a seeded history of 1-40 operations (SetAttributeValue/Traversal/Raw, RenameAttribute, RemoveAttribute, AppendNewBlock, AppendBlock(NewBlock), RemoveBlock, Block.SetType, Block.SetLabels, Clear of the file's own body followed by re-appending the blocks it held) on random bodies of the tree, with targets drawn from existing, absent, just-removed and just-renamed names; label slices handed to or returned by the API are overwritten by the caller afterwards; the variable references exposed by every analysed attribute of the edited tree are compared with those of the tree loaded from its own serialisation; " +
			"non-trivial = history length >= 3 with >= 2 distinct operation kinds; distinct by initial source + operation list",
		Assumptions: []string{"hclsyntax.ParseConfig is the reference reader of the serialised file", "the model is the simple ordered-list semantics the API documents (set = replace in place or append; rename in place; remove)"},
		Quick:       Plan{Batches: 16, PerBatch: 500, MinNonTrivial: 5000},
		Thorough:    Plan{Batches: 64, PerBatch: 6000, MinNonTrivial: 50000},
		Case:        c12Case,
	})
}

// ---------------------------------------------------------------- model

type mItem struct {
	isBlock bool
	name    string // attribute name or block type
	expr    string // attribute: blank-stripped source text of the expression
	raw     bool   // attribute last written by SetAttributeRaw (its tokens are not analysed, by design)
	labels  []string
	body    *mBody
	// touched: an edit targeted this item (or, for blocks, something inside it)
	touched bool
	// origText: blank-stripped original source text of the item (parsed files)
	origText string
	wblock   *hclwrite.Block // live handle, blocks only
	// oneLine: the block was written on a single line in the initial source
	// ("b { a = 1 }" or "b {}"): appending into it is known finding C12-oneline.
	oneLine bool
	// braceComment: a comment follows the opening brace on the same line in the
	// initial source; hclwrite attaches it (with its newline) to the first item.
	braceComment bool
	// lostBraceNewline: the brace-line comment (and its newline) went away
	// with the first item; later appends land on the brace line.
	lostBraceNewline bool
}

type mBody struct {
	items []*mItem
	w     *hclwrite.Body
	owner *mItem
}

func (b *mBody) attr(name string) *mItem {
	for _, it := range b.items {
		if !it.isBlock && it.name == name {
			return it
		}
	}
	return nil
}

func (b *mBody) touchUp() {
	for o := b.owner; o != nil; {
		o.touched = true
		// walk up: find the body that contains o — owners are linked via parent pointer below
		o = o.parentOwner()
	}
}

// parent links for touchUp
var c12Parent map[*mItem]*mBody

func (it *mItem) parentOwner() *mItem {
	if pb := c12Parent[it]; pb != nil {
		return pb.owner
	}
	return nil
}

func allBodies(root *mBody) []*mBody {
	var out []*mBody
	var rec func(b *mBody)
	rec = func(b *mBody) {
		out = append(out, b)
		for _, it := range b.items {
			if it.isBlock {
				rec(it.body)
			}
		}
	}
	rec(root)
	return out
}

func buildModel(src []byte, sb *hclsyntax.Body, wb *hclwrite.Body, owner *mItem) (*mBody, string) {
	mb := &mBody{w: wb, owner: owner}
	type pos struct {
		at int
		it *mItem
	}
	var ps []pos
	for n, a := range sb.Attributes {
		txt, _ := slice(src, a.Expr.Range())
		whole, _ := slice(src, a.SrcRange)
		ps = append(ps, pos{a.NameRange.Start.Byte, &mItem{name: n, expr: stripBlank([]byte(txt)), origText: stripBlank([]byte(whole))}})
	}
	wblocks := wb.Blocks()
	if len(wblocks) != len(sb.Blocks) {
		return nil, fmt.Sprintf("initial tree exposes %d blocks, source has %d", len(wblocks), len(sb.Blocks))
	}
	for i, blk := range sb.Blocks {
		whole, _ := slice(src, blk.Range())
		_ = whole
		it := &mItem{isBlock: true, name: blk.Type, labels: append([]string(nil), blk.Labels...), wblock: wblocks[i]}
		it.oneLine = blk.OpenBraceRange.Start.Line == blk.CloseBraceRange.Start.Line
		// the same form spread over several lines by newlines inside comments
		// or inside the item: what counts is that no newline TOKEN separates the
		// opening brace from the first item
		if len(blk.Body.Attributes)+len(blk.Body.Blocks) > 0 {
			first := blk.CloseBraceRange.Start.Byte
			for _, a := range blk.Body.Attributes {
				if a.NameRange.Start.Byte < first {
					first = a.NameRange.Start.Byte
				}
			}
			for _, nb := range blk.Body.Blocks {
				if nb.TypeRange.Start.Byte < first {
					first = nb.TypeRange.Start.Byte
				}
			}
			between, _ := hclsyntax.LexConfig(src[blk.OpenBraceRange.End.Byte:first], "gap.hcl", hcl.InitialPos)
			sawNewline := false
			for _, t := range between {
				if t.Type == hclsyntax.TokenNewline || (t.Type == hclsyntax.TokenComment && strings.HasSuffix(string(t.Bytes), "\n")) {
					sawNewline = true
				}
			}
			if !sawNewline {
				it.oneLine = true
			}
		}
		if rest := src[blk.OpenBraceRange.End.Byte:]; true {
			if nl := strings.IndexByte(string(rest), '\n'); nl >= 0 {
				rest = rest[:nl]
			}
			t := strings.TrimLeft(string(rest), " \t")
			it.braceComment = strings.HasPrefix(t, "#") || strings.HasPrefix(t, "//") || strings.HasPrefix(t, "/*")
		}
		full, _ := slice(src, hcl.RangeBetween(blk.TypeRange, blk.CloseBraceRange))
		it.origText = stripBlank([]byte(full))
		child, msg := buildModel(src, blk.Body, wblocks[i].Body(), it)
		if msg != "" {
			return nil, msg
		}
		it.body = child
		ps = append(ps, pos{blk.TypeRange.Start.Byte, it})
	}
	sort.Slice(ps, func(i, j int) bool { return ps[i].at < ps[j].at })
	for _, p := range ps {
		mb.items = append(mb.items, p.it)
		c12Parent[p.it] = mb
	}
	return mb, ""
}

// ---------------------------------------------------------------- checks

func modelSig(b *mBody, sb *strings.Builder) {
	for _, it := range b.items {
		if it.isBlock {
			fmt.Fprintf(sb, "B %s %q {", it.name, nfcAll(it.labels))
			modelSig(it.body, sb)
			sb.WriteString("}")
		} else {
			fmt.Fprintf(sb, "A %s=%s;", it.name, it.expr)
		}
	}
}

func nfcAll(ss []string) []string {
	out := make([]string, len(ss))
	for i, s := range ss {
		out[i] = nfc(s)
	}
	return out
}

func parsedSig(src []byte, b *hclsyntax.Body, sb *strings.Builder) {
	type pos struct {
		at  int
		txt string
		blk *hclsyntax.Block
	}
	var ps []pos
	for n, a := range b.Attributes {
		txt, _ := slice(src, a.Expr.Range())
		ps = append(ps, pos{a.NameRange.Start.Byte, fmt.Sprintf("A %s=%s;", n, stripBlank([]byte(txt))), nil})
	}
	for _, blk := range b.Blocks {
		ps = append(ps, pos{blk.TypeRange.Start.Byte, "", blk})
	}
	sort.Slice(ps, func(i, j int) bool { return ps[i].at < ps[j].at })
	for _, p := range ps {
		if p.blk != nil {
			fmt.Fprintf(sb, "B %s %q {", p.blk.Type, nfcAll(p.blk.Labels))
			parsedSig(src, p.blk.Body, sb)
			sb.WriteString("}")
		} else {
			sb.WriteString(p.txt)
		}
	}
}

// variablesAgree compares, attribute by attribute, the traversals exposed by
// Expression.Variables() of the edited tree with those of the tree loaded from
// its own serialisation (attributes written as raw tokens are not analysed by
// hclwrite, by design, and are skipped).
func variablesAgree(model *mBody, loaded *hclwrite.Body, path string) string {
	la := loaded.Attributes()
	ea := model.w.Attributes()
	lb := loaded.Blocks()
	bi := 0
	for _, it := range model.items {
		if it.isBlock {
			if bi < len(lb) && it.body != nil {
				if m := variablesAgree(it.body, lb[bi].Body(), fmt.Sprintf("%s/%s[%d]", path, it.name, bi)); m != "" {
					return m
				}
			}
			bi++
			continue
		}
		a, l := ea[it.name], la[it.name]
		if it.raw || a == nil || l == nil {
			continue
		}
		sig := func(at *hclwrite.Attribute) string {
			var parts []string
			for _, tr := range at.Expr().Variables() {
				parts = append(parts, stripBlank(tr.BuildTokens(nil).Bytes()))
			}
			sort.Strings(parts)
			return strings.Join(parts, " ")
		}
		if se, sl := sig(a), sig(l); se != sl {
			return fmt.Sprintf("%s.%s: Expr().Variables() of the edited tree gives [%s], of the reloaded file [%s]", path, it.name, se, sl)
		}
	}
	return ""
}

func clobberLabels(ls []string) {
	for i := range ls {
		ls[i] = "clobbered-by-caller"
	}
}

func accessorCheck(b *mBody) string {
	attrs := b.w.Attributes()
	want := map[string]bool{}
	for _, it := range b.items {
		if !it.isBlock {
			want[it.name] = true
		}
	}
	if len(attrs) != len(want) {
		return fmt.Sprintf("Body.Attributes() has %d entries %v, model has %d %v", len(attrs), keysOf(attrs), len(want), keysOfB(want))
	}
	for n := range want {
		if attrs[n] == nil {
			return fmt.Sprintf("Body.Attributes() lacks %q", n)
		}
		if b.w.GetAttribute(n) == nil {
			return fmt.Sprintf("Body.GetAttribute(%q) is nil but the model has it", n)
		}
	}
	for _, absent := range []string{"zz_absent", "q"} {
		if !want[absent] && b.w.GetAttribute(absent) != nil {
			return fmt.Sprintf("Body.GetAttribute(%q) is non-nil but the model lacks it", absent)
		}
	}
	blocks := b.w.Blocks()
	var mblocks []*mItem
	for _, it := range b.items {
		if it.isBlock {
			mblocks = append(mblocks, it)
		}
	}
	if len(blocks) != len(mblocks) {
		return fmt.Sprintf("Body.Blocks() has %d blocks, model has %d", len(blocks), len(mblocks))
	}
	for i, mb := range mblocks {
		if blocks[i] != mb.wblock {
			return fmt.Sprintf("Body.Blocks()[%d] is not the block the model has at that position (%s %q)", i, mb.name, mb.labels)
		}
		if blocks[i].Type() != mb.name {
			return fmt.Sprintf("Block.Type() = %q, model says %q", blocks[i].Type(), mb.name)
		}
		got := blocks[i].Labels()
		if fmt.Sprintf("%q", nfcAll(got)) != fmt.Sprintf("%q", nfcAll(mb.labels)) {
			return fmt.Sprintf("Block.Labels() = %q, model says %q", got, mb.labels)
		}
		fm := b.w.FirstMatchingBlock(mb.name, got) // query with what the accessor itself reports
		if fm == nil {
			return fmt.Sprintf("FirstMatchingBlock(%q, %q) is nil although such a block exists", mb.name, mb.labels)
		}
		if fm.Type() != mb.name || fmt.Sprintf("%q", nfcAll(fm.Labels())) != fmt.Sprintf("%q", nfcAll(mb.labels)) {
			return fmt.Sprintf("FirstMatchingBlock(%q, %q) returned %s %q", mb.name, mb.labels, fm.Type(), fm.Labels())
		}
		clobberLabels(got) // (what an accessor returned is the caller's to change)
		if again := blocks[i].Labels(); fmt.Sprintf("%q", nfcAll(again)) != fmt.Sprintf("%q", nfcAll(mb.labels)) {
			return fmt.Sprintf("Block.Labels() = %q after the caller changed the slice an earlier Labels() call returned; model says %q", again, mb.labels)
		}
		if m := accessorCheck(mb.body); m != "" {
			return m
		}
	}
	if b.w.FirstMatchingBlock("zz_absent_type", nil) != nil {
		return "FirstMatchingBlock for an absent type returned a block"
	}
	return ""
}

func keysOf(m map[string]*hclwrite.Attribute) []string {
	var ks []string
	for k := range m {
		ks = append(ks, k)
	}
	sort.Strings(ks)
	return ks
}
func keysOfB(m map[string]bool) []string {
	var ks []string
	for k := range m {
		ks = append(ks, k)
	}
	sort.Strings(ks)
	return ks
}

func untouchedCheck(b *mBody, out string) string {
	for _, it := range b.items {
		if it.touched || it.origText == "" {
			if it.isBlock && !it.touched {
				continue
			}
			if it.isBlock {
				if m := untouchedCheck(it.body, out); m != "" {
					return m
				}
			}
			continue
		}
		if !strings.Contains(out, it.origText) {
			return fmt.Sprintf("untouched item %s lost its original tokens: %q not found in the output", it.name, trunc(it.origText, 200))
		}
	}
	return ""
}

// ---------------------------------------------------------------- the case

// c12Directed are initial files that make the adjudicated defect zones
// (known_findings.json) certain to be visited in every run.
var c12Directed = []string{
	"b { a = 1 }\n",
	"b {}\n",
	"b { # c\n  a = 1\n  zz = 2\n}\n",
	"b { // c\n  blk {\n  }\n  zz = 2\n}\n",
}

var c12AttrNames = []string{"a", "b", "c", "name", "id", "count", "for", "null", "dynamic", "a-b", "é", "x9", "_u", "zz"}
var c12Types = []string{"b", "blk", "svc", "nested", "x-y", "z_1", "dynamic"}

func c12Case(c *core.Case) {
	r := c.Rng
	c12Parent = map[*mItem]*mBody{}
	var f *hclwrite.File
	var root *mBody
	var initSrc string
	directed := ""
	if c.Batch == 0 && c.Index < len(c12Directed) {
		directed = c12Directed[c.Index]
	}
	k := r.Intn(6)
	if directed != "" {
		k = 99
	}
	switch {
	case k == 0:
		f = hclwrite.NewEmptyFile()
		root = &mBody{w: f.Body()}
		c.Count("init:empty")
	default:
		var src []byte
		switch {
		case directed != "":
			src = []byte(directed)
			c.Count("init:directed")
		case k == 1:
			// built through the API first
			g := hclwrite.NewEmptyFile()
			g.Body().SetAttributeValue("a", cty.NumberIntVal(1))
			blk := g.Body().AppendNewBlock("b", []string{"l"})
			blk.Body().SetAttributeValue("c", cty.StringVal("x"))
			g.Body().AppendNewBlock("svc", nil)
			src = g.Bytes()
			c.Count("init:api-built")
		case k == 2:
			src = []byte(gen.Pick(r, []string{"a = 1", "b {}", "b {}\n", "b { a = 1 }\n", "b { a = 1 }", "a = 1 # c", "b \"l\" {\n}\n# end", "a = 1\nb {\n  c = 2\n}", "a = <<EOT\nx\nEOT\n", "b {\n  # only a comment\n}\n", "\n\n", "# just a comment\n", "a = [\n  1,\n]\nb \"x\" \"y\" {}\n"}))
			c.Count("init:edge-file")
		default:
			body, _ := exprConfig(r, 2, 1, 0.05)
			fl := gen.RandomFileLayout(r)
			fl.BOM = false
			src = []byte(gen.RenderNative(body, fl))
			c.Count("init:parsed-generated")
		}
		initSrc = string(src)
		sf, sd := hclsyntax.ParseConfig(src, "t.hcl", hcl.InitialPos)
		if sd.HasErrors() {
			c.Count("skipped:initial-source-has-errors")
			return
		}
		var wd hcl.Diagnostics
		f, wd = hclwrite.ParseConfig(src, "t.hcl", hcl.InitialPos)
		if wd.HasErrors() || f == nil {
			c.Violation("initial-load-error", "hclwrite.ParseConfig failed on a source hclsyntax accepts: "+diagStr(wd), nil)
			return
		}
		var msg string
		root, msg = buildModel(src, sf.Body.(*hclsyntax.Body), f.Body(), nil)
		if msg != "" {
			c.Violation("initial-tree", msg, nil)
			return
		}
	}

	var history []string
	kinds := map[string]bool{}
	removedNames := []string{}
	var removedBlocks []*hclwrite.Block
	removedItems := map[*hclwrite.Block]*mItem{}
	nops := 1 + r.Intn(40)
	if c.Tier == "quick" {
		nops = 1 + r.Intn(25)
	}
	record := func() { c.SetInput("INITIAL:\n" + initSrc + "\nHISTORY:\n" + strings.Join(history, "\n")) }
	record()

	for step := 0; step < nops; step++ {
		bodies := allBodies(root)
		b := gen.Pick(r, bodies)
		pickAttrName := func() string {
			var existing []string
			for _, it := range b.items {
				if !it.isBlock {
					existing = append(existing, it.name)
				}
			}
			switch {
			case len(existing) > 0 && gen.Chance(r, 0.5):
				return gen.Pick(r, existing)
			case len(removedNames) > 0 && gen.Chance(r, 0.2):
				return gen.Pick(r, removedNames)
			}
			return gen.Pick(r, c12AttrNames)
		}
		var mblocks []*mItem
		for _, it := range b.items {
			if it.isBlock {
				mblocks = append(mblocks, it)
			}
		}
		// zone names an adjudicated defect zone this step enters (known_findings.json)
		zone := ""
		appendsInto := func(name string) {
			if b.owner != nil && b.owner.oneLine && (name == "" || b.attr(name) == nil) {
				zone = "append-into-single-line-block"
			}
			if b.owner != nil && b.owner.lostBraceNewline && (name == "" || b.attr(name) == nil) {
				zone = "remove-first-item-after-brace-line-comment"
			}
		}
		removesFirst := func(it *mItem) {
			if b.owner != nil && b.owner.braceComment && len(b.items) > 0 && b.items[0] == it {
				zone = "remove-first-item-after-brace-line-comment"
				b.owner.lostBraceNewline = true
			}
		}
		rawWrite := false
		setAttr := func(name, exprText string, apply func()) {
			appendsInto(name)
			apply()
			if it := b.attr(name); it != nil {
				it.expr = exprText
				it.touched = true
				it.raw = rawWrite
			} else {
				ni := &mItem{name: name, expr: exprText, touched: true, raw: rawWrite}
				b.items = append(b.items, ni)
				c12Parent[ni] = b
			}
			b.touchUp()
		}
		op := r.Intn(13)
		switch op {
		case 12:
			// everything in the file's own body is removed at once; the blocks
			// it held can be appended again through the handles kept
			if b.owner != nil || gen.Chance(r, 0.5) {
				continue
			}
			history = append(history, fmt.Sprintf("%s: Clear()", bodyPath(b)))
			record()
			b.w.Clear()
			for _, it := range b.items {
				if it.isBlock {
					removedBlocks = append(removedBlocks, it.wblock)
					removedItems[it.wblock] = it
				} else {
					removedNames = append(removedNames, it.name)
				}
			}
			b.items = nil
			b.touchUp()
			kinds["Clear"] = true
		case 0, 1:
			name := pickAttrName()
			v := c11Value(c, 1)
			txt := stripBlank(hclwrite.TokensForValue(v).Bytes())
			history = append(history, fmt.Sprintf("%s: SetAttributeValue(%q, %s)", bodyPath(b), name, trunc(v.GoString(), 120)))
			record()
			setAttr(name, txt, func() { b.w.SetAttributeValue(name, v) })
			kinds["SetAttributeValue"] = true
		case 2:
			name := pickAttrName()
			tr := hcl.Traversal{hcl.TraverseRoot{Name: gen.Pick(r, []string{"var", "local", "x"})}, hcl.TraverseAttr{Name: gen.Pick(r, []string{"a", "b"})}}
			switch r.Intn(4) {
			case 0:
				tr = append(tr, hcl.TraverseIndex{Key: cty.NumberIntVal(int64(r.Intn(5)))})
			case 1:
				tr = tr[:1] // a bare root name
			case 2:
				tr = append(tr, hcl.TraverseIndex{Key: cty.StringVal("k")}, hcl.TraverseAttr{Name: "c"})
			}
			txt := stripBlank(hclwrite.TokensForTraversal(tr).Bytes())
			history = append(history, fmt.Sprintf("%s: SetAttributeTraversal(%q, %s)", bodyPath(b), name, txt))
			record()
			setAttr(name, txt, func() { b.w.SetAttributeTraversal(name, tr) })
			kinds["SetAttributeTraversal"] = true
		case 3:
			name := pickAttrName()
			raw := gen.Pick(r, []string{"1 + 2", "foo(1, 2)", "[1, 2, 3]", "var.a == 1 ? \"y\" : \"n\"", "\"s-${x}\"", "{ k = 1 }", "x"})
			toks, _ := hclsyntax.LexExpression([]byte(raw), "", hcl.InitialPos)
			var wt hclwrite.Tokens
			for _, t := range toks {
				if t.Type == hclsyntax.TokenEOF {
					continue
				}
				wt = append(wt, &hclwrite.Token{Type: t.Type, Bytes: append([]byte(nil), t.Bytes...)})
			}
			history = append(history, fmt.Sprintf("%s: SetAttributeRaw(%q, %s)", bodyPath(b), name, raw))
			record()
			rawWrite = true
			setAttr(name, stripBlank([]byte(raw)), func() { b.w.SetAttributeRaw(name, wt) })
			// the caller re-uses its token buffer for something else: the file
			// keeps what it was given
			for i := range wt {
				wt[i] = &hclwrite.Token{Type: hclsyntax.TokenIdent, Bytes: []byte("clobbered")}
			}
			kinds["SetAttributeRaw"] = true
		case 4:
			from, to := pickAttrName(), pickAttrName()
			history = append(history, fmt.Sprintf("%s: RenameAttribute(%q, %q)", bodyPath(b), from, to))
			record()
			b.w.RenameAttribute(from, to)
			if it := b.attr(from); it != nil && b.attr(to) == nil {
				it.name = to
				it.touched = true
				removedNames = append(removedNames, from)
				b.touchUp()
			}
			kinds["RenameAttribute"] = true
		case 5:
			name := pickAttrName()
			history = append(history, fmt.Sprintf("%s: RemoveAttribute(%q)", bodyPath(b), name))
			record()
			removesFirst(b.attr(name))
			b.w.RemoveAttribute(name)
			for i, it := range b.items {
				if !it.isBlock && it.name == name {
					b.items = append(b.items[:i:i], b.items[i+1:]...)
					removedNames = append(removedNames, name)
					b.touchUp()
					break
				}
			}
			kinds["RemoveAttribute"] = true
		case 6, 7:
			typ := gen.Pick(r, c12Types)
			var labels []string
			for j := r.Intn(3); j > 0; j-- {
				labels = append(labels, gen.Label(r, 2))
			}
			var wblk *hclwrite.Block
			appendsInto("")
			if op == 6 {
				history = append(history, fmt.Sprintf("%s: AppendNewBlock(%q, %q)", bodyPath(b), typ, labels))
				record()
				mine := append([]string(nil), labels...)
				wblk = b.w.AppendNewBlock(typ, mine)
				clobberLabels(mine) // (the slice stays the caller's)
				kinds["AppendNewBlock"] = true
			} else {
				history = append(history, fmt.Sprintf("%s: AppendBlock(NewBlock(%q, %q))", bodyPath(b), typ, labels))
				record()
				mine := append([]string(nil), labels...)
				wblk = b.w.AppendBlock(hclwrite.NewBlock(typ, mine))
				clobberLabels(mine)
				kinds["AppendBlock"] = true
			}
			ni := &mItem{isBlock: true, name: typ, labels: labels, touched: true, wblock: wblk}
			ni.body = &mBody{w: wblk.Body(), owner: ni}
			b.items = append(b.items, ni)
			c12Parent[ni] = b
			b.touchUp()
		case 8:
			var target *hclwrite.Block
			var mi *mItem
			switch {
			case len(mblocks) > 0 && gen.Chance(r, 0.7):
				mi = gen.Pick(r, mblocks)
				target = mi.wblock
			case len(removedBlocks) > 0:
				target = gen.Pick(r, removedBlocks)
			default:
				target = hclwrite.NewBlock("ghost", nil)
			}
			history = append(history, fmt.Sprintf("%s: RemoveBlock(%s)", bodyPath(b), blockDesc(mi)))
			record()
			if mi != nil {
				removesFirst(mi)
			}
			b.w.RemoveBlock(target)
			if mi != nil {
				for i, it := range b.items {
					if it == mi {
						b.items = append(b.items[:i:i], b.items[i+1:]...)
						break
					}
				}
				removedBlocks = append(removedBlocks, target)
				removedItems[target] = mi
				b.touchUp()
			}
			kinds["RemoveBlock"] = true
		case 11:
			// move: a block removed earlier is appended again (here or elsewhere)
			var cands []*hclwrite.Block
			for _, rb := range removedBlocks {
				if removedItems[rb] != nil {
					cands = append(cands, rb)
				}
			}
			if len(cands) == 0 {
				continue
			}
			target := gen.Pick(r, cands)
			mi := removedItems[target]
			// (not into itself or its own descendants)
			inside := false
			for p := b; p != nil; {
				if p.owner == mi {
					inside = true
				}
				if p.owner == nil {
					break
				}
				p = c12Parent[p.owner]
			}
			if inside {
				continue
			}
			appendsInto("")
			history = append(history, fmt.Sprintf("%s: AppendBlock(<removed %s>)", bodyPath(b), blockDesc(mi)))
			record()
			b.w.AppendBlock(target)
			delete(removedItems, target)
			for i, rb := range removedBlocks {
				if rb == target {
					removedBlocks = append(removedBlocks[:i:i], removedBlocks[i+1:]...)
					break
				}
			}
			mi.touched = true
			b.items = append(b.items, mi)
			c12Parent[mi] = b
			b.touchUp()
			kinds["AppendBlock(moved)"] = true
		case 9:
			if len(mblocks) == 0 {
				continue
			}
			mi := gen.Pick(r, mblocks)
			typ := gen.Pick(r, c12Types)
			history = append(history, fmt.Sprintf("%s: %s.SetType(%q)", bodyPath(b), blockDesc(mi), typ))
			record()
			mi.wblock.SetType(typ)
			mi.name = typ
			mi.touched = true
			b.touchUp()
			kinds["SetType"] = true
		default:
			if len(mblocks) == 0 {
				continue
			}
			mi := gen.Pick(r, mblocks)
			var labels []string
			for j := r.Intn(3); j > 0; j-- {
				labels = append(labels, gen.Label(r, 2))
			}
			history = append(history, fmt.Sprintf("%s: %s.SetLabels(%q)", bodyPath(b), blockDesc(mi), labels))
			record()
			mine := append([]string(nil), labels...)
			mi.wblock.SetLabels(mine)
			clobberLabels(mine)
			mi.labels = labels
			mi.touched = true
			b.touchUp()
			kinds["SetLabels"] = true
		}
		c.Evals(1)
		last := history[len(history)-1]
		opName := last[strings.Index(last, ": ")+2:]
		if i := strings.IndexAny(opName, "("); i > 0 {
			opName = opName[:i]
		}
		if i := strings.LastIndex(opName, "."); i >= 0 {
			opName = opName[i+1:]
		}
		c.Count("op:" + opName)

		// (a) structural invariants at the hook
		if err := hclwrite.VerifCheckTree(f); err != nil {
			c.Violation("tree-invariant/"+opName, fmt.Sprintf("after step %d (%s): %v", step+1, last, err), nil)
			return
		}
		// (b) the serialised file parses
		out := f.Bytes()
		pf, pd := hclsyntax.ParseConfig(out, "out.hcl", hcl.InitialPos)
		if pd.HasErrors() {
			if zone != "" {
				c.Violation("output-does-not-parse/"+zone, fmt.Sprintf("after step %d (%s) the file is %q: %s", step+1, last, trunc(string(out), 500), diagStr(pd)), nil)
				return
			}
			c.Violation("output-does-not-parse/"+opName, fmt.Sprintf("after step %d (%s) the file is %q: %s", step+1, last, trunc(string(out), 500), diagStr(pd)), nil)
			return
		}
		// (c) parse equals model
		var ms, ps strings.Builder
		modelSig(root, &ms)
		parsedSig(out, pf.Body.(*hclsyntax.Body), &ps)
		if ms.String() != ps.String() {
			c.Violation("content-differs-from-model/"+opName, fmt.Sprintf("after step %d (%s)\n model: %s\n file:  %s\n bytes: %q", step+1, last, trunc(ms.String(), 500), trunc(ps.String(), 500), trunc(string(out), 400)), nil)
			return
		}
		// (d) accessors agree with the model
		if m := accessorCheck(root); m != "" {
			c.Violation("accessor-disagrees/"+opName, fmt.Sprintf("after step %d (%s): %s", step+1, last, m), nil)
			return
		}
		// (d') the variable references the edited tree exposes are those of the file it serialises to
		if fresh, fd := hclwrite.ParseConfig(out, "out.hcl", hcl.InitialPos); !fd.HasErrors() {
			if m := variablesAgree(root, fresh.Body(), "root"); m != "" {
				c.Violation("accessor-disagrees/variables/"+opName, fmt.Sprintf("after step %d (%s): %s\n bytes: %q", step+1, last, m, trunc(string(out), 300)), nil)
				return
			}
		}
		// (e) untouched items keep their tokens
		if m := untouchedCheck(root, stripBlank(out)); m != "" {
			c.Violation("untouched-item-changed/"+opName, fmt.Sprintf("after step %d (%s): %s", step+1, last, m), nil)
			return
		}
		c.Count("steps-checked")
	}
	if len(history) >= 3 && len(kinds) >= 2 {
		c.NonTrivial(initSrc + "\x00" + strings.Join(history, "\n"))
	}
	if c.WantSample() {
		h := history
		if len(h) > 8 {
			h = h[:8]
		}
		c.Sample(map[string]any{"initial": trunc(initSrc, 200), "history": h, "steps": len(history)})
	}
}

func bodyPath(b *mBody) string {
	if b.owner == nil {
		return "root"
	}
	return "body(" + blockDesc(b.owner) + ")"
}

func blockDesc(mi *mItem) string {
	if mi == nil {
		return "<foreign block>"
	}
	return fmt.Sprintf("block %s %q", mi.name, mi.labels)
}
