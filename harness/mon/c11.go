package mon

import (
	"fmt"
	"math/big"
	"strings"

	"github.com/hashicorp/hcl/v2"
	"github.com/hashicorp/hcl/v2/hclsyntax"
	"github.com/hashicorp/hcl/v2/hclwrite"
	"github.com/zclconf/go-cty/cty"
	"github.com/zclconf/go-cty/cty/convert"

	"verifharness/core"
	"verifharness/gen"
)

func init() {
	Register(&Spec{
		ID:        "C11",
		Technique: "runtime monitoring: generate-then-read-back round-trip monitor over hclwrite's source generators (TokensForValue/Traversal, SetAttributeValue/Traversal, NewBlock/SetLabels)",
		Rule: "each case draws a wholly-known finite value (strings over a hostile alphabet incl. template introducers, escapes, controls, combining marks and astral characters; numbers up to 150 significant digits and exponents to 4e3; nulls; nested list/set/map/tuple/object with keyword, non-identifier and empty keys in first and later positions), a traversal (attribute, string and number index steps) and 0-3 block labels; generates source through the writer API (the attribute route after a short history of calls on the same body: overwrite, rename into place, remove and re-add, rename away and back) and reads it back with hclsyntax; " +
			"non-trivial = the value has a collection or a string needing an escape or a number outside float64; distinct by generated-source hash",
		Assumptions: []string{"cty conversion (convert.Convert) and RawEquals define value equality", "hclsyntax parsing/evaluation of literals (monitored by C01/C02)"},
		Quick:       Plan{Batches: 16, PerBatch: 2500, MinNonTrivial: 10000},
		Thorough:    Plan{Batches: 64, PerBatch: 80000, MinNonTrivial: 400000},
		Case:        c11Case,
	})
}

var c11Keys = []string{"for", "in", "if", "else", "endif", "endfor", "null", "true", "false", "a", "b", "foo", "", "a b", "a.b", "0", "1x", "a-b", "é", "$", "${x}", "%{y}", "\"", "\\", "\n", "dynamic", "for_each", "A", "_", "a:b", "a=b", "*", "[0]", "𝒳"}

func c11String(c *core.Case) string {
	r := c.Rng
	switch r.Intn(8) {
	case 0:
		return gen.Pick(r, []string{"${", "%{", "$${", "%%{", "$", "%", "$$", "%%", "${a}", "%{if x}", "$${a}", "a$", "a%", "$${", "$$${", "%%%{", "$%{", "%${", "${~", "~}", "}", "{", "$​{", "$\x00{", "\\${", "\"${", "$\n{", "$­{"})
	case 1:
		return gen.Pick(r, c11Keys)
	case 2:
		var sb strings.Builder
		for i := r.Intn(6); i > 0; i-- {
			sb.WriteRune(rune(r.Intn(0x250)))
		}
		return sb.String()
	case 3:
		var sb strings.Builder
		for i := r.Intn(5); i > 0; i-- {
			sb.WriteRune(gen.Pick(r, []rune{0x200b, 0xad, 0x7f, 0x85, 0x2028, 0x2029, 0xfffe, 0xffff, 0x10ffff, 0xe0001, 0xfeff, 0x301, 0x1f600, 0xd7ff, 0xe000, '$', '%', '{'}))
		}
		return sb.String()
	}
	return gen.Str(r, 2)
}

func c11Number(c *core.Case) cty.Value {
	r := c.Rng
	switch r.Intn(8) {
	case 0:
		// many significant digits
		var sb strings.Builder
		if gen.Chance(r, 0.5) {
			sb.WriteByte('-')
		}
		n := 17 + r.Intn(130)
		sb.WriteByte(byte('1' + r.Intn(9)))
		for i := 1; i < n; i++ {
			sb.WriteByte(byte('0' + r.Intn(10)))
		}
		if gen.Chance(r, 0.5) {
			sb.WriteByte('.')
			for i := 1 + r.Intn(40); i > 0; i-- {
				sb.WriteByte(byte('0' + r.Intn(10)))
			}
		}
		return gen.NumVal(sb.String())
	case 1:
		return gen.NumVal(fmt.Sprintf("%s%de%s%d", gen.Pick(r, []string{"", "-"}), 1+r.Intn(99), gen.Pick(r, []string{"", "-"}), r.Intn(4000)))
	case 2:
		return gen.NumVal(gen.Pick(r, []string{"0", "-0", "1", "-1", "9007199254740993", "-9007199254740993", "0.1", "-0.1", "1e-7", "123456789.123456789", "0.000001", "1e21", "1e20", "1.5e300", "-2.5e-300", "18446744073709551616", "-9223372036854775809"}))
	case 3:
		return cty.NumberFloatVal(r.NormFloat64() * 1e6)
	}
	v := gen.NumVal(gen.NumText(r))
	if gen.Chance(r, 0.3) {
		return v.Negate()
	}
	return v
}

func c11Value(c *core.Case, depth int) cty.Value {
	r := c.Rng
	k := r.Intn(12)
	if depth <= 0 && k >= 5 {
		k = r.Intn(5)
	}
	n := r.Intn(4)
	switch k {
	case 0, 1:
		return cty.StringVal(c11String(c))
	case 2:
		return c11Number(c)
	case 3:
		return cty.BoolVal(gen.Chance(r, 0.5))
	case 4:
		return cty.NullVal(gen.Pick(r, []cty.Type{cty.DynamicPseudoType, cty.String, cty.Number, cty.Bool, cty.List(cty.String), cty.Map(cty.Number), cty.EmptyObject}))
	case 5: // list
		if n == 0 {
			return cty.ListValEmpty(gen.Type(r, 1))
		}
		ety := gen.Type(r, depth-1)
		vs := make([]cty.Value, n)
		for i := range vs {
			vs[i] = c11TypedValue(c, ety)
		}
		return cty.ListVal(vs)
	case 6: // set
		if n == 0 {
			return cty.SetValEmpty(cty.String)
		}
		ety := gen.Pick(r, []cty.Type{cty.String, cty.Number, cty.Bool})
		vs := make([]cty.Value, n)
		for i := range vs {
			vs[i] = c11TypedValue(c, ety)
		}
		return cty.SetVal(vs)
	case 7: // map
		if n == 0 {
			return cty.MapValEmpty(gen.Type(r, 1))
		}
		ety := gen.Type(r, depth-1)
		m := map[string]cty.Value{}
		for i := 0; i < n; i++ {
			m[c11Key(c, i)] = c11TypedValue(c, ety)
		}
		return cty.MapVal(m)
	case 8, 9: // object
		if n == 0 {
			return cty.EmptyObjectVal
		}
		m := map[string]cty.Value{}
		for i := 0; i < n; i++ {
			m[c11Key(c, i)] = c11Value(c, depth-1)
		}
		return cty.ObjectVal(m)
	default: // tuple
		if n == 0 {
			return cty.EmptyTupleVal
		}
		vs := make([]cty.Value, n)
		for i := range vs {
			vs[i] = c11Value(c, depth-1)
		}
		return cty.TupleVal(vs)
	}
}

func c11Key(c *core.Case, i int) string {
	r := c.Rng
	if gen.Chance(r, 0.6) {
		return gen.Pick(r, c11Keys)
	}
	return c11String(c)
}

func c11TypedValue(c *core.Case, ty cty.Type) cty.Value {
	r := c.Rng
	switch {
	case ty == cty.String:
		if gen.Chance(r, 0.1) {
			return cty.NullVal(ty)
		}
		return cty.StringVal(c11String(c))
	case ty == cty.Number:
		return c11Number(c)
	case ty == cty.Bool:
		return cty.BoolVal(gen.Chance(r, 0.5))
	}
	return gen.Value(r, ty, gen.ValOpts{StrLevel: 2, NullProb: 0.05, MapKeys: c11Keys})
}

// needsCare reports whether v exercises something beyond plain literals.
func needsCare(v cty.Value) bool {
	care := false
	cty.Walk(v, func(p cty.Path, x cty.Value) (bool, error) {
		if x.IsNull() || !x.IsKnown() {
			return true, nil
		}
		ty := x.Type()
		switch {
		case ty.IsCollectionType() || ty.IsTupleType() || ty.IsObjectType():
			care = true
		case ty == cty.String:
			for _, ch := range x.AsString() {
				if ch == '"' || ch == '\\' || ch == '$' || ch == '%' || ch < 0x20 || ch > 0x7e {
					care = true
				}
			}
		case ty == cty.Number:
			bf := x.AsBigFloat()
			f, acc := bf.Float64()
			if acc != big.Exact || new(big.Float).SetFloat64(f).Cmp(bf) != 0 {
				care = true
			}
		}
		return true, nil
	})
	return care
}

// valuesEqualNFC compares with RawEquals after NFC-normalising every string
// (HCL strings are NFC-normalised by definition; cty.StringVal normalises too).
func valuesEqualNFC(a, b cty.Value) bool {
	return a.RawEquals(b)
}

// c11Interleave generates unrelated source through the same generators between
// producing a source text and reading it back: generated bytes belong to the
// caller and later calls must leave them alone.
func c11Interleave() {
	other := cty.ObjectVal(map[string]cty.Value{"other": cty.ListVal([]cty.Value{cty.StringVal("unrelated value"), cty.StringVal("of about the same size")}), "n": cty.NumberIntVal(1234567)})
	_ = hclwrite.TokensForValue(other).Bytes()
	f := hclwrite.NewEmptyFile()
	f.Body().SetAttributeValue("other", other)
	f.Body().AppendNewBlock("unrelated", []string{"label"}).Body().SetAttributeValue("x", cty.True)
	_ = f.Bytes()
	_ = hclwrite.TokensForTraversal(hcl.Traversal{hcl.TraverseRoot{Name: "unrelated"}, hcl.TraverseAttr{Name: "traversal"}, hcl.TraverseIndex{Key: cty.StringVal("key")}}).Bytes()
}

func c11Case(c *core.Case) {
	r := c.Rng
	switch r.Intn(5) {
	case 0:
		c11Traversal(c)
		return
	case 1:
		c11Blocks(c)
		return
	}
	v := c11Value(c, 2)
	if gen.Chance(r, 0.04) {
		// the value sits under many levels of brackets, inside a constructor that
		// goes on after it
		n := gen.Pick(r, []int{20, 63, 64, 65, 70, 130, 300})
		inner := v
		mixed := gen.Chance(r, 0.5)
		for i := 0; i < n; i++ {
			if mixed && i%3 == 2 {
				inner = cty.ObjectVal(map[string]cty.Value{"k": inner})
			} else {
				inner = cty.TupleVal([]cty.Value{inner})
			}
		}
		v = cty.ObjectVal(map[string]cty.Value{"deep": inner, "zz_after": cty.NumberIntVal(2)})
		c.Count("value:deeply-nested")
	}
	viaAttr := gen.Chance(r, 0.4)
	var src []byte
	var got cty.Value
	var diags hcl.Diagnostics
	if viaAttr {
		f := hclwrite.NewEmptyFile()
		// the attribute is written last in a short history of writer calls on the
		// same body: overwrite, rename into place, remove and re-add, rename away and back
		hist := "set"
		body := f.Body()
		if gen.Chance(r, 0.3) {
			body.SetAttributeValue("before", c11Value(c, 1))
		}
		switch r.Intn(8) {
		case 0:
			body.SetAttributeValue("a", c11Value(c, 1))
			body.SetAttributeValue("a", v)
			hist = "set,set"
		case 1:
			body.SetAttributeValue("z", c11Value(c, 1))
			body.RenameAttribute("z", "a")
			body.SetAttributeValue("a", v)
			hist = "set-other,rename,set"
		case 2:
			body.SetAttributeValue("a", c11Value(c, 1))
			body.RemoveAttribute("a")
			body.SetAttributeValue("a", v)
			hist = "set,remove,set"
		case 3:
			body.SetAttributeValue("a", v)
			body.RenameAttribute("a", "q")
			body.RenameAttribute("q", "a")
			hist = "set,rename-away,rename-back"
		case 4:
			body.SetAttributeValue("a", v)
			body.SetAttributeValue("b", c11Value(c, 1))
			body.RenameAttribute("b", "c")
			body.RemoveAttribute("c")
			if body.GetAttribute("c") != nil || body.GetAttribute("b") != nil {
				c.Violation("value/renamed-attribute-survives-removal", "after SetAttributeValue(b), RenameAttribute(b, c), RemoveAttribute(c) the body still has b or c:\n"+trunc(string(f.Bytes()), 300), nil)
				return
			}
			hist = "set,set-other,rename-other,remove-other"
		case 5:
			body.SetAttributeTraversal("z", hcl.Traversal{hcl.TraverseRoot{Name: "x"}})
			body.RenameAttribute("z", "a")
			body.SetAttributeValue("a", v)
			hist = "set-traversal,rename,set"
		default:
			body.SetAttributeValue("a", v)
		}
		if gen.Chance(r, 0.3) {
			body.SetAttributeValue("after", c11Value(c, 1))
		}
		c.Count("history:" + hist)
		src = f.Bytes()
		c11Interleave()
		c.SetInput(string(src))
		pf, pd := hclsyntax.ParseConfig(src, "gen.hcl", hcl.InitialPos)
		c.Evals(1)
		if pd.HasErrors() {
			c.Violation("value/generated-source-does-not-parse", fmt.Sprintf("SetAttributeValue(%s) after %s generated %q: %s", valStr(v), hist, trunc(string(src), 400), diagStr(pd)), nil)
			return
		}
		attrs, _ := pf.Body.JustAttributes()
		a, ok := attrs["a"]
		if !ok {
			c.Violation("value/attribute-missing", fmt.Sprintf("generated %q has no attribute a", src), nil)
			return
		}
		got, diags = a.Expr.Value(nil)
		c.Count("route:SetAttributeValue")
	} else {
		toks := hclwrite.TokensForValue(v)
		src = toks.Bytes()
		c11Interleave()
		c.SetInput(string(src))
		e, pd := hclsyntax.ParseExpression(src, "gen.hcl", hcl.InitialPos)
		c.Evals(1)
		if pd.HasErrors() {
			c.Violation("value/generated-source-does-not-parse", fmt.Sprintf("TokensForValue(%s) generated %q: %s", valStr(v), trunc(string(src), 400), diagStr(pd)), nil)
			return
		}
		got, diags = e.Value(nil)
		c.Count("route:TokensForValue")
	}
	c.Evals(1)
	if diags.HasErrors() {
		c.Violation("value/generated-source-does-not-evaluate", fmt.Sprintf("source %q generated for %s fails to evaluate: %s", trunc(string(src), 400), valStr(v), diagStr(diags)), nil)
		return
	}
	conv, err := convert.Convert(got, v.Type())
	if err != nil {
		c.Violation("value/read-back-not-convertible", fmt.Sprintf("source %q reads back as %s which cannot convert to the original type %s: %v", trunc(string(src), 400), valStr(got), v.Type().FriendlyName(), err), nil)
		return
	}
	if !conv.RawEquals(v) {
		c.Violation("value/read-back-differs/"+valueDiffKind(v, conv), fmt.Sprintf("generated %q\n original  %s\n read back %s", trunc(string(src), 400), valStr(v), valStr(conv)), nil)
		return
	}
	c.Count("values-round-tripped")
	c.Count("kind:" + kindOf(v.Type()))
	if needsCare(v) {
		c.NonTrivial(string(src))
	}
	if c.WantSample() {
		c.Sample(map[string]any{"value": trunc(v.GoString(), 200), "source": trunc(string(src), 200)})
	}
}

func kindOf(ty cty.Type) string {
	switch {
	case ty == cty.DynamicPseudoType:
		return "dynamic"
	case ty.IsPrimitiveType():
		return ty.FriendlyName()
	case ty.IsListType():
		return "list"
	case ty.IsSetType():
		return "set"
	case ty.IsMapType():
		return "map"
	case ty.IsTupleType():
		return "tuple"
	case ty.IsObjectType():
		return "object"
	}
	return "other"
}

// valueDiffKind names the kind of the first differing leaf.
func valueDiffKind(a, b cty.Value) string {
	kind := "structure"
	done := false
	cty.Walk(a, func(p cty.Path, x cty.Value) (bool, error) {
		if done {
			return false, nil
		}
		y, err := p.Apply(b)
		if err != nil {
			kind = "missing-element"
			done = true
			return false, nil
		}
		if x.Type().IsPrimitiveType() && !x.RawEquals(y) {
			kind = x.Type().FriendlyName()
			done = true
		}
		return true, nil
	})
	return kind
}

func c11Traversal(c *core.Case) {
	r := c.Rng
	roots := []string{"a", "foo", "var", "local", "x9", "a-b", "é", "_u", "dynamic"}
	tr := hcl.Traversal{hcl.TraverseRoot{Name: gen.Pick(r, roots)}}
	n := r.Intn(5)
	for i := 0; i < n; i++ {
		switch r.Intn(4) {
		case 0:
			tr = append(tr, hcl.TraverseAttr{Name: gen.Pick(r, []string{"b", "bar", "id", "name", "a-b", "x1", "é", "_"})})
		case 1:
			tr = append(tr, hcl.TraverseIndex{Key: cty.StringVal(c11String(c))})
		case 2:
			tr = append(tr, hcl.TraverseIndex{Key: cty.NumberIntVal(int64(r.Intn(1000)))})
		default:
			// (the native syntax has no negative literals, so a negative key has
			// no traversal syntax; keys are drawn from the non-negative numbers)
			tr = append(tr, hcl.TraverseIndex{Key: c11Number(c).Absolute()})
		}
	}
	viaAttr := gen.Chance(r, 0.5)
	var src []byte
	var e hclsyntax.Expression
	if viaAttr {
		f := hclwrite.NewEmptyFile()
		f.Body().SetAttributeTraversal("a", tr)
		src = f.Bytes()
		c11Interleave()
		c.SetInput(string(src))
		pf, pd := hclsyntax.ParseConfig(src, "gen.hcl", hcl.InitialPos)
		if pd.HasErrors() {
			c.Violation("traversal/generated-source-does-not-parse", fmt.Sprintf("SetAttributeTraversal generated %q: %s", trunc(string(src), 300), diagStr(pd)), nil)
			return
		}
		a := pf.Body.(*hclsyntax.Body).Attributes["a"]
		if a == nil {
			c.Violation("traversal/attribute-missing", fmt.Sprintf("generated %q has no attribute a", src), nil)
			return
		}
		e = a.Expr
		c.Count("route:SetAttributeTraversal")
	} else {
		src = hclwrite.TokensForTraversal(tr).Bytes()
		c11Interleave()
		c.SetInput(string(src))
		var pd hcl.Diagnostics
		e, pd = hclsyntax.ParseExpression(src, "gen.hcl", hcl.InitialPos)
		if pd.HasErrors() {
			c.Violation("traversal/generated-source-does-not-parse", fmt.Sprintf("TokensForTraversal generated %q: %s", trunc(string(src), 300), diagStr(pd)), nil)
			return
		}
		c.Count("route:TokensForTraversal")
	}
	c.Evals(2)
	back, td := hcl.AbsTraversalForExpr(e)
	if td.HasErrors() {
		c.Violation("traversal/read-back-not-a-traversal", fmt.Sprintf("generated %q does not read back as a traversal: %s", trunc(string(src), 300), diagStr(td)), nil)
		return
	}
	if len(back) != len(tr) {
		c.Violation("traversal/step-count", fmt.Sprintf("generated %q reads back with %d steps, original has %d", trunc(string(src), 300), len(back), len(tr)), nil)
		return
	}
	for i := range tr {
		ok := false
		switch a := tr[i].(type) {
		case hcl.TraverseRoot:
			b, is := back[i].(hcl.TraverseRoot)
			ok = is && nfc(a.Name) == nfc(b.Name)
		case hcl.TraverseAttr:
			b, is := back[i].(hcl.TraverseAttr)
			ok = is && nfc(a.Name) == nfc(b.Name)
		case hcl.TraverseIndex:
			b, is := back[i].(hcl.TraverseIndex)
			ok = is && a.Key.RawEquals(b.Key)
		}
		if !ok {
			c.Violation("traversal/step-differs", fmt.Sprintf("generated %q: step %d is %#v, reads back as %#v", trunc(string(src), 300), i, tr[i], back[i]), nil)
			return
		}
	}
	c.Count("traversals-round-tripped")
	if len(tr) >= 2 {
		c.NonTrivial(string(src))
	}
}

func c11Blocks(c *core.Case) {
	r := c.Rng
	f := hclwrite.NewEmptyFile()
	type want struct {
		typ    string
		labels []string
	}
	var wants []want
	n := 1 + r.Intn(3)
	for i := 0; i < n; i++ {
		typ := gen.Pick(r, []string{"b", "resource", "x-y", "é", "_z", "dynamic"})
		var labels []string
		for j := r.Intn(4); j > 0; j-- {
			if gen.Chance(r, 0.5) {
				labels = append(labels, c11String(c))
			} else {
				labels = append(labels, gen.Label(r, 2))
			}
		}
		var blk *hclwrite.Block
		switch r.Intn(3) {
		case 0:
			blk = f.Body().AppendNewBlock(typ, labels)
		case 1:
			blk = f.Body().AppendBlock(hclwrite.NewBlock(typ, labels))
		default:
			blk = f.Body().AppendNewBlock(typ, []string{"tmp"})
			blk.SetLabels(labels)
		}
		if gen.Chance(r, 0.5) {
			blk.Body().SetAttributeValue("v", cty.StringVal(c11String(c)))
		}
		wants = append(wants, want{typ, labels})
	}
	src := f.Bytes()
	c11Interleave()
	c.SetInput(string(src))
	pf, pd := hclsyntax.ParseConfig(src, "gen.hcl", hcl.InitialPos)
	c.Evals(1)
	if pd.HasErrors() {
		c.Violation("block/generated-source-does-not-parse", fmt.Sprintf("generated %q: %s", trunc(string(src), 400), diagStr(pd)), nil)
		return
	}
	blocks := pf.Body.(*hclsyntax.Body).Blocks
	if len(blocks) != len(wants) {
		c.Violation("block/count", fmt.Sprintf("generated %q has %d blocks, %d were appended", trunc(string(src), 400), len(blocks), len(wants)), nil)
		return
	}
	for i, w := range wants {
		b := blocks[i]
		if b.Type != w.typ || len(b.Labels) != len(w.labels) {
			c.Violation("block/header", fmt.Sprintf("block %d: wrote %s %q, read %s %q", i, w.typ, w.labels, b.Type, b.Labels), nil)
			return
		}
		for j := range w.labels {
			if nfc(b.Labels[j]) != nfc(w.labels[j]) {
				c.Violation("block/label", fmt.Sprintf("block %d label %d: wrote %q, read back %q (source %q)", i, j, w.labels[j], b.Labels[j], trunc(string(src), 300)), nil)
				return
			}
		}
	}
	c.Count("route:blocks")
	c.Count("blocks-round-tripped")
	c.NonTrivial(string(src))
}
