package mon

import (
	"bytes"
	"fmt"
	"reflect"
	"strings"
	"unicode/utf8"

	"github.com/apparentlymart/go-textseg/v15/textseg"
	"github.com/hashicorp/hcl/v2"
	"github.com/hashicorp/hcl/v2/hclsyntax"
	"github.com/zclconf/go-cty/cty"

	"verifharness/core"
	"verifharness/gen"
)

func init() {
	Register(&Spec{
		ID:        "C14",
		Technique: "runtime monitoring: tiling/position invariant monitor over lexer output on hostile byte strings; range-slice re-parse monitor over ASTs of generated configurations",
		Rule: "cases alternate between (a) a byte string (repo corpus file, rendered generated config/expression, or a 1-6 edit mutant of one incl. invalid UTF-8, CR/LF mixes, BOMs) lexed in config, expression and template mode from a random start position, judged by the tiling + independent line/column counter invariant, and (b) an error-free generated configuration whose every recorded range (names, '=', labels, braces, call/index/for/splat markers, every expression) is sliced and re-parsed; 1 case in 12 checks the per-step ranges of the stand-alone traversal parsers (slice to the step, tile the text, equal the expression parser's); 1 case in 12 runs hcl.RangeScanner (lines, grapheme clusters, cluster chunks with trailing skips; whole buffer or fragment at a start position) and requires ordered non-overlapping ranges, Bytes() equal to the buffer at Range(), positions equal to an independent count, and full coverage; " +
			"non-trivial = the token stream has >= 4 tokens (a) or the AST has >= 3 expression nodes (b); distinct by input hash",
		Assumptions: []string{"go-textseg grapheme segmentation is the definition of a column", "cty value equality"},
		Quick:       Plan{Batches: 16, PerBatch: 1500, MinNonTrivial: 4000},
		Thorough:    Plan{Batches: 64, PerBatch: 60000, MinNonTrivial: 200000},
		Case:        c14Case,
	})
}

func c14Case(c *core.Case) {
	r := c.Rng
	if c.Index%3 == 2 {
		c14Ranges(c)
		return
	}
	if c.Index%12 == 7 {
		c14Scanner(c)
		return
	}
	if c.Index%12 == 1 {
		c14TraversalRanges(c)
		return
	}
	src := pickSeed(c, false)
	if gen.Chance(r, 0.08) {
		// heredoc edges: what may follow a closing marker, odd indentation
		src = []byte(gen.Pick(r, c14Heredocs))
		c.Count("source:heredoc-edges")
		if gen.Chance(r, 0.5) {
			src = bytes.ReplaceAll(src, []byte("\n"), []byte("\r\n"))
		}
		if gen.Chance(r, 0.7) {
			src = gen.Mutate(r, src, 1)
		}
	} else if gen.Chance(r, 0.7) {
		src = gen.Mutate(r, src, 6)
	}
	start := hcl.InitialPos
	if gen.Chance(r, 0.3) {
		start = hcl.Pos{Line: 1 + r.Intn(50), Column: 1 + r.Intn(40), Byte: r.Intn(5000)}
	}
	c.SetInput(string(src))
	modes := []string{"config", "expression", "template"}
	nt := false
	for _, m := range modes {
		var toks hclsyntax.Tokens
		switch m {
		case "config":
			toks, _ = hclsyntax.LexConfig(src, "t.hcl", start)
		case "expression":
			toks, _ = hclsyntax.LexExpression(src, "t.hcl", start)
		case "template":
			toks, _ = hclsyntax.LexTemplate(src, "t.hcl", start)
		}
		c.Evals(1)
		c.Count("lex-" + m)
		c.CountN("tokens", len(toks))
		if len(toks) >= 4 {
			nt = true
		}
		if msg, rule := checkTiling(src, toks, start); msg != "" {
			c.Violation("tiling/"+rule+"/"+m, msg, map[string]any{"mode": m, "start": fmt.Sprint(start), "src_quoted": fmt.Sprintf("%q", trunc(string(src), 2000))})
			return
		}
	}
	if !utf8.Valid(src) {
		c.Count("invalid-utf8-inputs")
	}
	if bytes.Contains(src, []byte("\r")) {
		c.Count("cr-inputs")
	}
	if nt {
		c.NonTrivial(string(src))
	}
	if c.WantSample() {
		c.Sample(map[string]any{"kind": "lex", "src": trunc(fmt.Sprintf("%q", src), 300), "start": fmt.Sprint(start)})
	}
}

var utf8BOM = []byte{0xef, 0xbb, 0xbf}

var c14Heredocs = func() []string {
	var out []string
	for _, ws := range []string{"", " ", "\t", "\f", "\v", "\u0085", "\u00a0", "\u3000", " \f ", "\u2028", "x"} {
		out = append(out,
			"a = <<EOT\nx\nEOT"+ws+"\nb = 1\n",
			"a = <<-EOT\n  x\n  EOT"+ws+"\nb = 1\n",
			"a = \"${<<EOT\nx\nEOT"+ws+"\n}\"\nb = 1\n",
			"a = [<<EOT\nx ${y}\nEOT"+ws+"\n, 2]\n",
			"a = <<EOT"+ws+"\nx\nEOT\n",
		)
	}
	for _, ind := range []string{"  ", "\t", "\u00a0\u00a0", "\u3000", " \u00a0", "\u00a0 ", "\u2003\u2003"} {
		out = append(out,
			"a = <<-EOT\n"+ind+"foo ${s}\n"+ind+"bar\n"+ind+"EOT\nb = 1\n",
			"a = <<-EOT\n"+ind+"%{ if f }yes\n"+ind+"%{ else }no\n"+ind+"%{ endif }\n"+ind+"EOT\n",
			"a = <<-EOT\n"+ind+ind+"deeper\n"+ind+"base ${n}\n"+ind+"EOT\n",
		)
	}
	return out
}()

// posTable gives the (line, column) of every byte offset of src that is a
// grapheme cluster boundary, counted independently of the lexer.
type posTable struct {
	line, col []int // 0 = not a cluster boundary
	// tainted lines hold a token boundary that splits a grapheme cluster (a
	// combining mark right after a quote, say); the lexer counts clusters per
	// token, so later columns on such a line are outside the property
	tainted map[int]bool
}

func newPosTable(src []byte) *posTable {
	t := &posTable{line: make([]int, len(src)+1), col: make([]int, len(src)+1)}
	cur := 0
	if bytes.HasPrefix(src, utf8BOM) {
		cur = 3
	}
	line, col := 1, 1
	for {
		t.line[cur], t.col[cur] = line, col
		if cur >= len(src) {
			break
		}
		adv, seg, _ := textseg.ScanGraphemeClusters(src[cur:], true)
		if adv <= 0 {
			adv = 1
		}
		if nl := bytes.Count(seg, []byte{'\n'}); nl > 0 {
			line += nl
			col = 1
			if seg[len(seg)-1] != '\n' {
				break // columns after a newline in mid-cluster are outside the property
			}
		} else {
			col++
		}
		cur += adv
	}
	t.tainted = map[int]bool{}
	lineAt := make([]int, len(src)+1)
	ln := 1
	for i := 0; i <= len(src); i++ {
		lineAt[i] = ln
		if i < len(src) && src[i] == '\n' {
			ln++
		}
	}
	toks, _ := hclsyntax.LexConfig(src, "t.hcl", hcl.InitialPos)
	for _, tok := range toks {
		for _, off := range []int{tok.Range.Start.Byte, tok.Range.End.Byte} {
			if off >= 0 && off <= len(src) && t.line[off] == 0 {
				t.tainted[lineAt[off]] = true
			}
		}
	}
	return t
}

// check judges one reported position; "" = consistent or not decidable.
func (t *posTable) check(src []byte, p hcl.Pos) string {
	if p.Byte < 0 || p.Byte > len(src) {
		return fmt.Sprintf("byte offset %d outside the source (%d bytes)", p.Byte, len(src))
	}
	if p.Byte < len(src) && !utf8.RuneStart(src[p.Byte]) && utf8.Valid(src) {
		return fmt.Sprintf("byte offset %d is inside a UTF-8 sequence", p.Byte)
	}
	if t.line[p.Byte] == 0 || t.tainted[t.line[p.Byte]] {
		return "" // inside a grapheme cluster, or on a line where a token boundary splits one: not decidable
	}
	if t.line[p.Byte] != p.Line || t.col[p.Byte] != p.Column {
		return fmt.Sprintf("byte offset %d is reported as line %d column %d, counting newlines and grapheme clusters gives line %d column %d", p.Byte, p.Line, p.Column, t.line[p.Byte], t.col[p.Byte])
	}
	return ""
}

// checkTiling is the C14 invariant over one token stream.
func checkTiling(src []byte, toks hclsyntax.Tokens, start hcl.Pos) (string, string) {
	if len(toks) == 0 {
		return "no tokens at all (not even EOF)", "no-eof"
	}
	base := start.Byte
	pos := 0 // next unconsumed source offset
	if bytes.HasPrefix(src, utf8BOM) {
		pos = 3
	}
	// independent position counter state
	line, col := start.Line, start.Column
	cur := pos
	advance := func(to int) bool {
		// advance the (line,col) counter from cur to to; returns whether `to`
		// is on a grapheme cluster boundary of the source
		onBoundary := true
		for cur < to {
			adv, seg, _ := textseg.ScanGraphemeClusters(src[cur:], true)
			if adv <= 0 {
				adv = 1
			}
			if cur+adv > to {
				onBoundary = false
				// partial cluster: stop counting here; caller skips position checks
				cur = to
				return onBoundary
			}
			if nl := bytes.Count(seg, []byte{'\n'}); nl > 0 {
				// "counting newlines up to the byte offset": every newline byte counts,
				// also one that the segmenter glued to an ill-formed UTF-8 sequence.
				line += nl
				col = 1
				if seg[len(seg)-1] != '\n' {
					// bytes after the newline inside one cluster: the column is
					// not defined by the property; stop judging positions.
					cur += adv
					return false
				}
			} else {
				col++
			}
			cur += adv
		}
		return onBoundary
	}
	aligned := true
	for i, tok := range toks {
		s, e := tok.Range.Start.Byte-base, tok.Range.End.Byte-base
		if s < 0 || e < s || e > len(src) {
			return fmt.Sprintf("token %d (%s) has out-of-range bytes [%d,%d) for source of %d bytes", i, tok.Type, s, e, len(src)), "range-out-of-bounds"
		}
		if s < pos {
			return fmt.Sprintf("token %d (%s) starts at %d before the end %d of its predecessor (overlap or disorder)", i, tok.Type, s, pos), "overlap"
		}
		for _, b := range src[pos:s] {
			if b != ' ' && b != '\t' {
				return fmt.Sprintf("gap before token %d (%s) [%d,%d) contains byte %#x", i, tok.Type, pos, s, b), "gap-not-blank"
			}
		}
		if !bytes.Equal(tok.Bytes, src[s:e]) {
			return fmt.Sprintf("token %d (%s) bytes %q differ from source slice %q", i, tok.Type, trunc(string(tok.Bytes), 80), trunc(string(src[s:e]), 80)), "bytes-mismatch"
		}
		if tok.Type == hclsyntax.TokenEOF && i != len(toks)-1 {
			return fmt.Sprintf("EOF token at index %d of %d", i, len(toks)), "eof-not-last"
		}
		// positions
		if aligned {
			if ok := advance(s); !ok {
				aligned = false
			} else if tok.Range.Start.Line != line || tok.Range.Start.Column != col {
				return fmt.Sprintf("token %d (%s) start reported as line %d col %d, independent count gives line %d col %d (byte %d)", i, tok.Type, tok.Range.Start.Line, tok.Range.Start.Column, line, col, s), "start-pos"
			}
		}
		if aligned {
			if ok := advance(e); !ok {
				aligned = false
			} else if tok.Range.End.Line != line || tok.Range.End.Column != col {
				return fmt.Sprintf("token %d (%s) end reported as line %d col %d, independent count gives line %d col %d (byte %d)", i, tok.Type, tok.Range.End.Line, tok.Range.End.Column, line, col, e), "end-pos"
			}
		}
		if !aligned {
			// resynchronise is not attempted: once a token boundary splits a
			// grapheme cluster later columns are outside the property.
		}
		pos = e
	}
	last := toks[len(toks)-1]
	if last.Type != hclsyntax.TokenEOF {
		return fmt.Sprintf("last token is %s, not EOF", last.Type), "no-eof"
	}
	if last.Range.Start.Byte-base != len(src) || last.Range.End.Byte-base != len(src) {
		return fmt.Sprintf("EOF token at [%d,%d), source length %d", last.Range.Start.Byte-base, last.Range.End.Byte-base, len(src)), "eof-position"
	}
	for _, b := range src[pos:] {
		if b != ' ' && b != '\t' {
			return fmt.Sprintf("trailing gap contains byte %#x", b), "gap-not-blank"
		}
	}
	return "", ""
}

// ---------------------------------------------------------------- range fidelity

func skeleton(e hclsyntax.Expression) string {
	var sb strings.Builder
	depth := 0
	hclsyntax.Walk(e, skelWalker{sb: &sb, depth: &depth})
	return sb.String()
}

type skelWalker struct {
	sb    *strings.Builder
	depth *int
}

func (w skelWalker) Enter(n hclsyntax.Node) hcl.Diagnostics {
	t := reflect.TypeOf(n).String()
	t = strings.TrimPrefix(t, "*hclsyntax.")
	if t == "ParenthesesExpr" {
		return nil
	}
	w.sb.WriteString(t)
	if op, ok := n.(*hclsyntax.BinaryOpExpr); ok {
		fmt.Fprintf(w.sb, "#%p", op.Op)
	}
	w.sb.WriteString("(")
	return nil
}
func (w skelWalker) Exit(n hclsyntax.Node) hcl.Diagnostics {
	if _, ok := n.(*hclsyntax.ParenthesesExpr); ok {
		return nil
	}
	w.sb.WriteString(")")
	return nil
}

func slice(src []byte, r hcl.Range) (string, bool) {
	if r.Start.Byte < 0 || r.End.Byte < r.Start.Byte || r.End.Byte > len(src) {
		return "", false
	}
	return string(src[r.Start.Byte:r.End.Byte]), true
}

func c14Ranges(c *core.Case) {
	r := c.Rng
	body, sc := exprConfig(r, 3, 1, 0.05)
	fl := gen.RandomFileLayout(r)
	fl.BOM = false
	src := []byte(gen.RenderNative(body, fl))
	if gen.Chance(r, 0.1) {
		src = []byte(gen.Pick(r, c14Heredocs))
		c.Count("ranges-source:heredoc-edges")
	}
	c.SetInput(string(src))
	f, diags := hclsyntax.ParseConfig(src, "t.hcl", hcl.InitialPos)
	c.Evals(1)
	if diags.HasErrors() {
		c.Count("ranges-parse-error(skipped; C02 owns this)")
		return
	}
	// every position recorded anywhere in the tree is faithful to its byte offset
	pt := newPosTable(src)
	posBad := ""
	hclsyntax.VisitAll(f.Body.(*hclsyntax.Body), func(n hclsyntax.Node) hcl.Diagnostics {
		if posBad != "" || reflect.ValueOf(n).Kind() != reflect.Ptr {
			return nil
		}
		rng := n.Range()
		if rng.Filename == "" && rng.Start.Byte == 0 && rng.End.Byte == 0 && rng.Start.Line == 0 {
			return nil // no range recorded
		}
		for _, p := range []hcl.Pos{rng.Start, rng.End} {
			if msg := pt.check(src, p); msg != "" {
				posBad = fmt.Sprintf("%T range %v (%q): %s", n, rng, trunc(func() string { s, _ := slice(src, rng); return s }(), 80), msg)
				return nil
			}
		}
		c.Count("node-positions-faithful")
		return nil
	})
	if posBad != "" {
		c.Violation("range/position-not-faithful", posBad, nil)
		return
	}
	ctx := evalCtx(sc)
	nodes := 0
	viol := func(rule, msg string) {
		c.Violation("range/"+rule, msg, nil)
	}
	expect := func(rule string, rng hcl.Range, want string) bool {
		got, ok := slice(src, rng)
		if !ok || got != want {
			viol(rule, fmt.Sprintf("%s range %v slices to %q, expected %q", rule, rng, got, want))
			return false
		}
		c.Count("range-" + rule)
		return true
	}
	var walkBody func(b *hclsyntax.Body) bool
	checkExpr := func(e hclsyntax.Expression, top bool) bool {
		okAll := true
		// collect nodes under template parts / anonymous symbols to skip
		skip := map[hclsyntax.Node]bool{}
		var mark func(n hclsyntax.Node)
		mark = func(n hclsyntax.Node) {
			hclsyntax.VisitAll(n, func(m hclsyntax.Node) hcl.Diagnostics {
				if reflect.ValueOf(m).Kind() == reflect.Ptr {
					skip[m] = true
				}
				return nil
			})
		}
		hclsyntax.VisitAll(e, func(n hclsyntax.Node) hcl.Diagnostics {
			switch t := n.(type) {
			case *hclsyntax.TemplateExpr:
				for _, p := range t.Parts {
					if _, lit := p.(*hclsyntax.LiteralValueExpr); lit {
						skip[p] = true
					}
					if j, ok := p.(*hclsyntax.TemplateJoinExpr); ok {
						skip[j] = true
					}
					if cnd, ok := p.(*hclsyntax.ConditionalExpr); ok {
						// %{if} directive: a conditional whose arms are templates without delimiters
						skip[cnd] = true
						mark(cnd.TrueResult)
						mark(cnd.FalseResult)
						delete(skip, cnd.Condition)
						hclsyntax.VisitAll(cnd.Condition, func(m hclsyntax.Node) hcl.Diagnostics {
							if reflect.ValueOf(m).Kind() == reflect.Ptr {
								delete(skip, m)
							}
							return nil
						})
					}
				}
			case *hclsyntax.TemplateJoinExpr:
				skip[t] = true
				if fe, ok := t.Tuple.(*hclsyntax.ForExpr); ok {
					skip[fe] = true
					mark(fe.ValExpr)
				}
			case *hclsyntax.SplatExpr:
				mark(t.Each)
				skip[t.Item] = true
			case *hclsyntax.ObjectConsKeyExpr:
				skip[t] = true
			case *hclsyntax.AnonSymbolExpr:
				skip[t] = true
			}
			return nil
		})
		hclsyntax.VisitAll(e, func(n hclsyntax.Node) hcl.Diagnostics {
			ex, isExpr := n.(hclsyntax.Expression)
			if !isExpr {
				return nil
			}
			nodes++
			switch t := n.(type) {
			case *hclsyntax.FunctionCallExpr:
				okAll = expect("call-name", t.NameRange, t.Name) && okAll
				okAll = expect("call-open", t.OpenParenRange, "(") && okAll
				okAll = expect("call-close", t.CloseParenRange, ")") && okAll
			case *hclsyntax.IndexExpr:
				okAll = expect("index-open", t.OpenRange, "[") && okAll
				if s, ok := slice(src, t.BracketRange); !ok || !strings.HasPrefix(s, "[") || !strings.HasSuffix(s, "]") {
					viol("index-bracket", fmt.Sprintf("index bracket range %v slices to %q", t.BracketRange, s))
					okAll = false
				}
			case *hclsyntax.TupleConsExpr:
				okAll = expect("tuple-open", t.OpenRange, "[") && okAll
			case *hclsyntax.ObjectConsExpr:
				okAll = expect("object-open", t.OpenRange, "{") && okAll
			case *hclsyntax.ForExpr:
				if !skip[t] {
					if s, ok := slice(src, t.OpenRange); !ok || (s != "[" && s != "{") {
						viol("for-open", fmt.Sprintf("for open range %v slices to %q", t.OpenRange, s))
						okAll = false
					}
					if s, ok := slice(src, t.CloseRange); !ok || (s != "]" && s != "}") {
						viol("for-close", fmt.Sprintf("for close range %v slices to %q", t.CloseRange, s))
						okAll = false
					}
				}
			case *hclsyntax.SplatExpr:
				if s, ok := slice(src, t.MarkerRange); !ok || strings.Map(dropBlank, stripComments(s)) != ".*" && strings.Map(dropBlank, stripComments(s)) != "[*]" {
					viol("splat-marker", fmt.Sprintf("splat marker range %v slices to %q", t.MarkerRange, s))
					okAll = false
				}
			case *hclsyntax.UnaryOpExpr:
				if s, ok := slice(src, t.SymbolRange); !ok || (s != "-" && s != "!") {
					viol("unary-symbol", fmt.Sprintf("unary symbol range %v slices to %q", t.SymbolRange, s))
					okAll = false
				}
			}
			if reflect.ValueOf(n).Kind() != reflect.Ptr || skip[n] {
				return nil
			}
			s, ok := slice(src, ex.Range())
			if !ok {
				viol("expr-out-of-bounds", fmt.Sprintf("%T range %v outside source", n, ex.Range()))
				okAll = false
				return nil
			}
			sub, pd := hclsyntax.ParseExpression([]byte(s+"\n"), "slice.hcl", hcl.InitialPos)
			c.Evals(1)
			if pd.HasErrors() {
				viol("expr-reparse/"+strings.TrimPrefix(fmt.Sprintf("%T", n), "*hclsyntax."), fmt.Sprintf("%T range %v slices to %q which does not re-parse: %s", n, ex.Range(), trunc(s, 300), diagStr(pd)))
				okAll = false
				return nil
			}
			if a, b := skeleton(ex), skeleton(sub); a != b {
				viol("expr-skeleton/"+strings.TrimPrefix(fmt.Sprintf("%T", n), "*hclsyntax."), fmt.Sprintf("%T range slices to %q which re-parses to a different shape:\n orig  %s\n slice %s", n, trunc(s, 300), trunc(a, 400), trunc(b, 400)))
				okAll = false
				return nil
			}
			c.Count("expr-slices-reparsed")
			return nil
		})
		if top && okAll {
			s, _ := slice(src, e.Range())
			sub, pd := hclsyntax.ParseExpression([]byte(s+"\n"), "slice.hcl", hcl.InitialPos)
			if !pd.HasErrors() {
				v1, d1 := e.Value(ctx)
				v2, d2 := sub.Value(ctx)
				c.Evals(2)
				if d1.HasErrors() != d2.HasErrors() || (!d1.HasErrors() && !sameVal(v1, v2)) {
					viol("expr-value", fmt.Sprintf("attribute expression %q evaluates to %s (%s) but its range slice to %s (%s)", trunc(s, 300), valStr(v1), diagStr(d1), valStr(v2), diagStr(d2)))
					okAll = false
				} else {
					c.Count("top-exprs-evaluated-equal")
				}
			}
		}
		return okAll
	}
	walkBody = func(b *hclsyntax.Body) bool {
		for name, a := range b.Attributes {
			if !expect("attr-name", a.NameRange, name) {
				return false
			}
			if !expect("attr-equals", a.EqualsRange, "=") {
				return false
			}
			if !checkExpr(a.Expr, true) {
				return false
			}
			if s, ok := slice(src, a.SrcRange); !ok || !strings.HasPrefix(s, name) {
				viol("attr-src", fmt.Sprintf("attribute %s SrcRange slices to %q", name, trunc(s, 200)))
				return false
			}
		}
		for _, blk := range b.Blocks {
			if !expect("block-type", blk.TypeRange, blk.Type) {
				return false
			}
			if !expect("block-open", blk.OpenBraceRange, "{") {
				return false
			}
			if !expect("block-close", blk.CloseBraceRange, "}") {
				return false
			}
			if len(blk.LabelRanges) != len(blk.Labels) {
				viol("label-count", fmt.Sprintf("block %s has %d labels and %d label ranges", blk.Type, len(blk.Labels), len(blk.LabelRanges)))
				return false
			}
			for i, lr := range blk.LabelRanges {
				s, ok := slice(src, lr)
				if !ok {
					viol("label-range", "label range outside source")
					return false
				}
				if s == blk.Labels[i] && hclsyntax.ValidIdentifier(s) {
					c.Count("range-label-bare")
					continue
				}
				le, pd := hclsyntax.ParseExpression([]byte(s), "label.hcl", hcl.InitialPos)
				bad := pd.HasErrors() || !strings.HasPrefix(s, "\"") || !strings.HasSuffix(s, "\"")
				if !bad {
					// labels are string literals: template introducers are literal text only when escaped
					v, vd := le.Value(nil)
					if vd.HasErrors() || v.Type() != cty.String || nfc(v.AsString()) != nfc(blk.Labels[i]) {
						bad = true
					}
				}
				if bad {
					viol("label-range", fmt.Sprintf("label %d of block %s is %q but its range slices to %q", i, blk.Type, blk.Labels[i], s))
					return false
				}
				c.Count("range-label-quoted")
			}
			if !walkBody(blk.Body) {
				return false
			}
		}
		return true
	}
	walkBody(f.Body.(*hclsyntax.Body))
	if nodes >= 3 {
		c.NonTrivial(string(src))
	}
	if c.WantSample() {
		c.Sample(map[string]any{"kind": "ranges", "src": trunc(string(src), 400), "expr_nodes": nodes})
	}
}

func dropBlank(r rune) rune {
	if r == ' ' || r == '\t' || r == '\n' || r == '\r' {
		return -1
	}
	return r
}

// stripComments removes /* */ and line comments from a short source fragment.
func stripComments(s string) string {
	var sb strings.Builder
	for i := 0; i < len(s); i++ {
		if strings.HasPrefix(s[i:], "/*") {
			if j := strings.Index(s[i+2:], "*/"); j >= 0 {
				i += j + 3
				continue
			}
		}
		if s[i] == '#' || strings.HasPrefix(s[i:], "//") {
			if j := strings.IndexByte(s[i:], '\n'); j >= 0 {
				i += j
				continue
			}
			break
		}
		sb.WriteByte(s[i])
	}
	return sb.String()
}

// sameVal compares two results including marks and unknown-ness.
func sameVal(a, b cty.Value) bool {
	if a == cty.NilVal || b == cty.NilVal {
		return a == b
	}
	return a.RawEquals(b)
}
