package mon

import (
	"fmt"
	"math/rand"
	"sort"
	"strings"

	"github.com/hashicorp/hcl/v2"
	"github.com/hashicorp/hcl/v2/ext/tryfunc"
	"github.com/zclconf/go-cty/cty"
	"github.com/zclconf/go-cty/cty/function"
	"golang.org/x/text/unicode/norm"

	"verifharness/core"
	"verifharness/gen"
)

var stdFuncSpecs = gen.StdFuncs()
var stdCtyFuncs = func() map[string]function.Function {
	m := gen.CtyFuncs(stdFuncSpecs)
	// functions whose arguments are handed over as unevaluated expressions
	// (ext/customdecode): the generators do not call them, directed programs do
	m["try"] = tryfunc.TryFunc
	m["can"] = tryfunc.CanFunc
	return m
}()

// evalCtx builds an hcl.EvalContext for a scope with the harness function table.
func evalCtx(s *gen.Scope) *hcl.EvalContext {
	vars := map[string]cty.Value{}
	for k, v := range s.Vars {
		vars[k] = v
	}
	return &hcl.EvalContext{Variables: vars, Functions: stdCtyFuncs}
}

// chainCtx spreads a scope over a chain root -> (empty) -> leaf: every variable
// and every function lives in the root or in the leaf; some leaf variables have
// a decoy of the same name in the root.
func chainCtx(r *rand.Rand, s *gen.Scope) *hcl.EvalContext {
	root := &hcl.EvalContext{Variables: map[string]cty.Value{}, Functions: map[string]function.Function{}}
	mid := root.NewChild()
	if gen.Chance(r, 0.5) {
		mid.Variables = map[string]cty.Value{}
	}
	if gen.Chance(r, 0.3) {
		mid.Functions = map[string]function.Function{}
	}
	leaf := mid.NewChild()
	leaf.Variables = map[string]cty.Value{}
	leaf.Functions = map[string]function.Function{}
	for _, n := range s.Names {
		v, ok := s.Vars[n]
		if !ok {
			continue
		}
		switch r.Intn(3) {
		case 0:
			root.Variables[n] = v
		case 1:
			leaf.Variables[n] = v
		default:
			leaf.Variables[n] = v
			root.Variables[n] = cty.StringVal("decoy-in-the-root-context")
		}
	}
	var fnames []string
	for n := range stdCtyFuncs {
		fnames = append(fnames, n)
	}
	sort.Strings(fnames)
	for _, n := range fnames {
		if gen.Chance(r, 0.5) {
			root.Functions[n] = stdCtyFuncs[n]
		} else {
			leaf.Functions[n] = stdCtyFuncs[n]
		}
	}
	return leaf
}

func ctxWith(vars map[string]cty.Value) *hcl.EvalContext {
	return &hcl.EvalContext{Variables: vars, Functions: map[string]function.Function(stdCtyFuncs)}
}

// diagStr renders diagnostics compactly for messages.
func diagStr(d hcl.Diagnostics) string {
	var parts []string
	for _, x := range d {
		sev := "error"
		if x.Severity == hcl.DiagWarning {
			sev = "warning"
		}
		rng := ""
		if x.Subject != nil {
			rng = fmt.Sprintf("@%d-%d", x.Subject.Start.Byte, x.Subject.End.Byte)
		}
		parts = append(parts, fmt.Sprintf("%s:%s%s: %s", sev, x.Summary, rng, x.Detail))
	}
	return strings.Join(parts, " | ")
}

func summaries(d hcl.Diagnostics) []string {
	var out []string
	for _, x := range d {
		if x.Severity == hcl.DiagError {
			out = append(out, x.Summary)
		}
	}
	sort.Strings(out)
	return out
}

func valStr(v cty.Value) string {
	if v == cty.NilVal {
		return "NilVal"
	}
	return trunc(v.GoString(), 600)
}

// nfc normalises a string the way HCL strings are normalised (spec.md: strings
// are NFC-normalised sequences of Unicode characters).
func nfc(s string) string { return norm.NFC.String(s) }

func trunc(s string, n int) string {
	if len(s) > n {
		return s[:n] + "..."
	}
	return s
}

func scopeStr(s *gen.Scope) string {
	var sb strings.Builder
	for _, n := range s.Names {
		fmt.Fprintf(&sb, "%s=%s; ", n, trunc(s.Vars[n].GoString(), 200))
	}
	return sb.String()
}

// exprConfig generates a configuration whose attribute values are full
// expressions over a scope; returns the abstract tree and the scope.
func exprConfig(r *rand.Rand, depth int, strLevel int, eps float64) (*gen.Body, *gen.Scope) {
	sc := gen.NewScope(r, gen.ValOpts{StrLevel: strLevel})
	g := gen.NewG(r, sc, eps)
	g.StrLevel = strLevel
	o := gen.BodyOpts{MaxDepth: 3, MaxItems: 5, MaxLabels: 2, LabelLevel: 2, ExprFn: func(r *rand.Rand) *gen.Node {
		e := g.Expr(gen.WAny, 1+r.Intn(depth))
		gen.FixTemplates(e)
		gen.FixDollar(e)
		return e
	}}
	return gen.GenBody(r, o, 0), sc
}

// pickSeed returns an input for mutation: a rendered generated config, a
// rendered expression, or a repository corpus file.
func pickSeed(c *core.Case, json bool) []byte {
	r := c.Rng
	nat, js := gen.RepoCorpus()
	if json {
		if len(js) > 0 && gen.Chance(r, 0.5) {
			return gen.Pick(r, js)
		}
		return []byte(gen.RandomJSON(r, 3))
	}
	switch r.Intn(4) {
	case 0:
		if len(nat) > 0 {
			return gen.Pick(r, nat)
		}
		fallthrough
	case 1:
		sc := gen.NewScope(r, gen.ValOpts{StrLevel: 2})
		g := gen.NewG(r, sc, 0.2)
		g.StrLevel = 2
		e := g.Expr(gen.WAny, 3)
		gen.FixTemplates(e)
		gen.FixDollar(e)
		return []byte("a = " + gen.RenderExpr(e, gen.RandomLayout(r)) + "\n")
	default:
		b, _ := exprConfig(r, 3, 2, 0.2)
		return []byte(gen.RenderNative(b, gen.RandomFileLayout(r)))
	}
}
