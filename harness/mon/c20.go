package mon

import (
	"fmt"
	"math/rand"
	"sort"
	"strings"

	"github.com/hashicorp/hcl/v2"
	"github.com/hashicorp/hcl/v2/ext/typeexpr"
	"github.com/hashicorp/hcl/v2/hclsyntax"
	hcljson "github.com/hashicorp/hcl/v2/json"
	"github.com/zclconf/go-cty/cty"
	"github.com/zclconf/go-cty/cty/convert"

	"verifharness/core"
	"verifharness/gen"
)

func init() {
	Register(&Spec{
		ID:        "C20",
		Technique: "runtime monitoring: agreement monitors between the static views of an expression (traversal, list, map, call, type constraint) and its evaluation / its parsers, in both syntaxes",
		Rule: "cases rotate over (a) traversal-shaped source texts (attribute, string/number index, legacy index, keyword roots, spacing/newlines/comments between steps, parentheses) whose static traversal is applied to generated scopes and compared with evaluation, incl. the relative view, repeated and in either order; (b) the same texts through the stand-alone traversal parser vs the expression parser; (c) tuple/object/call expressions (native and JSON) whose static parts are evaluated one by one and compared with the whole, and for any expression (random JSON values, random native expressions) whatever static list/map view it offers must describe the value it evaluates to; (d) generated cty types rendered with TypeString and parsed back natively and from a JSON string; " +
			"non-trivial = the static view succeeded and had >= 2 steps / parts, or the type has depth >= 2; distinct by source text",
		Assumptions: []string{"cty value equality", "types are drawn from the type-constraint language: primitives, any, list/set/map, tuple, object with identifier attribute names (keywords, combining marks, connector punctuation and letter numbers included), no optional attributes"},
		Quick:       Plan{Batches: 16, PerBatch: 2500, MinNonTrivial: 10000},
		Thorough:    Plan{Batches: 64, PerBatch: 80000, MinNonTrivial: 400000},
		Case:        c20Case,
	})
}

func c20Case(c *core.Case) {
	switch c.Index % 4 {
	case 0:
		c20Traversal(c)
	case 1:
		c20TraversalParsers(c)
	case 2:
		c20Parts(c)
	default:
		c20Types(c)
	}
}

// travText renders a traversal-shaped source text with layout noise.
// inParens says whether newlines may be used (the text is then wrapped).
func travText(r *rand.Rand, hostile bool) (string, []string) {
	roots := []string{"foo", "a", "obj", "lst", "x9", "a-b", "é"}
	if hostile {
		roots = append(roots, "true", "false", "null")
	}
	root := gen.Pick(r, roots)
	var sb strings.Builder
	sb.WriteString(root)
	gap := func() string {
		if gen.Chance(r, 0.7) {
			return ""
		}
		return gen.Pick(r, []string{" ", "  ", "\t", " /* c */ ", "/**/"})
	}
	n := r.Intn(5)
	prevLegacy := false
	for i := 0; i < n; i++ {
		k := r.Intn(7)
		if prevLegacy && k == 3 && !(hostile && gen.Chance(r, 0.5)) {
			// (directly chained legacy indexes, foo.0.1, lex as one fractional number:
			// only the hostile texts keep them)
			k = 0
		}
		prevLegacy = false
		switch k {
		case 0, 1:
			sb.WriteString(gap() + "." + gap() + gen.Pick(r, []string{"b", "bar", "id", "name", "c", "a-b", "é", "for", "null"}))
		case 2:
			sb.WriteString(gap() + "[" + gap() + fmt.Sprintf("%q", gen.Pick(r, []string{"b", "k", "a b", "", "0", "id", "a$b", "100%"})) + gap() + "]")
		case 3:
			if gen.Chance(r, 0.2) {
				sb.WriteString("." + gen.Pick(r, []string{"010", "00", "012", "08", "0017"}))
			} else {
				sb.WriteString("." + fmt.Sprint(r.Intn(3)))
			}
			prevLegacy = true
		case 4:
			sb.WriteString(gap() + "[" + gap() + gen.Pick(r, []string{"0", "1", "2", "00", "1.0", "1e0", "0.5", "010", "012", "0017", "08", "0010.0", "01e1"}) + gap() + "]")
		case 5:
			if hostile {
				sb.WriteString(gap() + "[" + gen.Pick(r, []string{"true", "null", "\"${x}\"", "k", "0 + 1", "-1", "\"a\" \"b\""}) + "]")
			} else {
				sb.WriteString(".id")
			}
		default:
			sb.WriteString(gap() + "[" + gap() + "\"" + gen.Pick(r, []string{"k1", "b"}) + "\"" + gap() + "]")
		}
	}
	return sb.String(), []string{root}
}

func travScopeValue(r *rand.Rand, depth int) cty.Value {
	if depth <= 0 {
		return gen.Pick(r, []cty.Value{cty.StringVal("leaf"), cty.NumberIntVal(7), cty.True, cty.NullVal(cty.String)})
	}
	switch r.Intn(6) {
	case 0:
		n := 1 + r.Intn(3)
		vs := make([]cty.Value, n)
		ety := travScopeValue(r, depth-1)
		for i := range vs {
			vs[i] = ety
		}
		return cty.ListVal(vs)
	case 1:
		return cty.TupleVal([]cty.Value{travScopeValue(r, depth-1), travScopeValue(r, depth-1), travScopeValue(r, depth-1)})
	case 2:
		ev := travScopeValue(r, depth-1)
		return cty.MapVal(map[string]cty.Value{"b": ev, "k": ev, "0": ev, "id": ev, "k1": ev, "": ev, "a b": ev, "1": ev, "a$b": ev})
	case 3, 4:
		m := map[string]cty.Value{}
		for _, k := range []string{"b", "bar", "id", "name", "c", "a-b", "é", "for", "null", "k", "0", "1", "2", "k1", "a b", "", "a$b", "100%"} {
			if gen.Chance(r, 0.7) {
				m[k] = travScopeValue(r, depth-1)
			}
		}
		if len(m) == 0 {
			return cty.EmptyObjectVal
		}
		return cty.ObjectVal(m)
	default:
		return gen.Pick(r, []cty.Value{cty.StringVal("leaf"), cty.NumberIntVal(7), cty.NullVal(cty.DynamicPseudoType), cty.UnknownVal(cty.Map(cty.String)), cty.DynamicVal, cty.StringVal("m").Mark("M")})
	}
}

func stepsSig(t hcl.Traversal) string {
	var sb strings.Builder
	for _, s := range t {
		switch st := s.(type) {
		case hcl.TraverseRoot:
			sb.WriteString("root:" + st.Name)
		case hcl.TraverseAttr:
			sb.WriteString(".attr:" + st.Name)
		case hcl.TraverseIndex:
			sb.WriteString(".index:" + st.Key.GoString())
		case hcl.TraverseSplat:
			sb.WriteString(".splat")
		}
		sb.WriteString(";")
	}
	return sb.String()
}

func c20Traversal(c *core.Case) {
	r := c.Rng
	text, _ := travText(r, gen.Chance(r, 0.3))
	wrapped := text
	if gen.Chance(r, 0.25) {
		wrapped = "(" + text + ")"
	}
	c.SetInput(wrapped)
	e, pd := hclsyntax.ParseExpression([]byte(wrapped), "t.hcl", hcl.InitialPos)
	c.Evals(1)
	if pd.HasErrors() {
		c.Count("traversal:text-not-an-expression")
		return
	}
	order := r.Intn(3) // exercise the views in different orders and repeatedly
	var rel hcl.Traversal
	var reld hcl.Diagnostics
	if order == 0 {
		rel, reld = hcl.RelTraversalForExpr(e)
	}
	t, d := hcl.AbsTraversalForExpr(e)
	if d.HasErrors() {
		c.Count("traversal:static-view-declined")
		return
	}
	if order != 0 {
		rel, reld = hcl.RelTraversalForExpr(e)
	}
	t2, d2 := hcl.AbsTraversalForExpr(e)
	if d2.HasErrors() || stepsSig(t) != stepsSig(t2) {
		c.Violation("traversal/static-view-unstable", fmt.Sprintf("%q: AbsTraversalForExpr gives %s first and %s (errors=%v) after RelTraversalForExpr was used", wrapped, stepsSig(t), stepsSig(t2), d2.HasErrors()), nil)
		return
	}
	c.Count("traversal:static-view-ok")
	if rn := t.RootName(); rn == "true" || rn == "false" || rn == "null" {
		// hclsyntax/spec.md "Static Traversal": the keywords are deliberately read as
		// variable references by the static view, unlike evaluation
		c.Count("traversal:keyword-root(spec'd deviation, not compared)")
		return
	}
	for k := 0; k < 4; k++ {
		rootVal := travScopeValue(r, 3)
		vars := map[string]cty.Value{t.RootName(): rootVal}
		if gen.Chance(r, 0.15) {
			vars = map[string]cty.Value{}
		}
		ctx := ctxWith(vars)
		ev, ed := e.Value(ctx)
		tv, td := t.TraverseAbs(ctx)
		c.Evals(2)
		if ed.HasErrors() != td.HasErrors() {
			c.Violation("traversal/error-ness-differs", fmt.Sprintf("%q with %s = %s: evaluation errors=%v (%s) but applying the static traversal errors=%v (%s)", wrapped, t.RootName(), valStr(rootVal), ed.HasErrors(), diagStr(ed), td.HasErrors(), diagStr(td)), nil)
			return
		}
		if !ed.HasErrors() && !sameVal(ev, tv) {
			c.Violation("traversal/value-differs", fmt.Sprintf("%q with %s = %s: evaluation gives %s, the static traversal gives %s", wrapped, t.RootName(), valStr(rootVal), valStr(ev), valStr(tv)), nil)
			return
		}
		c.Count("traversal:apply-vs-eval-agreed")
		if !reld.HasErrors() && len(vars) > 0 {
			// the relative view turns the root name into an attribute step: apply it
			// to an object that holds the root variable under that name
			rv, rd := rel.TraverseRel(cty.ObjectVal(map[string]cty.Value{t.RootName(): rootVal}))
			c.Evals(1)
			if rd.HasErrors() != ed.HasErrors() || (!rd.HasErrors() && !sameVal(rv, ev)) {
				c.Violation("traversal/relative-view-differs", fmt.Sprintf("%q with root value %s: evaluation gives %s (errors=%v), the relative traversal applied to {root = value} gives %s (errors=%v)", wrapped, valStr(rootVal), valStr(ev), ed.HasErrors(), valStr(rv), rd.HasErrors()), nil)
				return
			}
			c.Count("traversal:relative-view-agreed")
		}
	}
	// the expression must still evaluate after its static views were taken
	if _, d3 := hcl.AbsTraversalForExpr(e); d3.HasErrors() {
		c.Violation("traversal/static-view-unstable", fmt.Sprintf("%q: AbsTraversalForExpr fails on a later call: %s", wrapped, diagStr(d3)), nil)
		return
	}
	if len(t) >= 2 {
		c.NonTrivial("trav:" + wrapped)
	}
	if c.WantSample() {
		c.Sample(map[string]any{"kind": "traversal", "text": wrapped, "steps": stepsSig(t)})
	}
}

func c20TraversalParsers(c *core.Case) {
	r := c.Rng
	text, _ := travText(r, gen.Chance(r, 0.5))
	c.SetInput(text)
	t, d := hclsyntax.ParseTraversalAbs([]byte(text), "t.hcl", hcl.InitialPos)
	c.Evals(1)
	if d.HasErrors() {
		c.Count("parsers:standalone-parser-declined")
		return
	}
	e, pd := hclsyntax.ParseExpression([]byte(text), "t.hcl", hcl.InitialPos)
	c.Evals(1)
	if pd.HasErrors() {
		c.Violation("parsers/expression-parser-rejects", fmt.Sprintf("%q is accepted by ParseTraversalAbs but ParseExpression reports: %s", text, diagStr(pd)), nil)
		return
	}
	et, ed := hcl.AbsTraversalForExpr(e)
	if ed.HasErrors() {
		c.Violation("parsers/expression-not-a-traversal", fmt.Sprintf("%q is accepted by ParseTraversalAbs (%s) but the parsed expression has no static traversal: %s", text, stepsSig(t), diagStr(ed)), nil)
		return
	}
	if stepsSig(t) != stepsSig(et) {
		c.Violation("parsers/steps-differ", fmt.Sprintf("%q: ParseTraversalAbs gives %s, the expression parser gives %s", text, stepsSig(t), stepsSig(et)), nil)
		return
	}
	c.Count("parsers:agreed")
	// the JSON syntax's string-as-traversal view uses the stand-alone parser too
	je, jd := hcljson.ParseExpression([]byte(gen.JSONQuote(nil, text)), "t.json")
	if !jd.HasErrors() {
		if jt, jtd := hcl.AbsTraversalForExpr(je); !jtd.HasErrors() {
			if stepsSig(jt) != stepsSig(t) {
				c.Violation("parsers/json-steps-differ", fmt.Sprintf("%q: as a JSON string its static traversal is %s, natively %s", text, stepsSig(jt), stepsSig(t)), nil)
				return
			}
			c.Count("parsers:json-agreed")
		}
	}
	if len(t) >= 2 {
		c.NonTrivial("parsers:" + text)
	}
}

// c20ViewsDescribe: whatever static list / map view an expression offers must
// describe the value the expression evaluates to (a list view: a tuple of that
// many elements; a map view: an object with exactly those attributes).
func c20ViewsDescribe(c *core.Case, e hcl.Expression, src string, whole cty.Value, wd hcl.Diagnostics, ctx *hcl.EvalContext) bool {
	if wd.HasErrors() || !whole.IsKnown() {
		return true
	}
	uw := unmarked(whole)
	if parts, d := hcl.ExprList(e); !d.HasErrors() {
		if !uw.Type().IsTupleType() || uw.LengthInt() != len(parts) {
			c.Violation("parts/list-view-of-a-non-list", fmt.Sprintf("%s: ExprList offers %d elements but the expression evaluates to %s", trunc(src, 300), len(parts), valStr(whole)), nil)
			return false
		}
		c.Count("parts:list-view-describes-value")
	} else {
		c.Count("parts:no-list-view")
	}
	if pairs, d := hcl.ExprMap(e); !d.HasErrors() {
		// (the native object constructor lets a later pair replace an earlier one with the same key)
		if !uw.Type().IsObjectType() || len(uw.Type().AttributeTypes()) > len(pairs) || (len(pairs) > 0 && len(uw.Type().AttributeTypes()) == 0) {
			c.Violation("parts/map-view-of-a-non-map", fmt.Sprintf("%s: ExprMap offers %d pairs but the expression evaluates to %s", trunc(src, 300), len(pairs), valStr(whole)), nil)
			return false
		}
		for i, kv := range pairs {
			kval, kd := kv.Key.Value(ctx)
			if kd.HasErrors() || !kval.IsKnown() || kval.IsNull() {
				continue
			}
			ks, err := convert.Convert(unmarked(kval), cty.String)
			if err != nil || !uw.Type().HasAttribute(ks.AsString()) {
				c.Violation("parts/map-view-of-a-non-map", fmt.Sprintf("%s: static key %d evaluates to %s, which is not an attribute of the whole %s", trunc(src, 300), i, valStr(kval), valStr(whole)), nil)
				return false
			}
		}
		c.Count("parts:map-view-describes-value")
	} else {
		c.Count("parts:no-map-view")
	}
	return true
}

// c20AnyExpr: arbitrary expressions (not only constructors) in both syntaxes.
func c20AnyExpr(c *core.Case, g *gen.G, sc *gen.Scope) {
	r := c.Rng
	var e hcl.Expression
	var src string
	if gen.Chance(r, 0.5) {
		src = gen.RandomJSON(r, 3)
		if hugeExp.MatchString(src) {
			return
		}
		je, d := hcljson.ParseExpression([]byte(src), "p.json")
		if d.HasErrors() {
			return
		}
		e = je
		c.Count("parts:any-json-value")
	} else {
		ast := g.Expr(gen.WAny, 3)
		gen.FixTemplates(ast)
		gen.FixDollar(ast)
		src = gen.RenderExpr(ast, gen.RandomLayout(r))
		he, d := hclsyntax.ParseExpression([]byte(src), "p.hcl", hcl.InitialPos)
		if d.HasErrors() {
			return
		}
		e = he
		c.Count("parts:any-native-expression")
	}
	c.SetInput(src + "\nSCOPE: " + scopeStr(sc))
	ctx := evalCtx(sc)
	whole, wd := e.Value(ctx)
	c.Evals(1)
	if c20ViewsDescribe(c, e, src, whole, wd, ctx) && !wd.HasErrors() {
		c.NonTrivial("parts-any:" + src)
	}
}

func c20Parts(c *core.Case) {
	r := c.Rng
	sc := gen.NewScope(r, gen.ValOpts{StrLevel: 1})
	g := gen.NewG(r, sc, 0.05)
	g.StrLevel = 1
	g.NoHostileKeys = true
	if c.Index%16 == 2 {
		c20AnyExpr(c, g, sc)
		return
	}
	var ast *gen.Node
	kind := r.Intn(3)
	switch kind {
	case 0:
		ast = &gen.Node{Kind: gen.KTuple}
		for i := r.Intn(4); i > 0; i-- {
			ast.Kids = append(ast.Kids, g.Expr(gen.WAny, 2))
		}
	case 1:
		ast = &gen.Node{Kind: gen.KObject}
		used := map[string]bool{}
		for i := r.Intn(4); i > 0; i-- {
			name := gen.Pick(r, gen.AttrNames())
			if used[name] {
				continue
			}
			used[name] = true
			form := gen.KeyIdent
			key := gen.ObjKey{Form: form, Name: name}
			if gen.Chance(r, 0.3) {
				key = gen.ObjKey{Form: gen.KeyQuoted, Expr: gen.StrLit(name)}
			}
			ast.Keys = append(ast.Keys, key)
			ast.Kids = append(ast.Kids, g.Expr(gen.WAny, 2))
		}
	default:
		ast = &gen.Node{Kind: gen.KCall, Name: gen.Pick(r, []string{"tup", "id", "coalesce", "join"})}
		n := 1 + r.Intn(3)
		if ast.Name == "id" {
			n = 1
		}
		for i := 0; i < n; i++ {
			w := gen.WAny
			if ast.Name == "join" {
				w = gen.WStr
			}
			ast.Kids = append(ast.Kids, g.Expr(w, 2))
		}
	}
	gen.FixTemplates(ast)
	gen.FixDollar(ast)
	native := gen.RenderExpr(ast, gen.RandomLayout(r))
	var e hcl.Expression
	src := native
	useJSON := kind != 2 && gen.Chance(r, 0.3)
	if useJSON {
		// JSON arrays / objects whose members are template strings
		var parts []string
		for i, k := range ast.Kids {
			q := gen.JSONQuote(nil, "${"+gen.RenderExpr(k, &gen.Layout{})+"}")
			if kind == 1 {
				name := ast.Keys[i].Name
				if ast.Keys[i].Form == gen.KeyQuoted {
					name = ast.Keys[i].Expr.Str
				}
				if gen.Chance(r, 0.4) {
					// property names are templates too: interpolation, directives, escapes
					name = gen.Pick(r, []string{"%{ if f }yes%{ else }no%{ endif }", "k%%{x}", "${t}-k", "$${lit}", "%{ for v in [1, 2] }r${v}%{ endfor }", "%{ if !f }a%{ endif }b", "p%{~ if f } q %{~ endif }"}) + fmt.Sprint(i)
					c.Count("parts:json-template-key")
				}
				parts = append(parts, gen.JSONQuote(nil, name)+": "+q)
			} else {
				parts = append(parts, q)
			}
		}
		if kind == 1 {
			src = "{" + strings.Join(parts, ", ") + "}"
		} else {
			src = "[" + strings.Join(parts, ", ") + "]"
		}
		if strings.Contains(src, "\\n") {
			return
		}
		je, d := hcljson.ParseExpression([]byte(src), "p.json")
		if d.HasErrors() {
			return
		}
		e = je
	} else {
		he, d := hclsyntax.ParseExpression([]byte(native), "p.hcl", hcl.InitialPos)
		if d.HasErrors() {
			return
		}
		e = he
	}
	c.SetInput(src + "\nSCOPE: " + scopeStr(sc))
	ctx := evalCtx(sc)
	whole, wd := e.Value(ctx)
	c.Evals(1)
	if !c20ViewsDescribe(c, e, src, whole, wd, ctx) {
		return
	}
	switch kind {
	case 0:
		parts, d := hcl.ExprList(e)
		if d.HasErrors() {
			if strings.HasPrefix(strings.TrimSpace(src), "(") || strings.HasPrefix(strings.TrimSpace(stripComments(src)), "(") {
				c.Count("parts:static-view-declined(parenthesised)")
				return
			}
			c.Violation("parts/list-view-declined", fmt.Sprintf("%s: ExprList fails on a tuple constructor: %s", trunc(src, 300), diagStr(d)), nil)
			return
		}
		if len(parts) != len(ast.Kids) {
			c.Violation("parts/list-length", fmt.Sprintf("%s: ExprList has %d elements, the source has %d", trunc(src, 300), len(parts), len(ast.Kids)), nil)
			return
		}
		if wd.HasErrors() {
			c.Count("parts:whole-has-errors")
			return
		}
		uw := unmarked(whole)
		for i, p := range parts {
			pv, pdg := p.Value(ctx)
			c.Evals(1)
			if pdg.HasErrors() {
				c.Violation("parts/list-element-errors", fmt.Sprintf("%s: the whole evaluates but static element %d fails: %s", trunc(src, 300), i, diagStr(pdg)), nil)
				return
			}
			if !sameVal(unmarked(pv), unmarked(uw.Index(cty.NumberIntVal(int64(i))))) {
				c.Violation("parts/list-element-differs", fmt.Sprintf("%s: static element %d evaluates to %s but the whole has %s there", trunc(src, 300), i, valStr(pv), valStr(uw.Index(cty.NumberIntVal(int64(i))))), nil)
				return
			}
		}
		c.Count("parts:list-agreed")
	case 1:
		pairs, d := hcl.ExprMap(e)
		if d.HasErrors() {
			if strings.HasPrefix(strings.TrimSpace(src), "(") || strings.HasPrefix(strings.TrimSpace(stripComments(src)), "(") {
				c.Count("parts:static-view-declined(parenthesised)")
				return
			}
			c.Violation("parts/map-view-declined", fmt.Sprintf("%s: ExprMap fails on an object constructor: %s", trunc(src, 300), diagStr(d)), nil)
			return
		}
		if len(pairs) != len(ast.Kids) {
			c.Violation("parts/map-length", fmt.Sprintf("%s: ExprMap has %d pairs, the source has %d", trunc(src, 300), len(pairs), len(ast.Kids)), nil)
			return
		}
		if wd.HasErrors() {
			c.Count("parts:whole-has-errors")
			return
		}
		uw := unmarked(whole)
		for i, kv := range pairs {
			kval, kd := kv.Key.Value(ctx)
			vval, vd := kv.Value.Value(ctx)
			c.Evals(2)
			if kd.HasErrors() || vd.HasErrors() {
				c.Violation("parts/map-pair-errors", fmt.Sprintf("%s: the whole evaluates but static pair %d fails: %s %s", trunc(src, 300), i, diagStr(kd), diagStr(vd)), nil)
				return
			}
			ks := unmarked(kval)
			if ks.Type() != cty.String || !uw.Type().IsObjectType() || !uw.Type().HasAttribute(ks.AsString()) {
				c.Violation("parts/map-key-differs", fmt.Sprintf("%s: static key %d evaluates to %s, which is not an attribute of the whole %s", trunc(src, 300), i, valStr(kval), valStr(whole)), nil)
				return
			}
			if !sameVal(unmarked(vval), unmarked(uw.GetAttr(ks.AsString()))) {
				c.Violation("parts/map-value-differs", fmt.Sprintf("%s: static value for key %q evaluates to %s but the whole has %s", trunc(src, 300), ks.AsString(), valStr(vval), valStr(uw.GetAttr(ks.AsString()))), nil)
				return
			}
		}
		c.Count("parts:map-agreed")
	default:
		call, d := hcl.ExprCall(e)
		if d.HasErrors() {
			if strings.HasPrefix(strings.TrimSpace(src), "(") || strings.HasPrefix(strings.TrimSpace(stripComments(src)), "(") {
				c.Count("parts:static-view-declined(parenthesised)")
				return
			}
			c.Violation("parts/call-view-declined", fmt.Sprintf("%s: ExprCall fails on a function call: %s", trunc(src, 300), diagStr(d)), nil)
			return
		}
		if call.Name != ast.Name || len(call.Arguments) != len(ast.Kids) {
			c.Violation("parts/call-shape", fmt.Sprintf("%s: ExprCall gives %s with %d arguments, the source calls %s with %d", trunc(src, 300), call.Name, len(call.Arguments), ast.Name, len(ast.Kids)), nil)
			return
		}
		if wd.HasErrors() {
			c.Count("parts:whole-has-errors")
			return
		}
		var args []cty.Value
		for i, a := range call.Arguments {
			av, ad := a.Value(ctx)
			c.Evals(1)
			if ad.HasErrors() {
				c.Violation("parts/call-argument-errors", fmt.Sprintf("%s: the whole evaluates but static argument %d fails: %s", trunc(src, 300), i, diagStr(ad)), nil)
				return
			}
			args = append(args, av)
		}
		// recompute the call from the statically extracted arguments
		fn := stdCtyFuncs[call.Name]
		if call.Name == "join" {
			// join takes strings: apply the parameter conversion the call itself applies
			for i := range args {
				if cv, err := convert.Convert(args[i], cty.String); err == nil {
					args[i] = cv
				}
			}
		}
		got, err := fn.Call(args)
		if err != nil {
			c.Violation("parts/call-recompute-fails", fmt.Sprintf("%s: calling %s on the statically extracted arguments fails (%v) although the whole evaluates to %s", trunc(src, 300), call.Name, err, valStr(whole)), nil)
			return
		}
		if !sameVal(got, whole) {
			c.Violation("parts/call-result-differs", fmt.Sprintf("%s: %s applied to the statically extracted arguments gives %s, the whole gives %s", trunc(src, 300), call.Name, valStr(got), valStr(whole)), nil)
			return
		}
		c.Count("parts:call-agreed")
	}
	if len(ast.Kids) >= 2 {
		c.NonTrivial("parts:" + src)
	}
	if c.WantSample() {
		c.Sample(map[string]any{"kind": "parts", "text": trunc(src, 200)})
	}
}

// ---------------------------------------------------------------- types

var c20AttrNames = []string{"a", "b", "id", "name", "for", "in", "if", "else", "endif", "endfor", "null", "true", "false", "x9", "a-b", "_u", "é", "any", "string", "list", "object", "optional",
	// identifiers beyond letters and digits: combining marks, connector punctuation, letter numbers
	"नाम", "ชื่อ", "snake‿case", "ⅷ", "a·b", "x͜y"}

func c20Type(r *rand.Rand, depth int) cty.Type {
	k := r.Intn(10)
	if depth <= 0 && k >= 4 {
		k = r.Intn(4)
	}
	switch k {
	case 0:
		return cty.String
	case 1:
		return cty.Number
	case 2:
		return cty.Bool
	case 3:
		return cty.DynamicPseudoType
	case 4:
		return cty.List(c20Type(r, depth-1))
	case 5:
		return cty.Set(c20Type(r, depth-1))
	case 6:
		return cty.Map(c20Type(r, depth-1))
	case 7:
		n := r.Intn(4)
		tys := make([]cty.Type, n)
		for i := range tys {
			tys[i] = c20Type(r, depth-1)
		}
		return cty.Tuple(tys)
	default:
		n := r.Intn(4)
		atys := map[string]cty.Type{}
		for i := 0; i < n; i++ {
			atys[gen.Pick(r, c20AttrNames)] = c20Type(r, depth-1)
		}
		return cty.Object(atys)
	}
}

func typeDepth(ty cty.Type) int {
	switch {
	case ty.IsCollectionType():
		return 1 + typeDepth(ty.ElementType())
	case ty.IsTupleType():
		d := 0
		for _, e := range ty.TupleElementTypes() {
			if x := typeDepth(e); x > d {
				d = x
			}
		}
		return 1 + d
	case ty.IsObjectType():
		d := 0
		for _, e := range ty.AttributeTypes() {
			if x := typeDepth(e); x > d {
				d = x
			}
		}
		return 1 + d
	}
	return 0
}

func firstAttrNames(ty cty.Type) string {
	var names []string
	var walk func(t cty.Type)
	walk = func(t cty.Type) {
		switch {
		case t.IsCollectionType():
			walk(t.ElementType())
		case t.IsTupleType():
			for _, e := range t.TupleElementTypes() {
				walk(e)
			}
		case t.IsObjectType():
			ns := gen.SortedKeys(t.AttributeTypes())
			if len(ns) > 0 {
				names = append(names, ns[0])
			}
			for _, n := range ns {
				walk(t.AttributeType(n))
			}
		}
	}
	walk(ty)
	sort.Strings(names)
	return strings.Join(names, ",")
}

func c20Types(c *core.Case) {
	r := c.Rng
	ty := c20Type(r, 1+r.Intn(4))
	src := typeexpr.TypeString(ty)
	c.SetInput(src)
	c.Evals(1)
	judge := func(route string, e hcl.Expression, pd hcl.Diagnostics) bool {
		if pd.HasErrors() {
			cls := "types/rendered-type-does-not-parse/" + route
			if strings.Contains(firstAttrNames(ty), "for") && strings.Contains(src, "{for=") {
				cls = "types/object-first-attribute-named-for/" + route
			}
			c.Violation(cls, fmt.Sprintf("TypeString(%#v) = %q does not parse (%s): %s", ty, src, route, diagStr(pd)), nil)
			return false
		}
		got, d := typeexpr.TypeConstraint(e)
		c.Evals(1)
		if d.HasErrors() {
			c.Violation("types/constraint-rejected/"+route, fmt.Sprintf("TypeString(%#v) = %q is rejected by TypeConstraint (%s): %s", ty, src, route, diagStr(d)), nil)
			return false
		}
		if !got.Equals(ty) {
			c.Violation("types/type-differs/"+route, fmt.Sprintf("TypeString(%#v) = %q reads back (%s) as %#v", ty, src, route, got), nil)
			return false
		}
		c.Count("types:round-trip-" + route)
		return true
	}
	he, pd := hclsyntax.ParseExpression([]byte(src), "ty.hcl", hcl.InitialPos)
	if !judge("native", he, pd) {
		return
	}
	je, jd := hcljson.ParseExpression([]byte(gen.JSONQuote(r, src)), "ty.json")
	if !judge("json", je, jd) {
		return
	}
	if typeDepth(ty) >= 2 {
		c.NonTrivial("type:" + src)
	}
	if c.WantSample() {
		c.Sample(map[string]any{"kind": "type", "text": trunc(src, 200)})
	}
}
