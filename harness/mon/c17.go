package mon

import (
	"fmt"
	"math/rand"
	"os"
	"regexp"
	"runtime"
	"sort"
	"strings"
	"sync"
	"sync/atomic"
	"time"

	"github.com/anishathalye/porcupine"
	"github.com/hashicorp/hcl/v2"
	"github.com/hashicorp/hcl/v2/ext/dynblock"
	"github.com/hashicorp/hcl/v2/ext/userfunc"
	"github.com/hashicorp/hcl/v2/hcldec"
	"github.com/hashicorp/hcl/v2/hclsyntax"
	hcljson "github.com/hashicorp/hcl/v2/json"
	"github.com/zclconf/go-cty/cty"
	"github.com/zclconf/go-cty/cty/function"

	"verifharness/core"
	"verifharness/gen"
)

func init() {
	Register(&Spec{
		ID:        "C17",
		Race:      true,
		Technique: "runtime monitoring: Go race detector over goroutine storms on shared parsed trees + solo-vs-concurrent differential + register-history check (direct and with porcupine) of the splat symbol's per-context state recorded through the tag-guarded hooks, with seeded yields at the hook sites",
		Rule: "each case parses one program once (native expression rich in splats of every shape; native body decoded with hcldec; the same body as JSON; a body with dynamic blocks expanded per goroutine; a native or JSON body decoded with gohcl.DecodeBody into values of struct types the process has not handed to gohcl before) and lets G in {2,4,8,16,32} goroutines, each with its own child EvalContext of a shared parent (which also publishes functions defined in configuration, ext/userfunc, with for expressions and splats in their bodies) holding goroutine-unique values, repeat Value / Variables / Decode / PartialContent+JustAttributes calls; every result is compared with the result of the same call run alone in the same context before the storm; the worker is the -race build; " +
			"non-trivial = the storm produced at least one observed overlap (another goroutine's event on a splat symbol between a goroutine's set and its clear) or, for programs without splats, at least 2 goroutines were inside calls on the shared tree at the same time; distinct by program source + G",
		Assumptions: []string{"the Go race detector only reports races on executions that happened; absence of a report is not absence of a race", "events are recorded inside the symbol's own lock, so their order is the order in which the state changed"},
		Quick:       Plan{Batches: 8, PerBatch: 60, MinNonTrivial: 100},
		Thorough:    Plan{Batches: 64, PerBatch: 400, MinNonTrivial: 8000},
		Case:        c17Case,
	})
	hclsyntax.VerifSplatHook = c17Rec.hook
	hclsyntax.VerifYieldHook = c17Yield
}

// ---------------------------------------------------------------- event recorder

type c17Event struct {
	seq    int64
	site   string
	sym    *hclsyntax.AnonSymbolExpr
	ctx    *hcl.EvalContext
	val    cty.Value
	exists bool
}

type c17Recorder struct {
	on     atomic.Bool
	mu     sync.Mutex
	seq    int64
	events []c17Event
}

var c17Rec = &c17Recorder{}

func (r *c17Recorder) hook(site string, sym *hclsyntax.AnonSymbolExpr, ctx *hcl.EvalContext, val cty.Value, exists bool) {
	if !r.on.Load() {
		return
	}
	r.mu.Lock()
	r.seq++
	r.events = append(r.events, c17Event{r.seq, site, sym, ctx, val, exists})
	r.mu.Unlock()
}

func (r *c17Recorder) start() {
	r.mu.Lock()
	r.events = r.events[:0]
	r.seq = 0
	r.mu.Unlock()
	r.on.Store(true)
}

func (r *c17Recorder) stop() []c17Event {
	r.on.Store(false)
	r.mu.Lock()
	defer r.mu.Unlock()
	out := make([]c17Event, len(r.events))
	copy(out, r.events)
	return out
}

// seeded yields at the points where another goroutine can interleave
var c17YieldState atomic.Uint64
var c17Yields atomic.Int64

func c17Yield(site string) {
	x := c17YieldState.Add(0x9e3779b97f4a7c15)
	x ^= x >> 29
	x *= 0xbf58476d1ce4e5b9
	x ^= x >> 32
	switch x % 8 {
	case 0, 1, 2:
		runtime.Gosched()
		c17Yields.Add(1)
	case 3:
		// a short spin keeps the state set while others run
		for i := 0; i < int(x>>40)%400; i++ {
			runtime.Gosched()
		}
		c17Yields.Add(1)
	}
}

// ---------------------------------------------------------------- programs

type c17Op struct {
	name string
	run  func(ctx *hcl.EvalContext) string
	// storm, when set, is what the goroutines call instead of run: the same
	// call on a second, equal object, so that the object the storm shares has
	// not been touched by the solo runs that computed the expectations
	storm func(ctx *hcl.EvalContext) string
	// prepare is called once the per-goroutine contexts exist
	prepare func(ctxs []*hcl.EvalContext)
}

// collectAttrExprs extracts, once, the attribute expressions of a body and of
// its nested blocks as the spec reads them.
func collectAttrExprs(body hcl.Body, spec hcldec.Spec, out *[]hcl.Expression) {
	content, _, _ := body.PartialContent(hcldec.ImpliedSchema(spec))
	if content == nil {
		return
	}
	add := func(attrs hcl.Attributes) {
		var names []string
		for n := range attrs {
			names = append(names, n)
		}
		sort.Strings(names)
		for _, n := range names {
			*out = append(*out, attrs[n].Expr)
		}
	}
	add(content.Attributes)
	obj, _ := spec.(hcldec.ObjectSpec)
	for _, blk := range content.Blocks {
		for _, sub := range obj {
			switch bs := sub.(type) {
			case *hcldec.BlockTupleSpec:
				if bs.TypeName == blk.Type {
					collectAttrExprs(blk.Body, bs.Nested, out)
				}
			case *hcldec.BlockObjectSpec:
				if bs.TypeName == blk.Type {
					collectAttrExprs(blk.Body, bs.Nested, out)
				}
			case *hcldec.BlockSpec:
				if bs.TypeName == blk.Type {
					collectAttrExprs(blk.Body, bs.Nested, out)
				}
			case *hcldec.BlockAttrsSpec:
				if bs.TypeName == blk.Type {
					if ja, _ := blk.Body.JustAttributes(); ja != nil {
						add(ja)
					}
				}
			}
		}
	}
}

type c17Prog struct {
	kind   string
	src    string
	ops    []c17Op
	splats int
	// firstUse: the storm works on a parsed tree nothing has evaluated before
	firstUse bool
}

func valDiagKey(v cty.Value, d hcl.Diagnostics) string {
	vs := "NilVal"
	if v != cty.NilVal {
		vs = v.GoString()
	}
	return vs + " || " + diagCmpKey(d)
}

func travKey(ts []hcl.Traversal) string {
	var parts []string
	for _, t := range ts {
		var sb strings.Builder
		for _, st := range t {
			switch s := st.(type) {
			case hcl.TraverseRoot:
				sb.WriteString(s.Name)
			case hcl.TraverseAttr:
				sb.WriteString("." + s.Name)
			case hcl.TraverseIndex:
				sb.WriteString("[" + s.Key.GoString() + "]")
			case hcl.TraverseSplat:
				sb.WriteString("[*]")
			}
		}
		parts = append(parts, sb.String())
	}
	// (hcldec walks Go maps: the order of the reported traversals is not part of the result)
	sort.Strings(parts)
	return strings.Join(parts, ",")
}

func contentKey(b hcl.Body, schema *hcl.BodySchema, ctx *hcl.EvalContext) string {
	return contentKey2(b, schema, nil, ctx)
}

// contentKey2 extracts with schema, then extracts the remainder with schema2
// (when given), then lists what is left.
func contentKey2(b hcl.Body, schema, schema2 *hcl.BodySchema, ctx *hcl.EvalContext) string {
	content, remain, diags := b.PartialContent(schema)
	var parts []string
	if schema2 != nil && remain != nil {
		c2, r2, d2 := remain.PartialContent(schema2)
		if c2 != nil {
			var names []string
			for n := range c2.Attributes {
				names = append(names, n)
			}
			sort.Strings(names)
			parts = append(parts, "second attrs "+strings.Join(names, ","))
			for _, blk := range c2.Blocks {
				parts = append(parts, "second block "+blk.Type+" "+strings.Join(blk.Labels, "/"))
			}
		}
		parts = append(parts, "second diags "+diagCmpKey(d2))
		remain = r2
	}
	if content != nil {
		var names []string
		for n := range content.Attributes {
			names = append(names, n)
		}
		sort.Strings(names)
		for _, n := range names {
			v, d := content.Attributes[n].Expr.Value(ctx)
			parts = append(parts, "attr "+n+"="+valDiagKey(v, d))
		}
		for _, blk := range content.Blocks {
			parts = append(parts, "block "+blk.Type+" "+strings.Join(blk.Labels, "/"))
		}
	}
	if remain != nil {
		ra, rd := remain.JustAttributes()
		var names []string
		for n := range ra {
			names = append(names, n)
		}
		sort.Strings(names)
		parts = append(parts, "remain "+strings.Join(names, ",")+" errs="+fmt.Sprint(rd.HasErrors()))
	}
	parts = append(parts, "diags "+diagCmpKey(diags))
	return strings.Join(parts, "\n")
}

var c17Directed = []string{
	"deep[*].tags", "deep[*].sub.name", "deep[*].tags[*]", "deep.*.id", "lst[*]", "lst[*].id", "lst[*].name",
	"[for d in deep: d.tags[*]]", "[for d in deep: upper(d.sub.name)][*]", "deep[*].tags[0]", "obj[*].a", "obj[*].c[*]",
	"nul[*]", "tup.*", "tup[*]", "{for k, v in mp: k => [v][*]}", "join(\"-\", deep[*].sub.name)", "len(deep[*].tags[*])",
	"[for x in lst[*]: [x][*]]", "deep[*].tags[*] == deep[*].tags[*]", "[deep[*].id, lst[*], st[*]]", "s[*]", "n[*]",
	"mp[*]", "st[*]", "deep[*].nosuch", "[for i, d in deep: \"${i}-${join(\",\", d.tags[*])}\"]", "f ? deep[*].id : lst[*]",
	"coalesce(deep[*].sub.name...)", "tup(deep[*].id...)", "{ a = deep[*].id, b = { c = deep[*].tags[*] } }",
	"[for t in deep[*].tags: t[*]][*]", "deep[*].sub[*].name[*]",
	// functions defined in configuration (ext/userfunc), published in the shared parent
	"uf_tag(s, deep[*].sub.name)", "uf_ids(deep)", "uf_wrap(n, deep[*].id...)", "[for d in deep: uf_tag(d.sub.name, d.tags)]",
	"uf_tag(s, uf_ids(deep))", "{ a = uf_ids(deep), b = uf_tag(\"${n}\", lst[*]) }", "uf_names(deep)",
}

const c17UserFuncSrc = `
function "uf_tag" {
  params = [tag, items]
  result = [for it in items : "${tag}:${tag}-${it}"]
}
function "uf_ids" {
  params = [items]
  result = items[*].id
}
function "uf_names" {
  params = [items]
  result = join(",", [for n in items[*].sub.name : upper(n)])
}
function "uf_wrap" {
  params         = [x]
  variadic_param = rest
  result         = [x, rest[*], [for r in rest : [r][*]]]
}
`

// c17Funcs decodes the user functions afresh (their bodies are parsed syntax
// shared by every caller) and publishes them next to the built-in ones.
func c17Funcs() map[string]function.Function {
	f, d := hclsyntax.ParseConfig([]byte(c17UserFuncSrc), "funcs.hcl", hcl.InitialPos)
	if d.HasErrors() {
		panic(d.Error())
	}
	ufs, _, d := userfunc.DecodeUserFunctions(f.Body, "function", func() *hcl.EvalContext {
		return &hcl.EvalContext{Functions: stdCtyFuncs}
	})
	if d.HasErrors() {
		panic(d.Error())
	}
	out := map[string]function.Function{}
	for n, fn := range stdCtyFuncs {
		out[n] = fn
	}
	for n, fn := range ufs {
		out[n] = fn
	}
	return out
}

func c17Program(c *core.Case) (*c17Prog, *gen.Scope) {
	r := c.Rng
	switch k := r.Intn(11); {
	case k == 10:
		return c17GohclProgram(c)
	case k < 5:
		sc := gen.NewScope(r, gen.ValOpts{StrLevel: 1})
		sc.Set("deep", gen.Value(r, cty.List(cty.Object(map[string]cty.Type{"id": cty.Number, "tags": cty.List(cty.String), "sub": cty.Object(map[string]cty.Type{"name": cty.String})})), gen.ValOpts{StrLevel: 1}))
		var src string
		if gen.Chance(r, 0.5) {
			src = gen.Pick(r, c17Directed)
			if gen.Chance(r, 0.3) {
				src = "[" + src + ", " + gen.Pick(r, c17Directed) + "]"
			}
		} else {
			g := gen.NewG(r, sc, 0.05)
			g.StrLevel = 1
			var e *gen.Node
			for try := 0; try < 8; try++ {
				e = g.Expr(gen.WAny, 2+r.Intn(3))
				uses := false
				for _, k := range e.KindsUsed() {
					if strings.HasPrefix(k, "splat") {
						uses = true
					}
				}
				if uses {
					break
				}
			}
			gen.FixTemplates(e)
			gen.FixDollar(e)
			src = gen.RenderExpr(e, gen.RandomLayout(r))
		}
		e, d := hclsyntax.ParseExpression([]byte(src), "e.hcl", hcl.InitialPos)
		if d.HasErrors() {
			return nil, nil
		}
		p := &c17Prog{kind: "native-expression", src: src}
		hclsyntax.VisitAll(e, func(n hclsyntax.Node) hcl.Diagnostics {
			if _, ok := n.(*hclsyntax.SplatExpr); ok {
				p.splats++
			}
			return nil
		})
		p.ops = []c17Op{
			{name: "Expression.Value", run: func(ctx *hcl.EvalContext) string { return valDiagKey(e.Value(ctx)) }},
			{name: "Expression.Variables", run: func(ctx *hcl.EvalContext) string { return travKey(e.Variables()) }},
		}
		if gen.Chance(r, 0.5) {
			// the storm is the very first use of the parsed tree: the expectations
			// come from a second parse of the same source
			e2, _ := hclsyntax.ParseExpression([]byte(src), "e.hcl", hcl.InitialPos)
			p.ops[0].storm = func(ctx *hcl.EvalContext) string { return valDiagKey(e2.Value(ctx)) }
			p.ops[1].storm = func(ctx *hcl.EvalContext) string { return travKey(e2.Variables()) }
			p.firstUse = true
		}
		return p, sc
	case k < 8:
		sc := gen.NewScope(r, gen.ValOpts{StrLevel: 1})
		g := gen.NewG(r, sc, 0.05)
		g.StrLevel = 1
		body := gen.GenBody(r, gen.BodyOpts{MaxDepth: 2, MaxItems: 4, MaxLabels: 0, AttrNames: []string{"a", "b", "c", "name", "id"}, BlockTypes: []string{"blk", "svc", "nested"}, ExprFn: func(rr *rand.Rand) *gen.Node {
			if gen.Chance(rr, 0.4) {
				e, d := hclsyntax.ParseExpression([]byte(gen.Pick(rr, c17Directed)), "x", hcl.InitialPos)
				_ = e
				if !d.HasErrors() {
					// keep the directed text as an opaque node
					return rawNode(gen.Pick(rr, c17Directed))
				}
			}
			e := g.Expr(gen.WAny, 1+rr.Intn(3))
			gen.FixTemplates(e)
			gen.FixDollar(e)
			return e
		}}, 0)
		spec := specForBody(body)
		schema := &hcl.BodySchema{}
		for i, a := range body.Attrs() {
			if i%2 == 0 {
				schema.Attributes = append(schema.Attributes, hcl.AttributeSchema{Name: a.Name})
			}
		}
		seenT := map[string]bool{}
		for _, blk := range body.Blocks() {
			if !seenT[blk.Type] && gen.Chance(r, 0.6) {
				seenT[blk.Type] = true
				schema.Blocks = append(schema.Blocks, hcl.BlockHeaderSchema{Type: blk.Type})
			}
		}
		var hb hcl.Body
		p := &c17Prog{}
		if k < 7 {
			p.kind = "native-body"
			p.src = gen.RenderNative(body, gen.CanonicalFileLayout())
			f, d := hclsyntax.ParseConfig([]byte(p.src), "b.hcl", hcl.InitialPos)
			if d.HasErrors() {
				return nil, nil
			}
			hb = f.Body
			p.splats = strings.Count(p.src, "*")
		} else {
			p.kind = "json-body"
			enc := &gen.JSONEnc{R: r, LabelCounts: map[string]int{}, OrderPreserving: true, ExprJSON: func(n *gen.Node) string {
				return gen.JSONQuote(nil, "${"+gen.RenderExpr(n, &gen.Layout{})+"}")
			}}
			p.src = enc.Body(body, true)
			f, d := hcljson.Parse([]byte(p.src), "b.json")
			if d.HasErrors() {
				return nil, nil
			}
			hb = f.Body
			p.splats = strings.Count(p.src, "*")
		}
		p.ops = []c17Op{
			{name: "hcldec.Decode", run: func(ctx *hcl.EvalContext) string { return valDiagKey(hcldec.Decode(hb, spec, ctx)) }},
			{name: "hcldec.Variables", run: func(ctx *hcl.EvalContext) string { return travKey(hcldec.Variables(hb, spec)) }},
			{name: "Body.PartialContent+JustAttributes", run: func(ctx *hcl.EvalContext) string { return contentKey(hb, schema, ctx) }},
			{name: "hcldec.PartialDecode", run: func(ctx *hcl.EvalContext) string {
				v, _, d := hcldec.PartialDecode(hb, spec, ctx)
				return valDiagKey(v, d)
			}},
		}
		{
			// one remaining body shared by all goroutines
			full := &hcl.BodySchema{}
			for _, a := range body.Attrs() {
				full.Attributes = append(full.Attributes, hcl.AttributeSchema{Name: a.Name})
			}
			seen := map[string]bool{}
			for _, blk := range body.Blocks() {
				if !seen[blk.Type] {
					seen[blk.Type] = true
					full.Blocks = append(full.Blocks, hcl.BlockHeaderSchema{Type: blk.Type})
				}
			}
			var remSolo, remStorm hcl.Body
			p.ops = append(p.ops, c17Op{name: "shared remaining body: PartialContent+JustAttributes",
				prepare: func(ctxs []*hcl.EvalContext) {
					_, remSolo, _ = hb.PartialContent(schema)
					_, remStorm, _ = hb.PartialContent(schema)
				},
				run:   func(ctx *hcl.EvalContext) string { return contentKey(remSolo, full, ctx) },
				storm: func(ctx *hcl.EvalContext) string { return contentKey(remStorm, full, ctx) }})
		}
		return p, sc
	default:
		dp := c18Build(r)
		if dp == nil {
			return nil, nil
		}
		f, d := hclsyntax.ParseConfig([]byte(dp.dsrc), "d.hcl", hcl.InitialPos)
		if d.HasErrors() {
			return nil, nil
		}
		p := &c17Prog{kind: "dynblock-body", src: dp.dsrc}
		spec := dp.spec
		// schemas shared by all goroutines, built up with append as
		// hcldec.ImpliedSchema does (spare capacity in the slices)
		full := hcldec.ImpliedSchema(spec)
		half := &hcl.BodySchema{Attributes: make([]hcl.AttributeSchema, 0, 8), Blocks: make([]hcl.BlockHeaderSchema, 0, 8)}
		for i, a := range full.Attributes {
			if i%2 == 0 {
				half.Attributes = append(half.Attributes, hcl.AttributeSchema{Name: a.Name})
			}
		}
		for i, bs := range full.Blocks {
			if i%2 == 0 {
				half.Blocks = append(half.Blocks, bs)
			}
		}
		rest := &hcl.BodySchema{Attributes: make([]hcl.AttributeSchema, 0, 8), Blocks: make([]hcl.BlockHeaderSchema, 0, 8)}
		for _, a := range full.Attributes {
			rest.Attributes = append(rest.Attributes, hcl.AttributeSchema{Name: a.Name})
		}
		for i, bs := range full.Blocks {
			if i%2 == 1 || gen.Chance(r, 0.3) {
				rest.Blocks = append(rest.Blocks, bs)
			}
		}
		p.ops = []c17Op{
			{name: "Expand.PartialContent(shared schema)+remain.PartialContent(shared schema)", run: func(ctx *hcl.EvalContext) string {
				return contentKey2(dynblock.Expand(f.Body, ctx), half, rest, ctx)
			}},
			{name: "Expand.Content(shared schema)", run: func(ctx *hcl.EvalContext) string {
				content, diags := dynblock.Expand(f.Body, ctx).Content(full)
				var parts []string
				if content != nil {
					for _, blk := range content.Blocks {
						parts = append(parts, blk.Type+" "+strings.Join(blk.Labels, "/"))
					}
					parts = append(parts, fmt.Sprint(len(content.Attributes)))
				}
				return strings.Join(parts, ";") + " || " + diagCmpKey(diags)
			}},
			{name: "Decode(dynblock.Expand)", run: func(ctx *hcl.EvalContext) string {
				return valDiagKey(hcldec.Decode(dynblock.Expand(f.Body, ctx), spec, ctx))
			}},
			{name: "dynblock.VariablesHCLDec", run: func(ctx *hcl.EvalContext) string {
				return travKey(dynblock.VariablesHCLDec(f.Body, spec)) + " / " + travKey(dynblock.ExpandVariablesHCLDec(f.Body, spec))
			}},
		}
		{
			// content extracted once from one expansion; its attribute
			// expressions are then evaluated by every goroutine in its own context
			var exSolo, exStorm []hcl.Expression
			evalAll := func(exprs []hcl.Expression, ctx *hcl.EvalContext) string {
				var sb strings.Builder
				for _, e := range exprs {
					sb.WriteString(valDiagKey(e.Value(ctx)))
					sb.WriteString("\n")
				}
				return sb.String()
			}
			p.ops = append(p.ops, c17Op{name: "attribute expressions of one shared expansion: Value",
				prepare: func(ctxs []*hcl.EvalContext) {
					exSolo, exStorm = nil, nil
					collectAttrExprs(dynblock.Expand(f.Body, ctxs[0]), spec, &exSolo)
					collectAttrExprs(dynblock.Expand(f.Body, ctxs[0]), spec, &exStorm)
				},
				run:   func(ctx *hcl.EvalContext) string { return evalAll(exSolo, ctx) },
				storm: func(ctx *hcl.EvalContext) string { return evalAll(exStorm, ctx) }})
		}
		return p, dp.sc
	}
}

// rawNode carries verbatim expression text through the renderer.
func rawNode(src string) *gen.Node {
	return &gen.Node{Kind: gen.KRaw, Str: src, Ty: cty.DynamicPseudoType}
}

// variant gives goroutine i its own values: every string gets a suffix and
// every number an offset that identify the goroutine, so that a result
// computed from another goroutine's data cannot equal the expected one.
func c17Variant(v cty.Value, i int) cty.Value {
	out, err := cty.Transform(v, func(p cty.Path, x cty.Value) (cty.Value, error) {
		if x.IsMarked() {
			ux, m := x.Unmark()
			if ux.IsKnown() && !ux.IsNull() {
				switch ux.Type() {
				case cty.String:
					return cty.StringVal(fmt.Sprintf("%s#%d", ux.AsString(), i)).WithMarks(m), nil
				}
			}
			return x, nil
		}
		if !x.IsKnown() || x.IsNull() {
			return x, nil
		}
		switch x.Type() {
		case cty.String:
			return cty.StringVal(fmt.Sprintf("%s#%d", x.AsString(), i)), nil
		case cty.Number:
			bf := x.AsBigFloat()
			if bf.IsInt() && bf.Sign() >= 0 && len(p) > 0 {
				iv, _ := bf.Int64()
				if iv < 1<<30 {
					return cty.NumberIntVal(iv*64 + int64(i)), nil
				}
			}
		}
		return x, nil
	})
	if err != nil {
		return v
	}
	return out
}

// ---------------------------------------------------------------- race log

var raceLogPos int64

func raceLogPath() string {
	for _, f := range strings.Fields(os.Getenv("GORACE")) {
		if strings.HasPrefix(f, "log_path=") {
			return fmt.Sprintf("%s.%d", strings.TrimPrefix(f, "log_path="), os.Getpid())
		}
	}
	return ""
}

var raceFrame = regexp.MustCompile(`(?m)^  ([^\s(][^\n]*)\(\)\n`)

// raceReports returns the new race-detector reports since the last call.
func raceReports() []string {
	p := raceLogPath()
	if p == "" {
		return nil
	}
	b, err := os.ReadFile(p)
	if err != nil || int64(len(b)) <= raceLogPos {
		return nil
	}
	fresh := string(b[raceLogPos:])
	raceLogPos = int64(len(b))
	var out []string
	for _, blk := range strings.Split(fresh, "==================") {
		if strings.Contains(blk, "WARNING: DATA RACE") {
			out = append(out, strings.TrimSpace(blk))
		}
	}
	return out
}

// raceClass names a report by the innermost hcl/cty/harness function of each
// of its two access stacks.
func raceClass(rep string) (string, bool) {
	secs := regexp.MustCompile(`(?m)^(Write|Read|Previous write|Previous read|Atomic write|Atomic read|Previous atomic write|Previous atomic read) (at|of)[^\n]*\n`).Split(rep, -1)
	var tops []string
	inHCL := false
	for _, s := range secs[1:] {
		// the stack ends at the first blank line
		if i := strings.Index(s, "\n\n"); i >= 0 {
			s = s[:i+1]
		}
		top := ""
		for _, m := range raceFrame.FindAllStringSubmatch(s, -1) {
			fn := m[1]
			if strings.Contains(fn, "github.com/hashicorp/hcl/v2") {
				inHCL = true
			}
			if top == "" && (strings.Contains(fn, "github.com/hashicorp/hcl/v2") || strings.Contains(fn, "go-cty") || strings.Contains(fn, "verifharness")) {
				top = fn
			}
		}
		if top == "" {
			top = "runtime"
		}
		tops = append(tops, top[strings.LastIndex(top, "/")+1:])
		if len(tops) == 2 {
			break
		}
	}
	sort.Strings(tops)
	return strings.Join(tops, "~"), inHCL
}

// ---------------------------------------------------------------- the case

func c17Case(c *core.Case) {
	r := c.Rng
	p, sc := c17Program(c)
	if p == nil {
		c.Count("skipped:program-does-not-parse")
		return
	}
	G := gen.Pick(r, []int{2, 4, 8, 16, 32})
	total := map[string]int{"native-expression": 384, "native-body": 192, "json-body": 192, "dynblock-body": 96, "gohcl-body": 192, "gohcl-json-body": 192}[p.kind]
	iters := max(total/G, 2)
	if c.Tier == "thorough" && gen.Chance(r, 0.2) {
		iters *= 4
	}
	c.SetInput(fmt.Sprintf("%s:\n%s\nGOROUTINES: %d x %d iterations\nSCOPE: %s", p.kind, p.src, G, iters, scopeStr(sc)))
	c.Count("program:" + p.kind)
	if p.firstUse {
		c.Count("storms-as-first-use-of-the-tree")
	}
	c.Count(fmt.Sprintf("goroutines:%d", G))

	// shared parent: functions and the variables that are not varied
	parent := &hcl.EvalContext{Functions: c17Funcs(), Variables: map[string]cty.Value{}}
	shared := map[string]bool{}
	for _, n := range sc.Names {
		if gen.Chance(r, 0.25) {
			shared[n] = true
			parent.Variables[n] = sc.Vars[n]
		}
	}
	ctxs := make([]*hcl.EvalContext, G)
	expected := make([][]string, G)
	for i := 0; i < G; i++ {
		ctx := parent.NewChild()
		ctx.Variables = map[string]cty.Value{}
		for _, n := range sc.Names {
			if !shared[n] {
				ctx.Variables[n] = c17Variant(sc.Vars[n], i)
			}
		}
		ctxs[i] = ctx
	}
	for _, op := range p.ops {
		if op.prepare != nil {
			op.prepare(ctxs)
		}
	}
	var notRepeatable map[int]bool
	// solo runs (before the storm), twice: the call must be repeatable alone
	for i := 0; i < G; i++ {
		expected[i] = make([]string, len(p.ops))
		for k, op := range p.ops {
			expected[i][k] = op.run(ctxs[i])
			c.Evals(1)
			if again := op.run(ctxs[i]); again != expected[i][k] {
				// the storm still runs (for the race detector); the results of
				// this operation are not compared
				if notRepeatable == nil {
					notRepeatable = map[int]bool{}
					c.Count("not-repeatable-alone(results not compared)")
					c.Inconclusive("a call is not repeatable when run alone (judged by other properties); its storm is watched by the race detector only")
				}
				notRepeatable[k] = true
			}
		}
	}
	ownerOf := func(ctx *hcl.EvalContext) int {
		for x := ctx; x != nil; x = x.Parent() {
			for i, root := range ctxs {
				if x == root {
					return i
				}
			}
		}
		return -1
	}

	type mismatch struct {
		g, k      int
		got, want string
	}
	var mmMu sync.Mutex
	var mms []mismatch
	var inCall atomic.Int32
	var maxInCall atomic.Int32
	seeds := make([]int64, G)
	for i := range seeds {
		seeds[i] = r.Int63()
	}
	c17YieldState.Store(uint64(r.Int63()))
	y0 := c17Yields.Load()
	c17Rec.start()
	var wg sync.WaitGroup
	startGate := make(chan struct{})
	for i := 0; i < G; i++ {
		wg.Add(1)
		go func(i int) {
			defer wg.Done()
			gr := rand.New(rand.NewSource(seeds[i]))
			<-startGate
			for it := 0; it < iters; it++ {
				k := gr.Intn(len(p.ops))
				n := inCall.Add(1)
				for {
					m := maxInCall.Load()
					if n <= m || maxInCall.CompareAndSwap(m, n) {
						break
					}
				}
				call := p.ops[k].run
				if p.ops[k].storm != nil {
					call = p.ops[k].storm
				}
				got := call(ctxs[i])
				inCall.Add(-1)
				if got != expected[i][k] && !notRepeatable[k] {
					mmMu.Lock()
					if len(mms) < 4 {
						mms = append(mms, mismatch{i, k, got, expected[i][k]})
					}
					mmMu.Unlock()
				}
			}
		}(i)
	}
	close(startGate)
	done := make(chan struct{})
	go func() { wg.Wait(); close(done) }()
	select {
	case <-done:
	case <-time.After(4 * time.Minute):
		// decided on the goroutines' states, not on the time: a storm whose
		// goroutines are all parked on locks can never finish
		buf := make([]byte, 1<<20)
		buf = buf[:runtime.Stack(buf, true)]
		dump := string(buf)
		blocked, runnable := 0, 0
		for _, gs := range strings.Split(dump, "\n\n") {
			if !strings.Contains(gs, "c17Case.func") {
				continue
			}
			if strings.Contains(gs, "[sync.Mutex.Lock") || strings.Contains(gs, "[sync.RWMutex") || strings.Contains(gs, "[semacquire") {
				blocked++
			} else {
				runnable++
			}
		}
		if blocked > 0 && runnable == 0 {
			c.Violation("deadlock/"+p.kind, fmt.Sprintf("%d storm goroutines are all parked on locks and none can run:\n%s", blocked, trunc(dump, 4000)), nil)
		} else {
			c.Inconclusive("a storm did not finish within its wall-clock guard while goroutines were still runnable")
		}
		c17Rec.stop()
		return
	}
	events := c17Rec.stop()
	c.Evals(G * iters)
	c.CountN("concurrent-calls", G*iters)
	c.CountN("yields-taken", int(c17Yields.Load()-y0))
	c.CountN("splat-events", len(events))

	// (1) race detector
	for _, rep := range raceReports() {
		cls, inHCL := raceClass(rep)
		if !inHCL {
			c.HarnessError("race report without hcl frames:\n" + trunc(rep, 3000))
			continue
		}
		c.Violation("data-race/"+cls, "the race detector reported a data race during the storm:\n"+trunc(rep, 3500), nil)
	}
	// (2) differential
	if len(mms) > 0 {
		m := mms[0]
		c.Violation("concurrent-result-differs/"+p.kind+"/"+p.ops[m.k].name, fmt.Sprintf("goroutine %d of %d: %s returned, under concurrency,\n %s\nbut alone in the same context\n %s", m.g, G, p.ops[m.k].name, trunc(m.got, 700), trunc(m.want, 700)), nil)
	}
	// (3) history of the splat symbols' per-context state
	type part struct {
		sym *hclsyntax.AnonSymbolExpr
		ctx *hcl.EvalContext
	}
	parts := map[part][]c17Event{}
	var order []part
	for _, e := range events {
		k := part{e.sym, e.ctx}
		if _, ok := parts[k]; !ok {
			order = append(order, k)
		}
		parts[k] = append(parts[k], e)
	}
	bad := ""
	for _, k := range order {
		var cur cty.Value
		have := false
		for _, e := range parts[k] {
			switch e.site {
			case "set":
				cur, have = e.val, true
			case "clear":
				have = false
			case "get":
				if e.exists != have || (have && !e.val.RawEquals(cur)) {
					if bad == "" {
						want := "no value"
						if have {
							want = valStr(cur)
						}
						got := "no value"
						if e.exists {
							got = valStr(e.val)
						}
						bad = fmt.Sprintf("event %d: the symbol's value read for the context of goroutine %d is %s, the last value set for that context is %s", e.seq, ownerOf(e.ctx), got, want)
					}
				}
			}
		}
	}
	if bad != "" {
		c.Violation("splat-state/history-not-a-register", bad, nil)
	}
	c.CountN("history-partitions-checked", len(order))
	// the same check with porcupine on a bounded number of partitions
	if len(order) > 0 {
		var ops []porcupine.Operation
		lim := 0
		for pi, k := range order {
			if lim > 4000 {
				break
			}
			for _, e := range parts[k] {
				ops = append(ops, porcupine.Operation{ClientId: pi, Input: c17In{pi, e.site, e.val}, Output: c17Out{e.val, e.exists}, Call: e.seq * 2, Return: e.seq*2 + 1})
				lim++
			}
		}
		res := porcupine.CheckOperationsTimeout(c17Model, ops, 20*time.Second)
		switch res {
		case porcupine.Illegal:
			c.Violation("splat-state/history-not-linearizable", "porcupine rejects the recorded set/get/clear history against the per-(symbol, context) register model", nil)
		case porcupine.Unknown:
			c.Inconclusive("porcupine timed out on a history")
		default:
			c.CountN("porcupine-operations-checked", len(ops))
		}
	}
	// (4) what interleavings were actually seen
	overlaps := 0
	shapes := map[string]bool{}
	active := map[*hclsyntax.AnonSymbolExpr]map[int]bool{}
	for _, e := range events {
		o := ownerOf(e.ctx)
		a := active[e.sym]
		if a == nil {
			a = map[int]bool{}
			active[e.sym] = a
		}
		others := 0
		for g := range a {
			if g != o {
				others++
			}
		}
		if others > 0 {
			overlaps++
			sh := fmt.Sprintf("%s-while-%d-others-set", e.site, min(others, 4))
			if !shapes[sh] {
				shapes[sh] = true
				c.Count("overlap-shape:" + sh)
			}
		}
		switch e.site {
		case "set":
			a[o] = true
		case "clear":
			delete(a, o)
		}
	}
	c.CountN("overlaps-observed", overlaps)
	c.CountN("max-goroutines-inside-calls", 0)
	if int(maxInCall.Load()) >= 2 {
		c.Count("storms-with-simultaneous-calls")
	}
	if overlaps > 0 {
		c.Count("storms-with-splat-overlap")
	}
	if overlaps > 0 || (len(events) == 0 && maxInCall.Load() >= 2) {
		c.NonTrivial(fmt.Sprintf("%s|%d", p.src, G))
	} else if len(events) > 0 {
		c.Count("storms-with-splats-but-no-overlap")
	}
	if c.WantSample() {
		c.Sample(map[string]any{"program": p.kind, "source": trunc(p.src, 300), "goroutines": G, "iterations_each": iters, "splat_events": len(events), "overlaps": overlaps, "max_goroutines_inside_calls": maxInCall.Load()})
	}
}

type c17In struct {
	part int
	site string
	val  cty.Value
}
type c17Out struct {
	val    cty.Value
	exists bool
}
type c17State struct {
	have bool
	val  cty.Value
}

var c17Model = porcupine.Model{
	Partition: func(history []porcupine.Operation) [][]porcupine.Operation {
		m := map[int][]porcupine.Operation{}
		var keys []int
		for _, op := range history {
			k := op.Input.(c17In).part
			if _, ok := m[k]; !ok {
				keys = append(keys, k)
			}
			m[k] = append(m[k], op)
		}
		out := make([][]porcupine.Operation, 0, len(keys))
		for _, k := range keys {
			out = append(out, m[k])
		}
		return out
	},
	Init: func() interface{} { return c17State{} },
	Step: func(state, input, output interface{}) (bool, interface{}) {
		st := state.(c17State)
		in := input.(c17In)
		switch in.site {
		case "set":
			return true, c17State{true, in.val}
		case "clear":
			return true, c17State{}
		default:
			out := output.(c17Out)
			if out.exists != st.have {
				return false, st
			}
			if st.have && !out.val.RawEquals(st.val) {
				return false, st
			}
			return true, st
		}
	},
	Equal: func(a, b interface{}) bool {
		x, y := a.(c17State), b.(c17State)
		if x.have != y.have {
			return false
		}
		return !x.have || x.val.RawEquals(y.val)
	},
}
