package mon

import (
	"fmt"
	"reflect"
	"sort"
	"strings"

	"github.com/hashicorp/hcl/v2"
	"github.com/hashicorp/hcl/v2/gohcl"
	"github.com/hashicorp/hcl/v2/hclsyntax"
	hcljson "github.com/hashicorp/hcl/v2/json"
	"github.com/zclconf/go-cty/cty"

	"verifharness/core"
	"verifharness/gen"
)

// The struct-decoding route of C17: one parsed body (native or JSON) is decoded
// by every goroutine, in its own context, into a fresh value of a tagged struct
// type. The struct types are made with reflect.StructOf and differ from case
// to case (field selection and a padding field whose tag names the case), and
// the type the storm decodes into is a sibling of the type the solo runs used:
// the storm is therefore the first time the process hands that type to gohcl.

var (
	c17StrT   = reflect.TypeOf("")
	c17ValT   = reflect.TypeOf(cty.Value{})
	c17BodyT  = reflect.TypeOf((*hcl.Body)(nil)).Elem()
	c17AttrsT = reflect.TypeOf(hcl.Attributes(nil))
	c17ExprT  = reflect.TypeOf((*hcl.Expression)(nil)).Elem()
)

type c17GField struct {
	goName, tag string
	ty          reflect.Type
}

func c17StructOf(fs []c17GField, pad string) reflect.Type {
	var sf []reflect.StructField
	for _, f := range fs {
		sf = append(sf, reflect.StructField{Name: f.goName, Type: f.ty, Tag: reflect.StructTag(`hcl:"` + f.tag + `"`)})
	}
	sf = append(sf, reflect.StructField{Name: "Pad", Type: reflect.PointerTo(c17StrT), Tag: reflect.StructTag(`hcl:"` + pad + `,optional"`)})
	return reflect.StructOf(sf)
}

// c17GoKey renders a decoded struct value (the padding field aside).
func c17GoKey(v reflect.Value, ctx *hcl.EvalContext, sb *strings.Builder) {
	switch {
	case v.Type() == c17ValT:
		cv := v.Interface().(cty.Value)
		if cv == cty.NilVal {
			sb.WriteString("NilVal")
		} else {
			sb.WriteString(cv.GoString())
		}
		return
	case v.Type() == c17AttrsT:
		attrs := v.Interface().(hcl.Attributes)
		var names []string
		for n := range attrs {
			names = append(names, n)
		}
		sort.Strings(names)
		for _, n := range names {
			val, d := attrs[n].Expr.Value(ctx)
			sb.WriteString(n + "=" + valDiagKey(val, d) + ";")
		}
		return
	case v.Type() == c17BodyT:
		if v.IsNil() {
			sb.WriteString("nil-body")
			return
		}
		attrs, d := v.Interface().(hcl.Body).JustAttributes()
		var names []string
		for n := range attrs {
			names = append(names, n)
		}
		sort.Strings(names)
		for _, n := range names {
			val, vd := attrs[n].Expr.Value(ctx)
			sb.WriteString(n + "=" + valDiagKey(val, vd) + ";")
		}
		sb.WriteString(fmt.Sprint(d.HasErrors()))
		return
	case v.Type() == c17ExprT:
		if v.IsNil() {
			sb.WriteString("nil-expr")
			return
		}
		val, d := v.Interface().(hcl.Expression).Value(ctx)
		sb.WriteString(valDiagKey(val, d))
		return
	}
	switch v.Kind() {
	case reflect.Struct:
		sb.WriteString("{")
		for i := 0; i < v.NumField(); i++ {
			if v.Type().Field(i).Name == "Pad" {
				continue
			}
			sb.WriteString(v.Type().Field(i).Name + ":")
			c17GoKey(v.Field(i), ctx, sb)
			sb.WriteString(" ")
		}
		sb.WriteString("}")
	case reflect.Pointer:
		if v.IsNil() {
			sb.WriteString("nil")
			return
		}
		sb.WriteString("&")
		c17GoKey(v.Elem(), ctx, sb)
	case reflect.Slice:
		if v.IsNil() {
			sb.WriteString("nil-slice")
			return
		}
		sb.WriteString("[")
		for i := 0; i < v.Len(); i++ {
			c17GoKey(v.Index(i), ctx, sb)
			sb.WriteString(",")
		}
		sb.WriteString("]")
	case reflect.Map:
		if v.IsNil() {
			sb.WriteString("nil-map")
			return
		}
		var keys []string
		for _, k := range v.MapKeys() {
			keys = append(keys, k.String())
		}
		sort.Strings(keys)
		sb.WriteString("map[")
		for _, k := range keys {
			sb.WriteString(fmt.Sprintf("%q:", k))
			c17GoKey(v.MapIndex(reflect.ValueOf(k)), ctx, sb)
			sb.WriteString(",")
		}
		sb.WriteString("]")
	default:
		sb.WriteString(fmt.Sprintf("%#v", v.Interface()))
	}
}

func c17SchemaKey(s *hcl.BodySchema, partial bool) string {
	var parts []string
	for _, a := range s.Attributes {
		if strings.HasPrefix(a.Name, "pad_") {
			continue
		}
		parts = append(parts, fmt.Sprintf("attr %s %v", a.Name, a.Required))
	}
	for _, b := range s.Blocks {
		parts = append(parts, fmt.Sprintf("block %s %v", b.Type, b.LabelNames))
	}
	sort.Strings(parts)
	return strings.Join(parts, ";") + fmt.Sprint(partial)
}

func c17GohclProgram(c *core.Case) (*c17Prog, *gen.Scope) {
	r := c.Rng
	sc := gen.NewScope(r, gen.ValOpts{StrLevel: 1})
	sc.Set("deep", gen.Value(r, cty.List(cty.Object(map[string]cty.Type{"id": cty.Number, "tags": cty.List(cty.String), "sub": cty.Object(map[string]cty.Type{"name": cty.String})})), gen.ValOpts{StrLevel: 1}))
	pick := func() string { return gen.Pick(r, c17Directed) }
	padBase := fmt.Sprintf("pad_%d_%d", c.Batch, c.Index)

	// nested block type "svc": two labels, a dynamically typed argument, an
	// optional string argument, optionally the rest as attributes
	svcF := []c17GField{{"Kind", "kind,label", c17StrT}, {"Nm", "nm,label", c17StrT}, {"Val", "val", c17ValT}, {"Opt", "opt,optional", reflect.PointerTo(c17StrT)}}
	svcRemain := gen.Chance(r, 0.5)
	if svcRemain {
		svcF = append(svcF, c17GField{"Rest", ",remain", c17AttrsT})
	}
	oneF := []c17GField{{"X", "x,optional", c17ValT}}
	if gen.Chance(r, 0.5) {
		oneF = append(oneF, c17GField{"E", "e,optional", c17ExprT})
	}
	build := func(variant string) reflect.Type {
		svcT := c17StructOf(svcF, padBase+"_svc_"+variant)
		oneT := c17StructOf(oneF, padBase+"_one_"+variant)
		top := []c17GField{
			{"Name", "name", c17StrT},
			{"Names", "names,optional", reflect.SliceOf(c17StrT)},
			{"Tagmap", "tagmap,optional", reflect.MapOf(c17StrT, c17StrT)},
			{"Any", "any,optional", c17ValT},
			{"Svcs", "svc,block", reflect.SliceOf(svcT)},
			{"One", "one,block", reflect.PointerTo(oneT)},
			{"Rest", ",remain", c17BodyT},
		}
		return c17StructOf(top, padBase+"_top_"+variant)
	}
	soloT, stormT := build("a"), build("b")

	// the configuration
	var sb strings.Builder
	sb.WriteString("name = \"${s}-${t}\"\n")
	if gen.Chance(r, 0.8) {
		sb.WriteString("names = [for d in deep : upper(d.sub.name)]\n")
	}
	if gen.Chance(r, 0.6) {
		sb.WriteString("tagmap = { for i, d in deep : \"k${i}\" => join(\",\", d.tags[*]) }\n")
	}
	if gen.Chance(r, 0.8) {
		sb.WriteString("any = " + pick() + "\n")
	}
	nsvc := r.Intn(4)
	for i := 0; i < nsvc; i++ {
		sb.WriteString(fmt.Sprintf("svc \"k%d\" \"n%d\" {\n  val = %s\n", i%2, i, pick()))
		if gen.Chance(r, 0.5) {
			sb.WriteString("  opt = \"${t}/${s}\"\n")
		}
		if svcRemain && gen.Chance(r, 0.6) {
			sb.WriteString("  extra = " + pick() + "\n")
		}
		sb.WriteString("}\n")
	}
	if gen.Chance(r, 0.6) {
		sb.WriteString("one {\n  x = " + pick() + "\n")
		if len(oneF) > 1 {
			sb.WriteString("  e = " + pick() + "\n")
		}
		sb.WriteString("}\n")
	}
	if gen.Chance(r, 0.5) {
		sb.WriteString("left_over = " + pick() + "\n")
	}
	p := &c17Prog{kind: "gohcl-body", src: sb.String(), firstUse: true}
	p.splats = strings.Count(p.src, "*")
	f, d := hclsyntax.ParseConfig([]byte(p.src), "g.hcl", hcl.InitialPos)
	if d.HasErrors() {
		return nil, nil
	}
	var body hcl.Body = f.Body
	if gen.Chance(r, 0.3) {
		// the same content as a JSON document: expressions as templates
		if js, ok := c17GohclJSON(f.Body.(*hclsyntax.Body), []byte(p.src)); ok {
			jf, jd := hcljson.Parse([]byte(js), "g.json")
			if !jd.HasErrors() {
				body = jf.Body
				p.src = js
				p.kind = "gohcl-json-body"
			}
		}
	}
	decode := func(ty reflect.Type) func(ctx *hcl.EvalContext) string {
		return func(ctx *hcl.EvalContext) string {
			ptr := reflect.New(ty)
			diags := gohcl.DecodeBody(body, ctx, ptr.Interface())
			var out strings.Builder
			c17GoKey(ptr.Elem(), ctx, &out)
			return out.String() + " || " + diagCmpKey(diags)
		}
	}
	schema := func(ty reflect.Type) func(ctx *hcl.EvalContext) string {
		return func(ctx *hcl.EvalContext) string {
			s, partial := gohcl.ImpliedBodySchema(reflect.New(ty).Interface())
			return c17SchemaKey(s, partial)
		}
	}
	exprSrc := pick()
	e, ed := hclsyntax.ParseExpression([]byte(exprSrc), "ge.hcl", hcl.InitialPos)
	p.ops = []c17Op{
		{name: "gohcl.DecodeBody", run: decode(soloT), storm: decode(stormT)},
		{name: "gohcl.ImpliedBodySchema", run: schema(soloT), storm: schema(stormT)},
	}
	if !ed.HasErrors() {
		p.ops = append(p.ops, c17Op{name: "gohcl.DecodeExpression", run: func(ctx *hcl.EvalContext) string {
			var v cty.Value
			diags := gohcl.DecodeExpression(e, ctx, &v)
			return valDiagKey(v, diags)
		}})
	}
	return p, sc
}

// c17GohclJSON writes the attributes and blocks of a parsed native body as a
// JSON document whose strings are the expressions' source text as templates.
func c17GohclJSON(b *hclsyntax.Body, src []byte) (string, bool) {
	var parts []string
	var names []string
	for n := range b.Attributes {
		names = append(names, n)
	}
	sort.Strings(names)
	for _, n := range names {
		rng := b.Attributes[n].Expr.Range()
		text := string(src[rng.Start.Byte:rng.End.Byte])
		if strings.HasPrefix(text, "\"") {
			// already a template
			parts = append(parts, gen.JSONQuote(nil, n)+": "+gen.JSONQuote(nil, text[1:len(text)-1]))
		} else {
			parts = append(parts, gen.JSONQuote(nil, n)+": "+gen.JSONQuote(nil, "${"+text+"}"))
		}
	}
	byType := map[string][]string{}
	var order []string
	for _, blk := range b.Blocks {
		inner, ok := c17GohclJSON(blk.Body, src)
		if !ok {
			return "", false
		}
		for i := len(blk.Labels) - 1; i >= 0; i-- {
			inner = "{" + gen.JSONQuote(nil, blk.Labels[i]) + ": " + inner + "}"
		}
		if _, seen := byType[blk.Type]; !seen {
			order = append(order, blk.Type)
		}
		byType[blk.Type] = append(byType[blk.Type], inner)
	}
	for _, ty := range order {
		parts = append(parts, gen.JSONQuote(nil, ty)+": ["+strings.Join(byType[ty], ", ")+"]")
	}
	return "{" + strings.Join(parts, ", ") + "}", true
}
