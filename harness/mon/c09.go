package mon

import (
	"bytes"
	"fmt"
	"os"
	"os/exec"
	"path/filepath"
	"sort"
	"strings"

	"github.com/hashicorp/hcl/v2"
	"github.com/hashicorp/hcl/v2/hclsyntax"
	"github.com/hashicorp/hcl/v2/hclwrite"
	"github.com/zclconf/go-cty/cty"

	"verifharness/core"
	"verifharness/gen"
)

func init() {
	Register(&Spec{
		ID:        "C09",
		Technique: "runtime monitoring: token-sequence identity, re-parse/value equivalence and idempotence monitors around hclwrite.Format on generated configurations with layout noise",
		Rule: "each case is an error-free configuration: a generated body tree (attributes with full expressions over a generated scope, labelled/nested/one-line blocks) rendered with random layout noise (spaces/tabs/none between tokens, newlines and comments inside brackets, redundant parentheses, heredocs, CRLF, BOM, no final newline), or one of a fixed list of adjacency micro-cases wrapped in random noise; judged by token identity of Format(src) with src, error-free re-parse with equal attribute values, and Format(Format(src)) == Format(src); " +
			"non-trivial = the source has >= 12 tokens and Format changed at least one byte; distinct by source hash",
		Assumptions: []string{"hclsyntax.LexConfig defines the token sequence of a text (its own tiling is C14's subject)", "cty value equality"},
		Quick:       Plan{Batches: 16, PerBatch: 1500, MinNonTrivial: 8000},
		Thorough:    Plan{Batches: 64, PerBatch: 12000, MinNonTrivial: 150000},
		Case:        c09Case,
	})
}

type tokPair struct {
	Type  hclsyntax.TokenType
	Bytes string
}

func lexPairs(src []byte) ([]tokPair, hcl.Diagnostics) {
	toks, d := hclsyntax.LexConfig(src, "t.hcl", hcl.InitialPos)
	out := make([]tokPair, 0, len(toks))
	for _, t := range toks {
		out = append(out, tokPair{t.Type, string(t.Bytes)})
	}
	return out, d
}

func firstTokDiff(a, b []tokPair) string {
	n := len(a)
	if len(b) < n {
		n = len(b)
	}
	for i := 0; i < n; i++ {
		if a[i] != b[i] {
			return fmt.Sprintf("token %d: source has %s %q, output has %s %q", i, a[i].Type, a[i].Bytes, b[i].Type, b[i].Bytes)
		}
	}
	if len(a) != len(b) {
		return fmt.Sprintf("source has %d tokens, output has %d (first %d equal)", len(a), len(b), n)
	}
	return ""
}

// c09Micro are adjacency cases where deleting or inserting a space could merge
// or split tokens. Each is a complete, valid configuration.
var c09Micro = []string{
	"a = foo.0 .1\n", "a = foo.0.bar\n", "a = foo .0\n", "a = 1 - -1\n", "a = 1 - - 1\n", "a = - - 1\n", "a = !!true\n", "a = ! ! true\n", "a = - (1)\n",
	"a = 1 -1\n", "a = x -1\n", "a = x - 1\n", "a = x-1 - 1\n", "a = [for x in(y): x]\n", "a = [for x in[1]: x if(x)]\n", "a = {for k, v in y: k => v...}\n",
	"a = x ? - 1 : ! y\n", "a = x?y:z\n", "a = \"${ {a=1}.a }\"\n", "a = \"${~ x ~}\"\n", "a = \"%{ if x ~} y %{~ endif }\"\n", "a = \"%{for v in y}${v}%{endfor}\"\n",
	"a = f ( x , y ... )\n", "a = f(x...)\n", "a = x [ 0 ] . b\n", "a = x . * . b\n", "a = x [ * ] . b [ 0 ]\n", "a = x.*\n", "a = [ ]\n", "a = { }\n", "a = {a=1,b=2}\n", "a = {a:1}\n",
	"a = 1 /* c */ + /* d */ 2\n", "a = 1 # c\n", "a = 1 // c\n", "a = [ # c\n 1, // d\n 2 /* e */ ]\n", "a = (\n1\n+\n2\n)\n", "a = <<EOT\nhi ${x}\nEOT\n", "a = <<-EOT\n  hi\n  EOT\n",
	"a = f(<<EOT\nx\nEOT\n)\n", "a = [<<EOT\nx\nEOT\n, 1]\n", "b \"l\" { a = 1 }\n", "b {}\n", "b { }\n", "b l {\n}\n", "b \"l\" \"m\" {\n a = 1\n}\n", "a=1\nbb=2\nccc = 3\n", "a = 1 == 1\n", "a = 1 != 1\n",
	"a = 1 <= 2 && 2 >= 1 || !false\n", "a = x % y\n", "a = x %{a=1}.a\n", "a = 1e5 + 1.5e-3\n", "a = null\n", "a = x == null ? 1 : 0\n", "a = ns::f(1)\n", "a = x[\"k\"]\n", "a = x[y.z]\n", "a = x [y]\n",
	"a = [1,2,]\n", "a = {\n  b = 1\n  c = 2,\n}\n", "a = ( x )\n", "a = -x.y[0]\n", "a = !x.y\n", "a = x.y.z\n", "a = x[0][1]\n", "a = \"$${x} %%{y} $ % $$ %%\"\n", "a = \"\\\"q\\\" \\\\ \\n\"\n",
	"a = 1.5 .2\n", "a = x.0 .1 .2 .3\n", "a = 1e5 .2\n", "a = 1.5 .e5 .2\n", "a = x.0 .e5\n", "a = 1 .e5\n", "a = x.0 .E5x\n", "a = x.0 .e-5\n", "a = x.0 .e5 .e6\n", "a = x.0 /* c */ .e5\n", "a = x.0 .e\n", "a = 1e5 .e5\n", "a = 1.5 .e5\n", "a = x.0 .e5 # c", "a = [x.0 .e5]\n",
	"a = foo.0 .1 # c\n", "a = foo.0 .1 // c\n", "a = foo.0 .1", "a = foo.0 .1 .2 # c\n", "a = foo.0 .1 .2", "a = foo. /* c */ 0 .1\n", "a = foo .0 /* c */ .1 .2\n", "a = foo.0 .1 /* c */\n",
	"a = [foo.0 .1, 2]\n", "b { a = foo.0 .1 }\n", "a = foo[0 /* first */]\n", "a = foo[0\n]\n", "a = foo[ /* k */ \"k\" /* after */ ]\n", "a = \"${foo[0 /* c */]}\"\n", "a = x. /* c */ y\n", "a = x /* c */ [0]\n",
	"a = 1\n\n\n\nb = 2\n", "# lead\na = 1\n", "/* lead */ a = 1\n", "a = 1 /* trail */\n", "b { # c\n}\n", "b {\n # only comment\n}\n", "a = x /*c*/ . /*d*/ y\n", "a = x.0 + y.0\n", "a = x.0[1]\n",
}

func init() {
	// comments that end the file (no final newline) and end in blanks: the blanks
	// are part of the comment token
	c09Micro = append(c09Micro, "a = 1 # c  ", "a = 1 // c \t ", "a = 1\n# keep two blanks  ", "# only  ", "b {\n}\n// end \t", "a = 1 /* c */  ", "a = 1  ", "a = 1 # c  \n")
	// single tokens longer than any buffer an implementation is likely to use
	for _, n := range []int{300, 520, 1100, 4200, 9000} {
		long := strings.Repeat("abcdefghij", n/10)
		c09Micro = append(c09Micro,
			"k = 1\nkey = \""+long+"\"\nz = 2\n",
			"k = 1 # "+long+"\nz = 2\n",
			"k = 1\n/* "+long+" */\nz = 2\n",
			"k = 1\n"+long+" = 2\nz = 3\n",
			"k = 1\nh = <<EOT\n"+long+"\n  ${k} "+long+"\nEOT\nz = 2\n",
			"k = 1\nn = 1"+strings.Repeat("0123456789", n/10)+"\nz = 2\n",
			"k = [\""+long+"\", \""+long+"\"]\nblk \""+long+"\" {\n  a = 1\n}\n",
		)
	}
}

func c09Source(c *core.Case) ([]byte, *gen.Scope) {
	r := c.Rng
	if r.Intn(5) == 0 {
		// micro case, optionally embedded in a generated file
		src := gen.Pick(r, c09Micro)
		sc := gen.NewScope(r, gen.ValOpts{StrLevel: 1})
		if gen.Chance(r, 0.5) {
			src = "z0 = 1\n" + src + "z9 = 2\n"
		}
		if gen.Chance(r, 0.3) {
			src = strings.ReplaceAll(src, " ", gen.Pick(r, []string{"  ", "\t", " \t "}))
		}
		if gen.Chance(r, 0.15) && !strings.Contains(src, "EOT") {
			src = strings.ReplaceAll(src, "\n", "\r\n")
		}
		c.Count("source:micro")
		if gen.Chance(r, 0.4) {
			if rs, ok := respace(r, []byte(src), gen.Chance(r, 0.25)); ok {
				c.Count("source:micro+respaced")
				return rs, sc
			}
		}
		return []byte(src), sc
	}
	body, sc := exprConfig(r, 3, 2, 0.1)
	fl := gen.RandomFileLayout(r)
	if gen.Chance(r, 0.5) {
		fl.Expr.Noise = 0.8
		fl.Gap = 0.6
	}
	c.Count("source:generated")
	src := []byte(gen.RenderNative(body, fl))
	if gen.Chance(r, 0.4) {
		if rs, ok := respace(r, src, gen.Chance(r, 0.2)); ok {
			c.Count("source:generated+respaced")
			return rs, sc
		}
	}
	return src, sc
}

var c09Other = []byte("other   =   [ 1,2 ,3 ]   # an unrelated configuration\nblock   \"l\"   {\n a=1\n}\n")

func c09Case(c *core.Case) {
	src, sc := c09Source(c)
	c.SetInput(string(src))
	f, diags := hclsyntax.ParseConfig(src, "t.hcl", hcl.InitialPos)
	c.Evals(1)
	if diags.HasErrors() {
		c.Count("skipped:source-has-parse-errors")
		return
	}
	out := hclwrite.Format(src)
	c.Evals(1)
	// the formatter's output belongs to the caller: later Format calls (here:
	// the idempotence call and one on an unrelated input) must not change it
	snapshot := string(out)
	defer func() {
		hclwrite.Format(c09Other)
		if string(out) != snapshot {
			c.Violation("output-changed-by-a-later-call", fmt.Sprintf("the bytes returned by Format(src) changed after later Format calls on other inputs:\nreturned: %q\nnow:      %q", trunc(snapshot, 500), trunc(string(out), 500)), nil)
		} else {
			c.Count("output-stable-across-later-calls")
		}
	}()
	srcToks, _ := lexPairs(src)
	outToks, _ := lexPairs(out)
	if d := firstTokDiff(srcToks, outToks); d != "" {
		c.Violation("tokens-changed/"+tokDiffShape(srcToks, outToks), "Format changed the token sequence: "+d, map[string]any{"out": string(out)})
		return
	}
	c.Count("token-identity-held")
	// the output differs from the input only in spaces and tabs
	// (a UTF-8 BOM is not part of any token; the formatter drops it, which the
	// token-identity statement of the property permits)
	if stripBlank(bytes.TrimPrefix(src, utf8BOM)) != stripBlank(bytes.TrimPrefix(out, utf8BOM)) {
		c.Violation("non-space-bytes-changed", "Format output differs from its input in bytes other than spaces/tabs", map[string]any{"out": string(out)})
		return
	}
	f2, d2 := hclsyntax.ParseConfig(out, "t.hcl", hcl.InitialPos)
	c.Evals(1)
	if d2.HasErrors() {
		c.Violation("output-does-not-parse", "Format output has parse errors: "+diagStr(d2), map[string]any{"out": string(out)})
		return
	}
	ctx := evalCtx(sc)
	if msg := compareBodies(c, f.Body.(*hclsyntax.Body), f2.Body.(*hclsyntax.Body), ctx, "root"); msg != "" {
		c.Violation("meaning-changed", msg, map[string]any{"out": string(out)})
		return
	}
	out2 := hclwrite.Format(out)
	c.Evals(1)
	if !bytes.Equal(out, out2) {
		c.Violation("not-idempotent", fmt.Sprintf("Format(Format(src)) differs from Format(src):\n1: %q\n2: %q", trunc(string(out), 600), trunc(string(out2), 600)), nil)
		return
	}
	c.Count("idempotence-held")
	// the command-line front end on a file: hclfmt -w leaves exactly Format(src)
	// in the file, a second run changes nothing and -require-no-change agrees
	if bin := os.Getenv("HV_HCLFMT_BIN"); bin != "" && c.Index%64 == 0 {
		dir, err := os.MkdirTemp(filepath.Join("/verif", "work"), "hclfmt-")
		if err == nil {
			defer os.RemoveAll(dir)
			fn := filepath.Join(dir, "f.hcl")
			os.WriteFile(fn, src, 0o644)
			run1 := exec.Command(bin, "-w", fn)
			o1, e1 := run1.CombinedOutput()
			after, _ := os.ReadFile(fn)
			c.Evals(1)
			if e1 != nil {
				c.Violation("hclfmt/-w-fails", fmt.Sprintf("hclfmt -w on a valid configuration failed: %v %s", e1, trunc(string(o1), 300)), nil)
				return
			}
			if !bytes.Equal(after, out) {
				c.Violation("hclfmt/-w-file-content", fmt.Sprintf("after hclfmt -w the file does not hold Format(src):\nfile:   %q\nFormat: %q", trunc(string(after), 500), trunc(string(out), 500)), nil)
				return
			}
			run2 := exec.Command(bin, "-w", "-require-no-change", fn)
			o2, e2 := run2.CombinedOutput()
			again, _ := os.ReadFile(fn)
			if e2 != nil || !bytes.Equal(again, out) {
				c.Violation("hclfmt/second-run-changes", fmt.Sprintf("a second hclfmt -w -require-no-change on the formatted file: err=%v output=%s file=%q", e2, trunc(string(o2), 200), trunc(string(again), 300)), nil)
				return
			}
			c.Count("hclfmt-cli-agreed")
		}
	}
	if len(srcToks) >= 12 && !bytes.Equal(src, out) {
		c.NonTrivial(string(src))
	}
	if c.WantSample() {
		c.Sample(map[string]any{"src": trunc(string(src), 300), "formatted": trunc(string(out), 300)})
	}
}

func stripBlank(b []byte) string {
	var sb strings.Builder
	for _, c := range b {
		if c != ' ' && c != '\t' {
			sb.WriteByte(c)
		}
	}
	return sb.String()
}

// tokDiffShape names the first differing token pair by type, for classes.
func tokDiffShape(a, b []tokPair) string {
	n := len(a)
	if len(b) < n {
		n = len(b)
	}
	for i := 0; i < n; i++ {
		if a[i] != b[i] {
			prev := "start"
			if i > 0 {
				prev = a[i-1].Type.String()
			}
			return fmt.Sprintf("after-%s/%s-became-%s", prev, a[i].Type, b[i].Type)
		}
	}
	return "length"
}

// compareBodies checks that two parses describe the same configuration:
// same attribute names, same block sequence/labels, same attribute values.
func compareBodies(c *core.Case, a, b *hclsyntax.Body, ctx *hcl.EvalContext, path string) string {
	if len(a.Attributes) != len(b.Attributes) {
		return fmt.Sprintf("%s: %d attributes before, %d after", path, len(a.Attributes), len(b.Attributes))
	}
	names := make([]string, 0, len(a.Attributes))
	for n := range a.Attributes {
		names = append(names, n)
	}
	sort.Strings(names)
	for _, n := range names {
		aa, ok := b.Attributes[n]
		if !ok {
			return fmt.Sprintf("%s: attribute %q missing after", path, n)
		}
		v1, d1 := a.Attributes[n].Expr.Value(ctx)
		v2, d2 := aa.Expr.Value(ctx)
		c.Evals(2)
		if d1.HasErrors() != d2.HasErrors() {
			return fmt.Sprintf("%s.%s: evaluation error-ness differs: before %q after %q", path, n, diagStr(d1), diagStr(d2))
		}
		if !d1.HasErrors() && !sameVal(v1, v2) {
			return fmt.Sprintf("%s.%s: value before %s, after %s", path, n, valStr(v1), valStr(v2))
		}
		c.Count("attr-values-compared")
	}
	if len(a.Blocks) != len(b.Blocks) {
		return fmt.Sprintf("%s: %d blocks before, %d after", path, len(a.Blocks), len(b.Blocks))
	}
	for i := range a.Blocks {
		x, y := a.Blocks[i], b.Blocks[i]
		if x.Type != y.Type || fmt.Sprintf("%q", x.Labels) != fmt.Sprintf("%q", y.Labels) {
			return fmt.Sprintf("%s: block %d is %s %q before, %s %q after", path, i, x.Type, x.Labels, y.Type, y.Labels)
		}
		if m := compareBodies(c, x.Body, y.Body, ctx, fmt.Sprintf("%s/%s[%d]", path, x.Type, i)); m != "" {
			return m
		}
	}
	return ""
}

var _ = cty.NilVal
