package mon

import (
	"bytes"
	"math/rand"

	"github.com/hashicorp/hcl/v2"
	"github.com/hashicorp/hcl/v2/hclsyntax"

	"verifharness/gen"
)

// respace re-spells a valid configuration token by token: the bytes between
// two adjacent tokens that are both outside template text are replaced by a
// random separator (nothing, spaces, tabs, an inline comment), so that every
// pair of adjacent tokens — traversal steps, operators, brackets, the end of a
// line before its comment or newline — occurs with every kind of gap. The
// result is returned only if it lexes to the same non-comment token sequence
// and parses without errors (otherwise ok is false and the caller keeps the
// original).
func respace(r *rand.Rand, src []byte, dropFinalNewline bool) ([]byte, bool) {
	toks, d := hclsyntax.LexConfig(src, "r.hcl", hcl.InitialPos)
	if d.HasErrors() || len(toks) < 3 {
		return nil, false
	}
	var out bytes.Buffer
	// stack of lexer modes: true = template text
	stack := []bool{false}
	inTemplate := func() bool { return stack[len(stack)-1] }
	prevEnd := 0
	if bytes.HasPrefix(src, utf8BOM) {
		out.Write(utf8BOM)
		prevEnd = len(utf8BOM)
	}
	for i, t := range toks {
		start, end := t.Range.Start.Byte, t.Range.End.Byte
		gap := src[prevEnd:start]
		// a gap is re-spelled only between two tokens in normal mode that both sit on the same line
		plain := !inTemplate() && i > 0 && len(bytes.TrimLeft(gap, " \t")) == 0
		if plain {
			switch t.Type {
			case hclsyntax.TokenEOF:
				plain = false
			}
			pt := toks[i-1].Type
			if pt == hclsyntax.TokenNewline || pt == hclsyntax.TokenCHeredoc || pt == hclsyntax.TokenOHeredoc {
				plain = false // indentation at the start of a line is the formatter's own business but heredoc ends are not gaps
			}
			if pt == hclsyntax.TokenComment && bytes.HasSuffix(toks[i-1].Bytes, []byte("\n")) {
				plain = false
			}
		}
		if plain && gen.Chance(r, 0.5) {
			prevB := toks[i-1].Bytes
			pre := ""
			if bytes.HasSuffix(prevB, []byte("/")) {
				pre = " "
			}
			switch r.Intn(8) {
			case 0:
				gap = nil
			case 1:
				gap = []byte(" ")
			case 2:
				gap = []byte("   ")
			case 3:
				gap = []byte("\t")
			case 4:
				gap = []byte(" /* c */ ")
			case 5:
				gap = []byte(pre + "/**/")
			case 6:
				gap = []byte(pre + "/* x=1 */")
			case 7:
				gap = []byte(" \t ")
			}
		}
		out.Write(gap)
		if t.Type == hclsyntax.TokenEOF {
			break
		}
		if dropFinalNewline && i == len(toks)-2 && t.Type == hclsyntax.TokenNewline {
			break
		}
		out.Write(t.Bytes)
		prevEnd = end
		switch t.Type {
		case hclsyntax.TokenOQuote, hclsyntax.TokenOHeredoc:
			stack = append(stack, true)
		case hclsyntax.TokenCQuote, hclsyntax.TokenCHeredoc:
			if len(stack) > 1 {
				stack = stack[:len(stack)-1]
			}
		case hclsyntax.TokenTemplateInterp, hclsyntax.TokenTemplateControl:
			stack = append(stack, false)
		case hclsyntax.TokenTemplateSeqEnd:
			if len(stack) > 1 {
				stack = stack[:len(stack)-1]
			}
		}
	}
	res := out.Bytes()
	if bytes.Equal(res, src) {
		return nil, false
	}
	// validity: same non-comment tokens, no parse errors
	a, ad := lexPairs(src)
	b, bd := lexPairs(res)
	if ad.HasErrors() || bd.HasErrors() {
		return nil, false
	}
	strip := func(ts []tokPair) []tokPair {
		var o []tokPair
		for _, t := range ts {
			if t.Type != hclsyntax.TokenComment {
				o = append(o, t)
			}
		}
		// compared modulo one final newline token before EOF
		if dropFinalNewline && len(o) >= 2 && o[len(o)-2].Type == hclsyntax.TokenNewline {
			o = append(o[:len(o)-2:len(o)-2], o[len(o)-1])
		}
		return o
	}
	sa, sb := strip(a), strip(b)
	if firstTokDiff(sa, sb) != "" {
		return nil, false
	}
	if _, pd := hclsyntax.ParseConfig(res, "r.hcl", hcl.InitialPos); pd.HasErrors() {
		return nil, false
	}
	return res, true
}
