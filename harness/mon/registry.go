// Package mon holds one monitor per property. A monitor generates cases from
// the case PRNG, drives the real hcl packages and judges what it observed.
package mon

import (
	"sort"

	"verifharness/core"
)

// Plan sizes one tier: Batches worker processes of PerBatch cases each.
// MinNonTrivial is the number of distinct non-trivial cases below which the
// run is reported as a broken check rather than a pass.
type Plan struct {
	Batches       int
	PerBatch      int
	MinNonTrivial int
}

type Spec struct {
	ID          string
	Rule        string
	Technique   string
	Assumptions []string
	Quick       Plan
	Thorough    Plan
	// Case runs one generated case.
	Case func(c *core.Case)
	// Batch, when set, runs a whole batch itself (used by monitors that need
	// goroutine storms or batch-level state); it must call w.RunOne or
	// account evaluations itself.
	Batch func(w *core.Worker, n int)
	// HangClass refines the class of a CPU-hang violation from the input that
	// was executing (so that distinct hangs are distinct findings).
	HangClass func(input string) string
	// Race says the worker must be the -race build.
	Race bool
}

var Registry = map[string]*Spec{}

func Register(s *Spec) { Registry[s.ID] = s }

func IDs() []string {
	var ids []string
	for id := range Registry {
		ids = append(ids, id)
	}
	sort.Strings(ids)
	return ids
}

func (s *Spec) Plan(tier string) Plan {
	if tier == "thorough" {
		return s.Thorough
	}
	return s.Quick
}
