package mon

import (
	"fmt"
	"math/rand"
	"sort"
	"strings"

	"github.com/hashicorp/hcl/v2"
	"github.com/hashicorp/hcl/v2/hcldec"
	"github.com/hashicorp/hcl/v2/hclsyntax"
	"github.com/zclconf/go-cty/cty"
	"github.com/zclconf/go-cty/cty/convert"
	"github.com/zclconf/go-cty/cty/function"

	"verifharness/gen"
)

// specGen builds hcldec specs for abstract bodies within the documented
// preconditions of each spec kind, and interprets them (expect*) as an
// independent statement of what decoding must produce.
type specGen struct {
	r           *rand.Rand
	labelCounts map[string]int
	want        map[*gen.Attr]cty.Value
	kindsUsed   map[string]int
}

func (sg *specGen) use(k string) { sg.kindsUsed[k]++ }

// primitiveOnly reports whether every attribute value below the bodies is a
// non-null primitive (so that a dynamic-free nested spec exists).
func (sg *specGen) primitiveOnly(bodies []*gen.Body) bool {
	for _, b := range bodies {
		for _, a := range b.Attrs() {
			v := sg.want[a]
			if v.IsNull() || !v.Type().IsPrimitiveType() {
				return false
			}
		}
		for _, blk := range b.Blocks() {
			if !sg.primitiveOnly([]*gen.Body{blk.Body}) {
				return false
			}
		}
	}
	return true
}

// attrType picks the spec type for an attribute given all values it takes.
func (sg *specGen) attrType(vals []cty.Value, concrete bool) cty.Type {
	same := true
	for _, v := range vals {
		if !v.Type().Equals(vals[0].Type()) {
			same = false
		}
	}
	if !concrete && gen.Chance(sg.r, 0.5) {
		return cty.DynamicPseudoType
	}
	if same && !vals[0].IsNull() && vals[0].Type() != cty.DynamicPseudoType && !vals[0].Type().HasDynamicTypes() {
		if vals[0].Type().IsPrimitiveType() && gen.Chance(sg.r, 0.3) {
			return cty.String // every primitive converts to string
		}
		return vals[0].Type()
	}
	if concrete {
		return cty.String
	}
	return cty.DynamicPseudoType
}

// bodySpec builds the ObjectSpec for a body position that is shared by the
// given bodies (all blocks of one type in one parent, or the root).
// nlabels BlockLabelSpecs are added when labelsInside is set.
func (sg *specGen) bodySpec(bodies []*gen.Body, concrete bool, labelsInside int) hcldec.ObjectSpec {
	obj := hcldec.ObjectSpec{}
	// (sometimes the last label is read only as the default of an optional argument)
	viaDefault := -1
	if labelsInside > 0 && gen.Chance(sg.r, 0.25) {
		viaDefault = labelsInside - 1
		obj["zz_label_or_argument"] = &hcldec.DefaultSpec{Primary: &hcldec.AttrSpec{Name: "zz_label_or_argument", Type: cty.String}, Default: &hcldec.BlockLabelSpec{Index: viaDefault, Name: fmt.Sprintf("l%d", viaDefault)}}
		sg.use("DefaultSpec")
		sg.use("BlockLabelSpec")
	}
	for i := 0; i < labelsInside; i++ {
		if i == viaDefault {
			continue
		}
		obj[fmt.Sprintf("label%d", i)] = &hcldec.BlockLabelSpec{Index: i, Name: fmt.Sprintf("l%d", i)}
		sg.use("BlockLabelSpec")
	}
	// attributes: union over bodies
	attrVals := map[string][]cty.Value{}
	present := map[string]int{}
	var names []string
	for _, b := range bodies {
		for _, a := range b.Attrs() {
			if _, ok := attrVals[a.Name]; !ok {
				names = append(names, a.Name)
			}
			attrVals[a.Name] = append(attrVals[a.Name], sg.want[a])
			present[a.Name]++
		}
	}
	sort.Strings(names)
	for _, n := range names {
		ty := sg.attrType(attrVals[n], concrete)
		as := &hcldec.AttrSpec{Name: n, Type: ty, Required: present[n] == len(bodies) && gen.Chance(sg.r, 0.5)}
		sg.use("AttrSpec")
		var sp hcldec.Spec = as
		if !as.Required && ty != cty.DynamicPseudoType && !ty.HasDynamicTypes() && gen.Chance(sg.r, 0.3) {
			sp = &hcldec.DefaultSpec{Primary: as, Default: &hcldec.LiteralSpec{Value: gen.Value(sg.r, ty, gen.ValOpts{StrLevel: 1})}}
			sg.use("DefaultSpec")
			sg.use("LiteralSpec")
		} else if gen.Chance(sg.r, 0.1) {
			sp = &hcldec.ValidateSpec{Wrapped: as, Func: func(v cty.Value) hcl.Diagnostics { return nil }}
			sg.use("ValidateSpec")
		} else if as.Required && ty != cty.DynamicPseudoType && gen.Chance(sg.r, 0.1) {
			sp = &hcldec.RefineValueSpec{Wrapped: as, Refine: func(b *cty.RefinementBuilder) *cty.RefinementBuilder { return b }}
			sg.use("RefineValueSpec")
		} else if as.Required && ty != cty.DynamicPseudoType && !ty.HasDynamicTypes() && gen.Chance(sg.r, 0.08) {
			// one parsed expression object shared by every spec that uses it,
			// whatever the wrapped type (as an application's spec table would)
			sp = &hcldec.TransformExprSpec{Wrapped: as, Expr: xformWrap, VarName: "v", TransformCtx: &hcl.EvalContext{Functions: stdCtyFuncs}}
			sg.use("TransformExprSpec")
		} else if ty == cty.String && gen.Chance(sg.r, 0.3) {
			switch sg.r.Intn(3) {
			case 0:
				sp = &hcldec.TransformFuncSpec{Wrapped: as, Func: stdCtyFuncs["idn"]}
				sg.use("TransformFuncSpec")
			case 1:
				if as.Required {
					// result type (number) differs from the wrapped type (string)
					sp = &hcldec.TransformFuncSpec{Wrapped: as, Func: stdCtyFuncs["slen"]}
					sg.use("TransformFuncSpec")
				}
			default:
				if as.Required {
					sp = &hcldec.TransformExprSpec{Wrapped: as, Expr: xformLen, VarName: "v", TransformCtx: &hcl.EvalContext{Functions: stdCtyFuncs}}
					sg.use("TransformExprSpec")
				}
			}
		}
		obj[n] = sp
	}
	if gen.Chance(sg.r, 0.15) {
		obj["lit_extra"] = &hcldec.LiteralSpec{Value: cty.StringVal("const")}
		sg.use("LiteralSpec")
	}
	// blocks: grouped by type over all bodies
	byType := map[string][][]*gen.Block{} // type -> per body list
	var types []string
	for bi, b := range bodies {
		for _, blk := range b.Blocks() {
			if _, ok := byType[blk.Type]; !ok {
				types = append(types, blk.Type)
				byType[blk.Type] = make([][]*gen.Block, len(bodies))
			}
			byType[blk.Type][bi] = append(byType[blk.Type][bi], blk)
		}
	}
	sort.Strings(types)
	for _, ty := range types {
		per := byType[ty]
		var all []*gen.Body
		maxPer, minPer := 0, 1<<30
		for _, l := range per {
			for _, blk := range l {
				all = append(all, blk.Body)
			}
			if len(l) > maxPer {
				maxPer = len(l)
			}
			if len(l) < minPer {
				minPer = len(l)
			}
		}
		nl := sg.labelCounts[ty]
		prim := sg.primitiveOnly(all)
		name := "blk_" + strings.ReplaceAll(ty, "-", "_")
		for {
			if _, clash := obj[name]; !clash {
				break
			}
			name += "_"
		}
		var kinds []string
		kinds = append(kinds, "tuple")
		if nl >= 1 {
			kinds = append(kinds, "object")
		}
		if prim || concrete {
			kinds = append(kinds, "list", "set")
			if nl == 1 {
				// (a BlockMapSpec with two or more labels returns a map one level
				// short of its implied type when no block matches — known finding,
				// exercised by a directed case — so random specs use it with one label)
				kinds = append(kinds, "map")
			}
		}
		if maxPer <= 1 {
			kinds = append(kinds, "single")
			if nl == 0 && prim {
				onlyAttrs := true
				for _, b := range all {
					if len(b.Blocks()) > 0 {
						onlyAttrs = false
					}
				}
				if onlyAttrs {
					kinds = append(kinds, "attrs")
				}
			}
		}
		if concrete {
			// inside a dynamic-free spec only dynamic-free kinds
			var ks []string
			for _, k := range kinds {
				if k != "tuple" && k != "object" {
					ks = append(ks, k)
				}
			}
			kinds = ks
			if len(kinds) == 0 {
				kinds = []string{"list"}
			}
		}
		switch gen.Pick(sg.r, kinds) {
		case "tuple":
			obj[name] = &hcldec.BlockTupleSpec{TypeName: ty, Nested: sg.bodySpec(all, false, nl)}
			sg.use("BlockTupleSpec")
		case "object":
			obj[name] = &hcldec.BlockObjectSpec{TypeName: ty, LabelNames: labelNames(nl), Nested: sg.bodySpec(all, false, 0)}
			sg.use("BlockObjectSpec")
		case "list":
			obj[name] = &hcldec.BlockListSpec{TypeName: ty, Nested: sg.bodySpec(all, true, nl)}
			sg.use("BlockListSpec")
		case "set":
			obj[name] = &hcldec.BlockSetSpec{TypeName: ty, Nested: sg.bodySpec(all, true, nl)}
			sg.use("BlockSetSpec")
		case "map":
			obj[name] = &hcldec.BlockMapSpec{TypeName: ty, LabelNames: labelNames(nl), Nested: sg.bodySpec(all, true, 0)}
			sg.use("BlockMapSpec")
		case "single":
			obj[name] = &hcldec.BlockSpec{TypeName: ty, Nested: sg.bodySpec(all, concrete, nl), Required: minPer >= 1 && gen.Chance(sg.r, 0.5)}
			sg.use("BlockSpec")
		case "attrs":
			ety := cty.String
			obj[name] = &hcldec.BlockAttrsSpec{TypeName: ty, ElementType: ety, Required: minPer >= 1 && gen.Chance(sg.r, 0.5)}
			sg.use("BlockAttrsSpec")
		}
	}
	return obj
}

// transform expressions, parsed once and shared by all specs of the process
var xformLen, _ = hclsyntax.ParseExpression([]byte("[v, slen(v)]"), "transform.hcl", hcl.InitialPos)
var xformWrap, _ = hclsyntax.ParseExpression([]byte("[v]"), "transform.hcl", hcl.InitialPos)

func labelNames(n int) []string {
	out := make([]string, n)
	for i := range out {
		out[i] = fmt.Sprintf("l%d", i)
	}
	return out
}

// ---------------------------------------------------------------- interpreter

// expect computes what decoding body b (whose enclosing block has the given
// labels) under spec must produce; ok=false means the body violates the spec
// (decoding must report an error).
func (sg *specGen) expect(spec hcldec.Spec, b *gen.Body, labels []string) (cty.Value, bool) {
	switch s := spec.(type) {
	case hcldec.ObjectSpec:
		if len(s) == 0 {
			return cty.EmptyObjectVal, true
		}
		m := map[string]cty.Value{}
		okAll := true
		for k, sub := range s {
			v, ok := sg.expect(sub, b, labels)
			if !ok {
				okAll = false
				v = cty.DynamicVal
			}
			m[k] = v
		}
		return cty.ObjectVal(m), okAll
	case hcldec.TupleSpec:
		if len(s) == 0 {
			return cty.EmptyTupleVal, true
		}
		vs := make([]cty.Value, len(s))
		okAll := true
		for i, sub := range s {
			v, ok := sg.expect(sub, b, labels)
			if !ok {
				okAll = false
				v = cty.DynamicVal
			}
			vs[i] = v
		}
		return cty.TupleVal(vs), okAll
	case *hcldec.AttrSpec:
		for _, a := range b.Attrs() {
			if a.Name == s.Name {
				v := sg.want[a]
				if v == cty.NilVal {
					return cty.NilVal, false // the expression fails to evaluate
				}
				cv, err := convert.Convert(v, s.Type)
				if err != nil {
					return cty.NilVal, false
				}
				return cv, true
			}
		}
		if s.Required {
			return cty.NilVal, false
		}
		return cty.NullVal(s.Type), true
	case *hcldec.LiteralSpec:
		return s.Value, true
	case *hcldec.BlockLabelSpec:
		if s.Index >= len(labels) {
			return cty.NilVal, false
		}
		return cty.StringVal(labels[s.Index]), true
	case *hcldec.DefaultSpec:
		v, ok := sg.expect(s.Primary, b, labels)
		if !ok {
			return cty.NilVal, false
		}
		if v.IsNull() {
			return sg.expect(s.Default, b, labels)
		}
		return v, true
	case *hcldec.ValidateSpec:
		return sg.expect(s.Wrapped, b, labels)
	case *hcldec.RefineValueSpec:
		return sg.expect(s.Wrapped, b, labels)
	case *hcldec.TransformFuncSpec:
		v, ok := sg.expect(s.Wrapped, b, labels)
		if !ok {
			return cty.NilVal, false
		}
		out, err := s.Func.Call([]cty.Value{v})
		if err != nil {
			return cty.NilVal, false
		}
		return out, true
	case *hcldec.TransformExprSpec:
		v, ok := sg.expect(s.Wrapped, b, labels)
		if !ok {
			return cty.NilVal, false
		}
		// the harness's transform expressions are [v, slen(v)] and [v]
		if s.Expr == xformWrap {
			return cty.TupleVal([]cty.Value{v}), true
		}
		if v.IsNull() {
			return cty.NilVal, false
		}
		return cty.TupleVal([]cty.Value{v, cty.NumberIntVal(int64(len([]rune(v.AsString()))))}), true
	case *hcldec.BlockSpec:
		blks := blocksOfType(b, s.TypeName)
		switch len(blks) {
		case 0:
			if s.Required {
				return cty.NilVal, false
			}
			return cty.NullVal(hcldec.ImpliedType(s.Nested)), true
		case 1:
			return sg.expect(s.Nested, blks[0].Body, blks[0].Labels)
		}
		return cty.NilVal, false
	case *hcldec.BlockAttrsSpec:
		blks := blocksOfType(b, s.TypeName)
		switch len(blks) {
		case 0:
			if s.Required {
				return cty.NilVal, false
			}
			return cty.NullVal(cty.Map(s.ElementType)), true
		case 1:
			if len(blks[0].Body.Blocks()) > 0 || len(blks[0].Labels) > 0 {
				return cty.NilVal, false
			}
			m := map[string]cty.Value{}
			for _, a := range blks[0].Body.Attrs() {
				if sg.want[a] == cty.NilVal {
					return cty.NilVal, false
				}
				cv, err := convert.Convert(sg.want[a], s.ElementType)
				if err != nil {
					return cty.NilVal, false
				}
				m[a.Name] = cv
			}
			if len(m) == 0 {
				return cty.MapValEmpty(s.ElementType), true
			}
			return cty.MapVal(m), true
		}
		return cty.NilVal, false
	case *hcldec.BlockListSpec:
		vals, ok := sg.expectEach(s.Nested, blocksOfType(b, s.TypeName))
		if !ok || (s.MinItems > 0 && len(vals) < s.MinItems) || (s.MaxItems > 0 && len(vals) > s.MaxItems) {
			return cty.NilVal, false
		}
		if len(vals) == 0 {
			return cty.ListValEmpty(hcldec.ImpliedType(s.Nested)), true
		}
		if !cty.CanListVal(vals) {
			return cty.NilVal, false
		}
		return cty.ListVal(vals), true
	case *hcldec.BlockTupleSpec:
		vals, ok := sg.expectEach(s.Nested, blocksOfType(b, s.TypeName))
		if !ok || (s.MinItems > 0 && len(vals) < s.MinItems) || (s.MaxItems > 0 && len(vals) > s.MaxItems) {
			return cty.NilVal, false
		}
		if len(vals) == 0 {
			return cty.EmptyTupleVal, true
		}
		return cty.TupleVal(vals), true
	case *hcldec.BlockSetSpec:
		vals, ok := sg.expectEach(s.Nested, blocksOfType(b, s.TypeName))
		if !ok || (s.MinItems > 0 && len(vals) < s.MinItems) || (s.MaxItems > 0 && len(vals) > s.MaxItems) {
			return cty.NilVal, false
		}
		if len(vals) == 0 {
			return cty.SetValEmpty(hcldec.ImpliedType(s.Nested)), true
		}
		if !cty.CanSetVal(vals) {
			return cty.NilVal, false
		}
		return cty.SetVal(vals), true
	case *hcldec.BlockMapSpec:
		return sg.expectLabelled(s.Nested, blocksOfType(b, s.TypeName), len(s.LabelNames), true)
	case *hcldec.BlockObjectSpec:
		return sg.expectLabelled(s.Nested, blocksOfType(b, s.TypeName), len(s.LabelNames), false)
	}
	return cty.NilVal, false
}

func blocksOfType(b *gen.Body, ty string) []*gen.Block {
	var out []*gen.Block
	for _, blk := range b.Blocks() {
		if blk.Type == ty {
			out = append(out, blk)
		}
	}
	return out
}

func (sg *specGen) expectEach(nested hcldec.Spec, blks []*gen.Block) ([]cty.Value, bool) {
	var out []cty.Value
	for _, blk := range blks {
		v, ok := sg.expect(nested, blk.Body, blk.Labels)
		if !ok {
			return nil, false
		}
		out = append(out, v)
	}
	return out, true
}

// labelTree is a nested map of label -> (subtree | value)
type labelTree struct {
	kids map[string]*labelTree
	val  *cty.Value
}

func (sg *specGen) expectLabelled(nested hcldec.Spec, blks []*gen.Block, nlabels int, asMap bool) (cty.Value, bool) {
	root := &labelTree{kids: map[string]*labelTree{}}
	for _, blk := range blks {
		if len(blk.Labels) != nlabels {
			return cty.NilVal, false
		}
		v, ok := sg.expect(nested, blk.Body, blk.Labels)
		if !ok {
			return cty.NilVal, false
		}
		cur := root
		for i, l := range blk.Labels {
			l = nfc(l)
			nx, exists := cur.kids[l]
			if !exists {
				nx = &labelTree{kids: map[string]*labelTree{}}
				cur.kids[l] = nx
			}
			if i == nlabels-1 {
				if nx.val != nil {
					return cty.NilVal, false // duplicate block
				}
				vv := v
				nx.val = &vv
			}
			cur = nx
		}
	}
	ety := hcldec.ImpliedType(nested)
	var build func(t *labelTree, depth int) cty.Value
	emptyOf := func(depth int) cty.Type {
		ty := ety
		for i := depth; i < nlabels-1; i++ {
			if asMap {
				ty = cty.Map(ty)
			} else {
				ty = cty.EmptyObject
			}
		}
		return ty
	}
	build = func(t *labelTree, depth int) cty.Value {
		if depth == nlabels {
			return *t.val
		}
		if len(t.kids) == 0 {
			if asMap {
				return cty.MapValEmpty(emptyOf(depth))
			}
			return cty.EmptyObjectVal
		}
		m := map[string]cty.Value{}
		for k, sub := range t.kids {
			m[k] = build(sub, depth+1)
		}
		if asMap {
			return cty.MapVal(m)
		}
		return cty.ObjectVal(m)
	}
	if asMap {
		// elements of a map must share one type
		ok := true
		func() {
			defer func() {
				if r := recover(); r != nil {
					ok = false
				}
			}()
			_ = build(root, 0)
		}()
		if !ok {
			return cty.NilVal, false
		}
	}
	return build(root, 0), true
}

var _ = function.Function{}

// levelSchema collects the attribute names and block types (with label
// counts) a spec expects at one body level.
func levelSchema(spec hcldec.Spec, attrs map[string]bool, blocks map[string]int) {
	switch s := spec.(type) {
	case hcldec.ObjectSpec:
		for _, sub := range s {
			levelSchema(sub, attrs, blocks)
		}
	case hcldec.TupleSpec:
		for _, sub := range s {
			levelSchema(sub, attrs, blocks)
		}
	case *hcldec.AttrSpec:
		attrs[s.Name] = true
	case *hcldec.DefaultSpec:
		levelSchema(s.Primary, attrs, blocks)
		levelSchema(s.Default, attrs, blocks)
	case *hcldec.ValidateSpec:
		levelSchema(s.Wrapped, attrs, blocks)
	case *hcldec.RefineValueSpec:
		levelSchema(s.Wrapped, attrs, blocks)
	case *hcldec.TransformFuncSpec:
		levelSchema(s.Wrapped, attrs, blocks)
	case *hcldec.TransformExprSpec:
		levelSchema(s.Wrapped, attrs, blocks)
	case *hcldec.BlockSpec:
		blocks[s.TypeName] = nestedLabelCount(s.Nested)
	case *hcldec.BlockListSpec:
		blocks[s.TypeName] = nestedLabelCount(s.Nested)
	case *hcldec.BlockTupleSpec:
		blocks[s.TypeName] = nestedLabelCount(s.Nested)
	case *hcldec.BlockSetSpec:
		blocks[s.TypeName] = nestedLabelCount(s.Nested)
	case *hcldec.BlockMapSpec:
		blocks[s.TypeName] = len(s.LabelNames)
	case *hcldec.BlockObjectSpec:
		blocks[s.TypeName] = len(s.LabelNames)
	case *hcldec.BlockAttrsSpec:
		blocks[s.TypeName] = 0
	}
}

// nestedLabelCount is the number of labels a block spec's nested spec asks
// for through BlockLabelSpec (highest index + 1), not descending into blocks.
func nestedLabelCount(spec hcldec.Spec) int {
	n := 0
	var walk func(s hcldec.Spec)
	walk = func(s hcldec.Spec) {
		switch t := s.(type) {
		case hcldec.ObjectSpec:
			for _, sub := range t {
				walk(sub)
			}
		case hcldec.TupleSpec:
			for _, sub := range t {
				walk(sub)
			}
		case *hcldec.BlockLabelSpec:
			if t.Index+1 > n {
				n = t.Index + 1
			}
		case *hcldec.DefaultSpec:
			walk(t.Primary)
			walk(t.Default)
		case *hcldec.ValidateSpec:
			walk(t.Wrapped)
		case *hcldec.RefineValueSpec:
			walk(t.Wrapped)
		case *hcldec.TransformFuncSpec:
			walk(t.Wrapped)
		}
	}
	walk(spec)
	return n
}

// bodyOK reports whether every item of b is expected by spec at this level
// with the right label count.
func bodyOK(spec hcldec.Spec, b *gen.Body) bool {
	attrs := map[string]bool{}
	blocks := map[string]int{}
	levelSchema(spec, attrs, blocks)
	seen := map[string]bool{}
	for _, a := range b.Attrs() {
		if !attrs[a.Name] || seen[a.Name] {
			return false
		}
		seen[a.Name] = true
	}
	for _, blk := range b.Blocks() {
		n, ok := blocks[blk.Type]
		if !ok || n != len(blk.Labels) {
			return false
		}
	}
	return true
}

// expectTop is expect with the whole-tree schema check (unsupported items at
// any level make decoding erroneous).
func (sg *specGen) expectTop(spec hcldec.Spec, b *gen.Body) (cty.Value, bool) {
	v, ok := sg.expect(spec, b, nil)
	if ok && !sg.treeOK(spec, b) {
		return v, false
	}
	return v, ok
}

func (sg *specGen) treeOK(spec hcldec.Spec, b *gen.Body) bool {
	if !bodyOK(spec, b) {
		return false
	}
	// descend: find the nested spec for each block type at this level
	nestedOf := map[string]hcldec.Spec{}
	var collect func(s hcldec.Spec)
	collect = func(s hcldec.Spec) {
		switch t := s.(type) {
		case hcldec.ObjectSpec:
			for _, sub := range t {
				collect(sub)
			}
		case hcldec.TupleSpec:
			for _, sub := range t {
				collect(sub)
			}
		case *hcldec.DefaultSpec:
			collect(t.Primary)
			collect(t.Default)
		case *hcldec.ValidateSpec:
			collect(t.Wrapped)
		case *hcldec.RefineValueSpec:
			collect(t.Wrapped)
		case *hcldec.TransformFuncSpec:
			collect(t.Wrapped)
		case *hcldec.BlockSpec:
			nestedOf[t.TypeName] = t.Nested
		case *hcldec.BlockListSpec:
			nestedOf[t.TypeName] = t.Nested
		case *hcldec.BlockTupleSpec:
			nestedOf[t.TypeName] = t.Nested
		case *hcldec.BlockSetSpec:
			nestedOf[t.TypeName] = t.Nested
		case *hcldec.BlockMapSpec:
			nestedOf[t.TypeName] = t.Nested
		case *hcldec.BlockObjectSpec:
			nestedOf[t.TypeName] = t.Nested
		}
	}
	collect(spec)
	for _, blk := range b.Blocks() {
		if n, ok := nestedOf[blk.Type]; ok {
			if !sg.treeOK(n, blk.Body) {
				return false
			}
		}
	}
	return true
}
