package mon

import (
	"bytes"
	"fmt"
	"math/rand"
	"reflect"
	"regexp"
	"sort"
	"strings"
	"unicode/utf8"

	"github.com/hashicorp/hcl/v2"
	"github.com/hashicorp/hcl/v2/hclparse"
	"github.com/hashicorp/hcl/v2/hclsyntax"
	"github.com/hashicorp/hcl/v2/hclwrite"
	hcljson "github.com/hashicorp/hcl/v2/json"
	"github.com/zclconf/go-cty/cty"

	"verifharness/core"
	"verifharness/gen"
)

func init() {
	Register(&Spec{
		ID:        "C15",
		Technique: "runtime monitoring: panic/CPU-time/determinism/diagnostic-well-formedness monitors around every parsing entry point on mutated near-valid inputs, in crash-isolated workers; fixed blow-up ladder",
		Rule: "each case is a corpus file, a rendered generated configuration/expression/JSON text or (70%) a 1-6 edit mutant of one (bracket/quote/template/heredoc/keyword/operator edits, invalid UTF-8, control bytes, truncation), pushed through 12 entry points twice, then through Content/PartialContent/JustAttributes with schemas built from its own identifiers, then (error-free parses) through Value/Variables/static-analysis in known, unknown, marked and nil scopes; batch 0 additionally runs the fixed blow-up ladder; " +
			"non-trivial = the input differs from its seed text and at least one entry point produced a non-empty result; distinct by input hash",
		Assumptions: []string{"CPU time of the worker process is a load-independent clock", "a panic whose innermost non-runtime frames are below an hcl frame is attributed to hcl"},
		Quick:       Plan{Batches: 16, PerBatch: 500, MinNonTrivial: 3000},
		Thorough:    Plan{Batches: 64, PerBatch: 12000, MinNonTrivial: 200000},
		Case:        c15Case,
		HangClass: func(in string) string {
			if hugeExp.MatchString(in) {
				return "numeric-literal-with-huge-exponent"
			}
			return fmt.Sprintf("input-%08x", core.Hash64(in)&0xffffffff)
		},
	})
}

var hugeExp = regexp.MustCompile(`[0-9][eE][+-]?[0-9]{6,}`)

func c15Case(c *core.Case) {
	r := c.Rng
	if c.Batch == 0 && c.Index < len(c15Ladder) {
		c15LadderCase(c, c15Ladder[c.Index])
		return
	}
	isJSON := gen.Chance(r, 0.3)
	seed := pickSeed(c, isJSON)
	src := seed
	if c.Index%8 == 5 {
		// one token of a template sequence replaced by another token, in every
		// kind of host (quoted, heredoc, bare template, JSON string)
		seed = nil
		src = c15DamagedSequence(r, &isJSON)
		c.Count("mutation:one-token-of-a-template-sequence")
	} else {
		c15Mutate(c, &src, seed)
	}
	c15CaseTail(c, src, seed, isJSON)
}

var c15Sequences = [][]string{
	{"%{", "for", "k", ",", "v", "in", "x", "}", "y", "${", "v", "}", "%{", "endfor", "}"},
	{"%{", "for", "v", "in", "x", "~}", "y", "%{~", "endfor", "}"},
	{"%{", "if", "c", "}", "a", "%{", "else", "}", "b", "%{", "endif", "}"},
	{"%{", "if", "c", "==", "1", "}", "${", "x", ".", "y", "[", "0", "]", "}", "%{", "endif", "}"},
	{"${", "f", "(", "a", ",", "b", "...", ")", "}"},
	{"${", "[", "for", "k", ",", "v", "in", "x", ":", "k", "=>", "v", "if", "v", "]", "}"},
	{"${", "c", "?", "{", "a", "=", "1", "}", ":", "x", "[*]", ".", "y", "}"},
	{"${~", "<<EOT\nin\nEOT\n", "~}"},
}

var c15Replacements = []string{"", "1", ",", "\"s\"", "${v}", "}", "in", "~", "%{", "${", "endfor", "else", ":", "=>", "...", "(", ")", "[", "\n", "é", "$", "%", "\\"}

// c15DamagedSequence writes one template sequence with exactly one of its
// tokens replaced (or removed, or doubled) and places it in a host.
func c15DamagedSequence(r *rand.Rand, isJSON *bool) []byte {
	toks := append([]string(nil), gen.Pick(r, c15Sequences)...)
	i := r.Intn(len(toks))
	switch r.Intn(8) {
	case 0:
		toks = append(toks[:i+1], toks[i:]...) // doubled
	default:
		toks[i] = gen.Pick(r, c15Replacements)
	}
	seq := strings.Join(toks, " ")
	if gen.Chance(r, 0.4) {
		seq = strings.Join(toks, "")
	}
	*isJSON = false
	switch r.Intn(6) {
	case 0:
		return []byte("a = \"" + seq + "\"\n")
	case 1:
		return []byte("a = <<EOT\n" + seq + "\nEOT\n")
	case 2:
		return []byte("a = <<-EOT\n  " + seq + "\n  EOT\nb = 1\n")
	case 3:
		return []byte("blk \"l\" {\n  a = [\"pre" + seq + "post\", 2]\n}\n")
	case 4:
		*isJSON = true
		return []byte("{\"a\": " + string(gen.JSONQuote(nil, seq)) + ", \"b\": [" + string(gen.JSONQuote(nil, "x"+seq)) + "]}")
	}
	return []byte(seq) // (a bare template for the template entry point; a broken file for the others)
}

func c15Mutate(c *core.Case, srcp *[]byte, seed []byte) {
	r := c.Rng
	src := seed
	switch k := r.Intn(10); {
	case k < 2:
		// exactly one punctuation character written as another
		src = gen.SwapPunct(r, seed)
		c.Count("mutation:one-punctuation-swap")
	case k < 3:
		// exactly one keyword replaced by another word
		src = gen.SwapKeyword(r, seed)
		c.Count("mutation:one-keyword-swap")
	case k < 8:
		src = gen.Mutate(r, seed, 6)
	}
	*srcp = src
}

func c15CaseTail(c *core.Case, src, seed []byte, isJSON bool) {
	if hugeExp.Match(src) {
		// a numeric literal with a huge exponent parses instantly, but converting
		// it to a string at evaluation legitimately produces millions of digits
		// (21 CPU-s for 1e10000000): keep those out of the random workload so
		// that it stays bounded; the parse cost itself is on the ladder.
		src = hugeExp.ReplaceAll(src, []byte("1e5"))
		c.Count("huge-exponent-rewritten")
	}
	c.SetInput(string(src))
	produced := c15Run(c, src, isJSON)
	if produced && !bytes.Equal(src, seed) {
		c.NonTrivial(string(src))
	}
	if c.WantSample() {
		c.Sample(map[string]any{"src": trunc(fmt.Sprintf("%q", src), 300), "json": isJSON})
	}
}

// ---------------------------------------------------------------- diagnostics

// jsonTemplateZone marks diagnostics from evaluating a JSON string as a
// template when the JSON text contains ill-formed UTF-8 (decoding replaces each
// bad byte by a 3-byte U+FFFD, and template positions are computed on the
// decoded text): see known_findings.json.
var jsonTemplateZone = false

func checkDiags(c *core.Case, where string, d hcl.Diagnostics, srcLen int, filename string) {
	for i, x := range d {
		if x == nil {
			c.Violation("diag/nil/"+where, fmt.Sprintf("%s: diagnostic %d is nil", where, i), nil)
			return
		}
		if x.Severity != hcl.DiagError && x.Severity != hcl.DiagWarning {
			c.Violation("diag/severity/"+where, fmt.Sprintf("%s: diagnostic %q has severity %d", where, x.Summary, x.Severity), nil)
			return
		}
		if strings.TrimSpace(x.Summary) == "" {
			c.Violation("diag/empty-summary/"+where, fmt.Sprintf("%s: diagnostic with empty summary (detail %q)", where, x.Detail), nil)
			return
		}
		for _, rp := range []*hcl.Range{x.Subject, x.Context} {
			if rp == nil {
				continue
			}
			rg := *rp
			if rg == (hcl.Range{}) {
				// the zero Range is hcl's "no position available" value (synthetic
				// and placeholder bodies); it has no extent, so it cannot lie
				// outside the input. Counted, not judged.
				c.Count("diag-zero-range:" + where)
				continue
			}
			if rg.Start.Byte < 0 || rg.End.Byte < rg.Start.Byte || rg.End.Byte > srcLen || rg.Start.Line < 1 || rg.Start.Column < 1 || rg.End.Line < 1 || rg.End.Column < 1 {
				if jsonTemplateZone && rg.End.Byte > srcLen {
					c.Violation("diag/range/json-string-template-with-illformed-utf8", fmt.Sprintf("%s: diagnostic %q from a JSON string evaluated as a template has range %v beyond the %d-byte input (input has ill-formed UTF-8)", where, x.Summary, rg, srcLen), nil)
					return
				}
				c.Violation("diag/range/"+where+"/"+x.Summary, fmt.Sprintf("%s: diagnostic %q has range %#v outside the %d-byte input", where, x.Summary, rg, srcLen), nil)
				return
			}
			if filename != "" && rg.Filename != filename {
				c.Violation("diag/filename/"+where, fmt.Sprintf("%s: diagnostic %q names file %q, input was %q", where, x.Summary, rg.Filename, filename), nil)
				return
			}
		}
		c.Count("diag:" + x.Summary)
	}
	c.CountN("diagnostics-checked", len(d))
}

func diagKey(d hcl.Diagnostics) string {
	var sb strings.Builder
	for _, x := range d {
		fmt.Fprintf(&sb, "%d|%s|%s|", x.Severity, x.Summary, x.Detail)
		if x.Subject != nil {
			fmt.Fprintf(&sb, "%v", *x.Subject)
		}
		sb.WriteString("|")
		if x.Context != nil {
			fmt.Fprintf(&sb, "%v", *x.Context)
		}
		sb.WriteString("\n")
	}
	return sb.String()
}

// ---------------------------------------------------------------- dumps for determinism

func dumpExpr(e hclsyntax.Expression) string {
	if e == nil {
		return "<nil>"
	}
	var sb strings.Builder
	hclsyntax.VisitAll(e, func(n hclsyntax.Node) hcl.Diagnostics {
		fmt.Fprintf(&sb, "%s%v;", reflect.TypeOf(n).String(), n.Range())
		return nil
	})
	return sb.String()
}

func dumpSyntaxBody(b *hclsyntax.Body, sb *strings.Builder) {
	if b == nil {
		sb.WriteString("<nilbody>")
		return
	}
	names := make([]string, 0, len(b.Attributes))
	for n := range b.Attributes {
		names = append(names, n)
	}
	sort.Strings(names)
	for _, n := range names {
		a := b.Attributes[n]
		fmt.Fprintf(sb, "A %s %v %v %s\n", n, a.NameRange, a.SrcRange, dumpExpr(a.Expr))
	}
	for _, blk := range b.Blocks {
		fmt.Fprintf(sb, "B %s %q %v {\n", blk.Type, blk.Labels, blk.Range())
		dumpSyntaxBody(blk.Body, sb)
		sb.WriteString("}\n")
	}
}

func hasSyntaxErrorExpr(b *hclsyntax.Body) bool {
	return hasPlaceholder(b)
}

// hasPlaceholder finds what the parser leaves where it could not build an
// expression: an ExprSyntaxError node, or a literal whose value is unknown (no
// literal of the language denotes an unknown value).
func hasPlaceholder(n hclsyntax.Node) bool {
	found := false
	hclsyntax.VisitAll(n, func(n hclsyntax.Node) hcl.Diagnostics {
		switch t := n.(type) {
		case *hclsyntax.ExprSyntaxError:
			found = true
		case *hclsyntax.LiteralValueExpr:
			if t.Val == cty.NilVal || !t.Val.IsKnown() {
				found = true
			}
		}
		return nil
	})
	return found
}

// ---------------------------------------------------------------- the run

type cpuProbe struct {
	c     *core.Case
	start float64
	name  string
}

func cpuStart(c *core.Case, name string) cpuProbe {
	return cpuProbe{c, core.CPUSeconds(), name}
}

func (p cpuProbe) done() {
	d := core.CPUSeconds() - p.start
	if d > core.CPUHangLimit {
		p.c.Violation("cpu/"+p.name, fmt.Sprintf("%s consumed %.1f CPU-seconds on a %d-byte input", p.name, d, len(p.c.Input())), nil)
	}
}

var c15OtherNative = []byte("other \"l\" {\n  x = [for v in y: upper(v) if v != \"\"]\n  t = <<EOT\n${a} %{ if b }c%{ endif }\nEOT\n}\nz = {k = 1}.k\n")
var c15OtherJSON = []byte("{\"other\": {\"l\": {\"x\": \"${y}\", \"n\": [1, 2.5e3, null, true]}}, \"z\": \"%{ if b }c%{ endif }\"}")

func c15Run(c *core.Case, src []byte, isJSON bool) bool {
	r := c.Rng
	const fn = "in.hcl"
	produced := false
	original := string(src)
	twice := func(name string, f func() (string, hcl.Diagnostics, bool)) (hcl.Diagnostics, bool) {
		p := cpuStart(c, name)
		r1, d1, nonNil := f()
		p.done()
		// an unrelated input through the same entry point in between: the second
		// call on src must not see anything the other call left behind
		saved := src
		if isJSON {
			src = c15OtherJSON
		} else {
			src = c15OtherNative
		}
		f()
		src = saved
		if string(src) != original {
			c.Violation("input-modified/"+name, name+" changed the bytes of the source buffer it was given", nil)
			src = []byte(original)
		}
		r2, d2, _ := f()
		c.Evals(3)
		c.Count("entry:" + name)
		if !nonNil {
			c.Violation("nil-result/"+name, name+" returned a nil result", nil)
		}
		if r1 != r2 || diagKey(d1) != diagKey(d2) {
			c.Violation("nondeterministic/"+name, fmt.Sprintf("%s returned different results on two calls:\n1: %s / %s\n2: %s / %s", name, trunc(r1, 300), trunc(diagKey(d1), 300), trunc(r2, 300), trunc(diagKey(d2), 300)), nil)
		}
		checkDiags(c, name, d1, len(src), fn)
		if r1 != "" {
			produced = true
		}
		return d1, nonNil
	}

	var synFile *hcl.File
	var synDiags hcl.Diagnostics
	var bodies []hcl.Body
	var cleanExprs []exprItem

	if !isJSON || gen.Chance(r, 0.2) {
		twice("hclsyntax.ParseConfig", func() (string, hcl.Diagnostics, bool) {
			f, d := hclsyntax.ParseConfig(src, fn, hcl.InitialPos)
			if f == nil || f.Body == nil {
				return "", d, false
			}
			synFile, synDiags = f, d
			var sb strings.Builder
			dumpSyntaxBody(f.Body.(*hclsyntax.Body), &sb)
			return sb.String() + "|", d, true
		})
		if synFile != nil {
			sb := synFile.Body.(*hclsyntax.Body)
			if hasSyntaxErrorExpr(sb) && !synDiags.HasErrors() {
				c.Violation("unusable-without-error/hclsyntax.ParseConfig", "the AST contains an ExprSyntaxError placeholder but no error diagnostic was returned", nil)
			}
			bodies = append(bodies, synFile.Body)
		}
		var ex hclsyntax.Expression
		exd, _ := twice("hclsyntax.ParseExpression", func() (string, hcl.Diagnostics, bool) {
			e, d := hclsyntax.ParseExpression(src, fn, hcl.InitialPos)
			ex = e
			return dumpExpr(e), d, e != nil
		})
		if ex != nil {
			if hasPlaceholder(ex) && !exd.HasErrors() {
				c.Violation("unusable-without-error/hclsyntax.ParseExpression", "a placeholder (ExprSyntaxError or unknown literal) was returned without an error diagnostic", nil)
			}
			if !exd.HasErrors() {
				cleanExprs = append(cleanExprs, exprItem{ex, false})
			}
		}
		var tx hclsyntax.Expression
		txd, _ := twice("hclsyntax.ParseTemplate", func() (string, hcl.Diagnostics, bool) {
			e, d := hclsyntax.ParseTemplate(src, fn, hcl.InitialPos)
			tx = e
			return dumpExpr(e), d, e != nil
		})
		if tx != nil && !txd.HasErrors() {
			if hasPlaceholder(tx) {
				c.Violation("unusable-without-error/hclsyntax.ParseTemplate", "a placeholder (ExprSyntaxError or unknown literal) was returned without an error diagnostic", nil)
			}
			cleanExprs = append(cleanExprs, exprItem{tx, false})
		}
		// traversal parsers: feed them the first line (they take short inputs)
		line := src
		if i := bytes.IndexByte(line, '\n'); i >= 0 && gen.Chance(r, 0.7) {
			line = line[:i]
		}
		if i := bytes.IndexByte(line, '='); i >= 0 && gen.Chance(r, 0.7) {
			line = bytes.TrimSpace(line[i+1:])
		}
		for _, name := range []string{"hclsyntax.ParseTraversalAbs", "hclsyntax.ParseTraversalPartial"} {
			name := name
			p := cpuStart(c, name)
			var t1, t2 hcl.Traversal
			var d1, d2 hcl.Diagnostics
			if name == "hclsyntax.ParseTraversalAbs" {
				t1, d1 = hclsyntax.ParseTraversalAbs(line, fn, hcl.InitialPos)
				t2, d2 = hclsyntax.ParseTraversalAbs(line, fn, hcl.InitialPos)
			} else {
				t1, d1 = hclsyntax.ParseTraversalPartial(line, fn, hcl.InitialPos)
				t2, d2 = hclsyntax.ParseTraversalPartial(line, fn, hcl.InitialPos)
			}
			p.done()
			c.Evals(2)
			c.Count("entry:" + name)
			if fmt.Sprintf("%#v", t1) != fmt.Sprintf("%#v", t2) || diagKey(d1) != diagKey(d2) {
				c.Violation("nondeterministic/"+name, "two calls returned different traversals/diagnostics", nil)
			}
			if !d1.HasErrors() && len(t1) == 0 {
				c.Violation("unusable-without-error/"+name, fmt.Sprintf("%s(%q) returned an empty traversal and no error", name, line), nil)
			}
			checkDiags(c, name, d1, len(line), fn)
			if !d1.HasErrors() && len(t1) > 0 {
				produced = true
				if name == "hclsyntax.ParseTraversalAbs" {
					ctx := randomCtxFor(r, []string{t1.RootName()})
					_, td := t1.TraverseAbs(ctx)
					checkDiags(c, "Traversal.TraverseAbs", td, len(line), "")
				}
			}
		}
		twice("hclsyntax.LexConfig", func() (string, hcl.Diagnostics, bool) {
			toks, d := hclsyntax.LexConfig(src, fn, hcl.InitialPos)
			var sb strings.Builder
			for _, t := range toks {
				fmt.Fprintf(&sb, "%d%v;", t.Type, t.Range)
			}
			return sb.String(), d, len(toks) > 0
		})
		var wf *hclwrite.File
		wd, _ := twice("hclwrite.ParseConfig", func() (string, hcl.Diagnostics, bool) {
			f, d := hclwrite.ParseConfig(src, fn, hcl.InitialPos)
			wf = f
			if f == nil {
				return "", d, true // documented: nil file when there are errors
			}
			return string(f.Bytes()) + "|", d, true
		})
		if wf == nil && !wd.HasErrors() {
			c.Violation("unusable-without-error/hclwrite.ParseConfig", "nil file returned without an error diagnostic", nil)
		}
		if wf != nil && synDiags != nil && wd.HasErrors() != synDiags.HasErrors() {
			c.Violation("hclwrite-vs-hclsyntax-errorness", fmt.Sprintf("hclwrite.ParseConfig errors=%v but hclsyntax.ParseConfig errors=%v", wd.HasErrors(), synDiags.HasErrors()), nil)
		}
		{
			p := cpuStart(c, "hclwrite.Format")
			o1 := hclwrite.Format(src)
			p.done()
			o2 := hclwrite.Format(src)
			c.Evals(2)
			c.Count("entry:hclwrite.Format")
			if !bytes.Equal(o1, o2) {
				c.Violation("nondeterministic/hclwrite.Format", "two calls returned different bytes", nil)
			}
			if o1 == nil && len(src) > 0 {
				c.Violation("nil-result/hclwrite.Format", "Format returned nil for a non-empty input", nil)
			}
		}
		{
			ps := hclparse.NewParser()
			p := cpuStart(c, "hclparse.ParseHCL")
			f, d := ps.ParseHCL(src, fn)
			p.done()
			c.Evals(1)
			c.Count("entry:hclparse.ParseHCL")
			if f == nil || f.Body == nil {
				c.Violation("nil-result/hclparse.ParseHCL", "nil file/body", nil)
			}
			checkDiags(c, "hclparse.ParseHCL", d, len(src), fn)
			if len(d) > 0 {
				// text rendering of diagnostics with the file registered must not panic either
				var buf bytes.Buffer
				wr := hcl.NewDiagnosticTextWriter(&buf, ps.Files(), 78, false)
				_ = wr.WriteDiagnostics(d)
				c.Count("diag-text-rendered")
			}
		}
	}
	if isJSON || gen.Chance(r, 0.15) {
		var jf *hcl.File
		jd, _ := twice("json.Parse", func() (string, hcl.Diagnostics, bool) {
			f, d := hcljson.Parse(src, fn)
			jf = f
			if f == nil || f.Body == nil {
				return "", d, false
			}
			attrs, _ := f.Body.JustAttributes()
			names := make([]string, 0, len(attrs))
			for n, a := range attrs {
				names = append(names, fmt.Sprintf("%s%v", n, a.Range))
			}
			sort.Strings(names)
			return strings.Join(names, ";") + "|", d, true
		})
		if jf != nil && jf.Body != nil {
			bodies = append(bodies, jf.Body)
		}
		_ = jd
		var je hcl.Expression
		jed, _ := twice("json.ParseExpression", func() (string, hcl.Diagnostics, bool) {
			e, d := hcljson.ParseExpression(src, fn)
			je = e
			if e == nil {
				return "", d, false
			}
			return fmt.Sprintf("%v|", e.Range()), d, true
		})
		if je != nil && !jed.HasErrors() {
			cleanExprs = append(cleanExprs, exprItem{je, true})
		}
		{
			ps := hclparse.NewParser()
			f, d := ps.ParseJSON(src, fn)
			c.Evals(1)
			c.Count("entry:hclparse.ParseJSON")
			if f == nil || f.Body == nil {
				c.Violation("nil-result/hclparse.ParseJSON", "nil file/body", nil)
			}
			checkDiags(c, "hclparse.ParseJSON", d, len(src), fn)
		}
	}

	// schema application on every (possibly partial) body
	idents := identsOf(src)
	for _, b := range bodies {
		_, isSyn := b.(*hclsyntax.Body)
		applySchemas(c, b, idents, len(src), 0, &cleanExprs, synDiags.HasErrors(), !isSyn)
	}
	// evaluation of error-free results
	for i, e := range cleanExprs {
		if i >= 12 {
			break
		}
		jsonTemplateZone = e.json && !utf8.Valid(src)
		evalAnyScope(c, e.e, len(src))
		jsonTemplateZone = false
	}
	return produced
}

var identRe = regexp.MustCompile(`[A-Za-z_][A-Za-z0-9_-]*`)

func identsOf(src []byte) []string {
	m := identRe.FindAll(src, 64)
	seen := map[string]bool{}
	var out []string
	for _, x := range m {
		s := string(x)
		if !seen[s] {
			seen[s] = true
			out = append(out, s)
		}
	}
	return out
}

func randomSchema(c *core.Case, idents []string) *hcl.BodySchema {
	r := c.Rng
	s := &hcl.BodySchema{}
	pool := append([]string{"a", "b", "name", "dynamic", "content"}, idents...)
	n := r.Intn(5)
	used := map[string]bool{}
	for i := 0; i < n; i++ {
		name := gen.Pick(r, pool)
		if used[name] {
			continue
		}
		used[name] = true
		if gen.Chance(r, 0.5) {
			s.Attributes = append(s.Attributes, hcl.AttributeSchema{Name: name, Required: gen.Chance(r, 0.3)})
		} else {
			var labels []string
			for j := r.Intn(3); j > 0; j-- {
				labels = append(labels, fmt.Sprintf("l%d", j))
			}
			s.Blocks = append(s.Blocks, hcl.BlockHeaderSchema{Type: name, LabelNames: labels})
		}
	}
	return s
}

type exprItem struct {
	e    hcl.Expression
	json bool
}

func applySchemas(c *core.Case, b hcl.Body, idents []string, srcLen, depth int, exprs *[]exprItem, hadErrors bool, isJSON bool) {
	if b == nil || depth > 3 {
		return
	}
	for k := 0; k < 2; k++ {
		s := randomSchema(c, idents)
		cont, d := b.Content(s)
		c.Evals(1)
		c.Count("schema:Content")
		checkDiags(c, "Body.Content", d, srcLen, "")
		if cont == nil {
			c.Violation("nil-result/Body.Content", "Content returned nil BodyContent", nil)
		}
		pc, rem, d2 := b.PartialContent(s)
		c.Evals(1)
		c.Count("schema:PartialContent")
		checkDiags(c, "Body.PartialContent", d2, srcLen, "")
		if pc == nil || rem == nil {
			c.Violation("nil-result/Body.PartialContent", "PartialContent returned nil content or nil remain", nil)
			continue
		}
		attrs, d3 := rem.JustAttributes()
		c.Count("schema:remain.JustAttributes")
		checkDiags(c, "remain.JustAttributes", d3, srcLen, "")
		_, d4 := rem.Content(&hcl.BodySchema{})
		checkDiags(c, "remain.Content", d4, srcLen, "")
		_ = rem.MissingItemRange()
		if !hadErrors {
			for _, a := range attrs {
				*exprs = append(*exprs, exprItem{a.Expr, isJSON})
			}
			for _, a := range pc.Attributes {
				*exprs = append(*exprs, exprItem{a.Expr, isJSON})
			}
		}
		for _, blk := range pc.Blocks {
			applySchemas(c, blk.Body, idents, srcLen, depth+1, exprs, hadErrors, isJSON)
		}
	}
	_, d5 := b.JustAttributes()
	c.Count("schema:JustAttributes")
	checkDiags(c, "Body.JustAttributes", d5, srcLen, "")
}

func randomCtxFor(r interface {
	Intn(int) int
	Float64() float64
}, roots []string) *hcl.EvalContext {
	vars := map[string]cty.Value{}
	vals := []cty.Value{
		cty.StringVal("x"), cty.NumberIntVal(3), cty.True, cty.NullVal(cty.DynamicPseudoType), cty.NullVal(cty.String),
		cty.UnknownVal(cty.String), cty.DynamicVal, cty.UnknownVal(cty.List(cty.String)), cty.UnknownVal(cty.Number).RefineNotNull(),
		cty.StringVal("secret").Mark("m"), cty.ListVal([]cty.Value{cty.StringVal("a"), cty.StringVal("b")}).Mark("m"),
		cty.ListVal([]cty.Value{cty.StringVal("a").Mark("m"), cty.StringVal("b")}),
		cty.MapVal(map[string]cty.Value{"a": cty.NumberIntVal(1), "b": cty.NumberIntVal(2)}),
		cty.ObjectVal(map[string]cty.Value{"a": cty.NumberIntVal(1), "b": cty.StringVal("s"), "c": cty.ListValEmpty(cty.String), "id": cty.UnknownVal(cty.Number)}),
		cty.TupleVal([]cty.Value{cty.NumberIntVal(1), cty.StringVal("t"), cty.NullVal(cty.Bool)}),
		cty.SetVal([]cty.Value{cty.StringVal("a"), cty.StringVal("b")}),
		cty.EmptyObjectVal, cty.EmptyTupleVal, cty.ListValEmpty(cty.Number), cty.MapValEmpty(cty.String),
		cty.ListVal([]cty.Value{cty.ObjectVal(map[string]cty.Value{"id": cty.NumberIntVal(1), "name": cty.StringVal("n")})}),
		cty.UnknownVal(cty.Map(cty.String)).Mark("m"), cty.NumberIntVal(0), cty.NumberFloatVal(-1.5), cty.StringVal(""),
	}
	for _, n := range roots {
		if n == "" {
			continue
		}
		vars[n] = vals[r.Intn(len(vals))]
	}
	return &hcl.EvalContext{Variables: vars, Functions: stdCtyFuncs}
}

func evalAnyScope(c *core.Case, e hcl.Expression, srcLen int) {
	r := c.Rng
	vars := e.Variables()
	c.Count("eval:Variables")
	var roots []string
	for _, t := range vars {
		if len(t) > 0 {
			roots = append(roots, t.RootName())
		}
	}
	for k := 0; k < 3; k++ {
		var ctx *hcl.EvalContext
		switch k {
		case 0:
			ctx = nil
		case 1:
			ctx = randomCtxFor(r, roots)
		default:
			ctx = randomCtxFor(r, roots).NewChild()
			ctx.Variables = map[string]cty.Value{}
		}
		p := cpuStart(c, "Expression.Value")
		v, d := e.Value(ctx)
		p.done()
		c.Evals(1)
		c.Count("eval:Value")
		checkDiags(c, "Expression.Value", d, srcLen, "")
		if v == cty.NilVal {
			c.Violation("nil-result/Expression.Value", "Value returned cty.NilVal", nil)
		}
	}
	if t, d := hcl.AbsTraversalForExpr(e); !d.HasErrors() {
		c.Count("static:AbsTraversalForExpr-ok")
		_, _ = t.TraverseAbs(randomCtxFor(r, []string{t.RootName()}))
	} else {
		checkDiags(c, "AbsTraversalForExpr", d, srcLen, "")
	}
	if _, d := hcl.RelTraversalForExpr(e); d.HasErrors() {
		checkDiags(c, "RelTraversalForExpr", d, srcLen, "")
	}
	if l, d := hcl.ExprList(e); !d.HasErrors() {
		c.Count("static:ExprList-ok")
		_ = l
	} else {
		checkDiags(c, "ExprList", d, srcLen, "")
	}
	if m, d := hcl.ExprMap(e); !d.HasErrors() {
		c.Count("static:ExprMap-ok")
		_ = m
	} else {
		checkDiags(c, "ExprMap", d, srcLen, "")
	}
	if call, d := hcl.ExprCall(e); !d.HasErrors() {
		c.Count("static:ExprCall-ok")
		_ = call
	} else {
		checkDiags(c, "ExprCall", d, srcLen, "")
	}
	_ = hcl.UnwrapExpression(e)
	_ = hcl.ExprAsKeyword(e)
}

// ---------------------------------------------------------------- blow-up ladder

type ladderStep struct {
	Name  string
	Build func() []byte
	JSON  bool
}

var c15Ladder = func() []ladderStep {
	var out []ladderStep
	for _, shape := range []string{"paren", "tuple", "object", "block", "template", "unary", "binary", "index", "cond"} {
		for _, d := range []int{100, 1000, 5000} {
			shape, d := shape, d
			out = append(out, ladderStep{Name: fmt.Sprintf("nest-%s-%d", shape, d), Build: func() []byte { return gen.DeepNest(shape, d) }})
		}
	}
	for _, shape := range []string{"jsonarr", "jsonobj"} {
		for _, d := range []int{100, 1000, 5000} {
			shape, d := shape, d
			out = append(out, ladderStep{Name: fmt.Sprintf("nest-%s-%d", shape, d), Build: func() []byte { return gen.DeepNest(shape, d) }, JSON: true})
		}
	}
	for _, k := range []string{"1e1000", "1e10000", "1e100000", "1e-100000", "1e1000000"} {
		k := k
		out = append(out, ladderStep{Name: "num-" + k, Build: func() []byte { return []byte("a = " + k + "\n") }})
		out = append(out, ladderStep{Name: "jsonnum-" + k, Build: func() []byte { return []byte("{\"a\": " + k + "}") }, JSON: true})
	}
	// directed inputs for adjudicated findings (see known_findings.json)
	out = append(out, ladderStep{Name: "directed-json-template-illformed-utf8", JSON: true, Build: func() []byte { return []byte("\"~}$$<Z\xff%{\xff\xff\"") }})
	out = append(out, ladderStep{Name: "directed-json-unterminated-string", JSON: true, Build: func() []byte { return []byte("\"a$${<") }})
	// escapes of code points that are not characters, in every place a quoted string can stand
	for i, esc := range []string{`\ud800`, `\uDFFF`, `\U0000dc00`, `\udbff`, `\U00110000`, `\Uffffffff`, `\uD83D\uDE00`, `\uFFFF`, `\U0010FFFF`, `\u0000`} {
		esc := esc
		out = append(out, ladderStep{Name: fmt.Sprintf("directed-escape-%d", i), Build: func() []byte {
			return []byte("a = \"" + esc + "\"\nb \"" + esc + "\" {\n  c = foo[\"" + esc + "\"]\n  d = \"x${\"" + esc + "\"}y\"\n  e = {\"" + esc + "\" = 1}\n}\n")
		}})
		out = append(out, ladderStep{Name: fmt.Sprintf("directed-json-escape-%d", i), JSON: true, Build: func() []byte {
			return []byte("{\"a\": \"" + strings.ToLower(esc[:2]) + esc[2:] + "\", \"b\": \"${\\\"" + esc + "\\\"}\"}")
		}})
	}
	out = append(out, ladderStep{Name: "long-heredoc", Build: func() []byte {
		return []byte("a = <<EOT\n" + strings.Repeat("line ${x} %{ if y }z%{ endif }\n", 1500) + "EOT\n")
	}})
	out = append(out, ladderStep{Name: "long-string", Build: func() []byte { return []byte("a = \"" + strings.Repeat("é$%\\n", 6000) + "\"\n") }})
	out = append(out, ladderStep{Name: "many-attrs", Build: func() []byte {
		var sb strings.Builder
		for i := 0; i < 4000; i++ {
			fmt.Fprintf(&sb, "a%d = %d\n", i, i)
		}
		return []byte(sb.String())
	}})
	out = append(out, ladderStep{Name: "long-comment-run", Build: func() []byte { return []byte(strings.Repeat("/* c */ # x\n", 5000) + "a = 1\n") }})
	out = append(out, ladderStep{Name: "long-number", Build: func() []byte { return []byte("a = " + strings.Repeat("9", 60000) + "\n") }})
	return out
}()

func c15LadderCase(c *core.Case, st ladderStep) {
	src := st.Build()
	if len(src) > 64*1024 {
		src = src[:64*1024]
	}
	c.SetInput(string(src))
	t0 := core.CPUSeconds()
	c15Run(c, src, st.JSON)
	dt := core.CPUSeconds() - t0
	c.Count("ladder-steps")
	c.NonTrivial("ladder:" + st.Name)
	if dt > core.CPUHangLimit {
		c.Violation("cpu/ladder/"+st.Name, fmt.Sprintf("ladder input %s (%d bytes) consumed %.1f CPU-seconds in total", st.Name, len(src), dt), nil)
	}
	c.Sample(map[string]any{"ladder": st.Name, "bytes": len(src), "cpu_s": fmt.Sprintf("%.3f", dt)})
}
