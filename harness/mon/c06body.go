package mon

import (
	"fmt"

	"github.com/hashicorp/hcl/v2"
	"github.com/hashicorp/hcl/v2/ext/dynblock"
	"github.com/hashicorp/hcl/v2/hcldec"
	"github.com/hashicorp/hcl/v2/hclsyntax"
	"github.com/zclconf/go-cty/cty"

	"verifharness/core"
	"verifharness/gen"
)

// body-level routes of C06: hcldec.Decode of bodies whose attributes, labels
// and dynamic-block for_each/labels/content use the marked variable k.

type c06BodyTpl struct {
	Name string
	Src  string
	Spec func() hcldec.Spec
	A, B func() cty.Value
	Dyn  bool
}

func blkSpecList() hcldec.Spec {
	return hcldec.ObjectSpec{
		"a":    &hcldec.AttrSpec{Name: "a", Type: cty.DynamicPseudoType},
		"blks": &hcldec.BlockListSpec{TypeName: "blk", Nested: hcldec.ObjectSpec{"v": &hcldec.AttrSpec{Name: "v", Type: cty.DynamicPseudoType}}},
	}
}

func blkSpecOf(kind string) func() hcldec.Spec {
	return func() hcldec.Spec {
		nested := hcldec.ObjectSpec{"v": &hcldec.AttrSpec{Name: "v", Type: cty.String}}
		var b hcldec.Spec
		switch kind {
		case "list":
			b = &hcldec.BlockListSpec{TypeName: "blk", Nested: nested}
		case "set":
			b = &hcldec.BlockSetSpec{TypeName: "blk", Nested: nested}
		case "tuple":
			b = &hcldec.BlockTupleSpec{TypeName: "blk", Nested: nested}
		case "single":
			b = &hcldec.BlockSpec{TypeName: "blk", Nested: nested}
		case "map":
			b = &hcldec.BlockMapSpec{TypeName: "blk", LabelNames: []string{"name"}, Nested: nested}
		case "object":
			b = &hcldec.BlockObjectSpec{TypeName: "blk", LabelNames: []string{"name"}, Nested: nested}
		case "attrs":
			b = &hcldec.BlockAttrsSpec{TypeName: "blk", ElementType: cty.String}
		case "label":
			b = &hcldec.BlockListSpec{TypeName: "blk", Nested: hcldec.ObjectSpec{"v": &hcldec.AttrSpec{Name: "v", Type: cty.String}, "n": &hcldec.BlockLabelSpec{Index: 0, Name: "name"}}}
		}
		return hcldec.ObjectSpec{"a": &hcldec.AttrSpec{Name: "a", Type: cty.DynamicPseudoType}, "blks": b}
	}
}

func strs(xs ...string) func() cty.Value {
	return func() cty.Value {
		if len(xs) == 0 {
			return cty.ListValEmpty(cty.String)
		}
		vs := make([]cty.Value, len(xs))
		for i, x := range xs {
			vs[i] = cty.StringVal(x)
		}
		return cty.ListVal(vs)
	}
}

func strv(s string) func() cty.Value { return func() cty.Value { return cty.StringVal(s) } }

var c06BodyTpls = func() []c06BodyTpl {
	var out []c06BodyTpl
	out = append(out, c06BodyTpl{Name: "attr", Src: "a = k\n", Spec: blkSpecList, A: strv("x"), B: strv("y")})
	out = append(out, c06BodyTpl{Name: "attr-in-block", Src: "blk {\n  v = k\n}\n", Spec: blkSpecList, A: strv("x"), B: strv("y")})
	for _, kind := range []string{"list", "set", "tuple", "single"} {
		out = append(out, c06BodyTpl{Name: "dyn-foreach/" + kind, Src: "dynamic \"blk\" {\n  for_each = k\n  content {\n    v = blk.value\n  }\n}\n", Spec: blkSpecOf(kind), A: strs("x"), B: strs("y"), Dyn: true})
		out = append(out, c06BodyTpl{Name: "dyn-foreach-empty/" + kind, Src: "dynamic \"blk\" {\n  for_each = k\n  content {\n    v = \"c\"\n  }\n}\n", Spec: blkSpecOf(kind), A: strs(), B: strs("y"), Dyn: true})
		out = append(out, c06BodyTpl{Name: "dyn-content/" + kind, Src: "dynamic \"blk\" {\n  for_each = [\"e\"]\n  content {\n    v = k\n  }\n}\n", Spec: blkSpecOf(kind), A: strv("x"), B: strv("y"), Dyn: true})
	}
	out = append(out, c06BodyTpl{Name: "dyn-foreach-count/list", Src: "dynamic \"blk\" {\n  for_each = k\n  content {\n    v = \"c\"\n  }\n}\n", Spec: blkSpecOf("list"), A: strs("x"), B: strs("x", "y"), Dyn: true})
	for _, kind := range []string{"map", "object", "label"} {
		out = append(out, c06BodyTpl{Name: "dyn-labels/" + kind, Src: "dynamic \"blk\" {\n  for_each = [\"e\"]\n  labels = [k]\n  content {\n    v = \"c\"\n  }\n}\n", Spec: blkSpecOf(kind), A: strv("x"), B: strv("y"), Dyn: true})
		out = append(out, c06BodyTpl{Name: "dyn-foreach-labels/" + kind, Src: "dynamic \"blk\" {\n  for_each = k\n  labels = [blk.value]\n  content {\n    v = \"c\"\n  }\n}\n", Spec: blkSpecOf(kind), A: strs("x"), B: strs("y"), Dyn: true})
	}
	out = append(out, c06BodyTpl{Name: "dyn-attrs-content", Src: "dynamic \"blk\" {\n  for_each = [\"e\"]\n  content {\n    v = k\n  }\n}\n", Spec: blkSpecOf("attrs"), A: strv("x"), B: strv("y"), Dyn: true})
	out = append(out, c06BodyTpl{Name: "dyn-attrs-foreach", Src: "dynamic \"blk\" {\n  for_each = k\n  content {\n    v = \"c\"\n  }\n}\n", Spec: blkSpecOf("attrs"), A: strs(), B: strs("y"), Dyn: true})
	out = append(out, c06BodyTpl{Name: "dyn-nested-foreach", Src: "dynamic \"blk\" {\n  for_each = [\"o\"]\n  content {\n    v = \"c\"\n    dynamic \"inner\" {\n      for_each = k\n      content {\n        w = inner.value\n      }\n    }\n  }\n}\n",
		Spec: func() hcldec.Spec {
			return hcldec.ObjectSpec{"blks": &hcldec.BlockListSpec{TypeName: "blk", Nested: hcldec.ObjectSpec{"v": &hcldec.AttrSpec{Name: "v", Type: cty.String},
				"inner": &hcldec.BlockListSpec{TypeName: "inner", Nested: hcldec.ObjectSpec{"w": &hcldec.AttrSpec{Name: "w", Type: cty.String}}}}}}
		}, A: strs("x"), B: strs("y"), Dyn: true})
	// the same with the enclosing for_each (variable o) carrying a different mark,
	// and with the marked variable in the enclosing position
	nestedSpec := func() hcldec.Spec {
		return hcldec.ObjectSpec{"blks": &hcldec.BlockListSpec{TypeName: "blk", Nested: hcldec.ObjectSpec{"v": &hcldec.AttrSpec{Name: "v", Type: cty.String},
			"inner": &hcldec.BlockListSpec{TypeName: "inner", Nested: hcldec.ObjectSpec{"w": &hcldec.AttrSpec{Name: "w", Type: cty.String}}}}}}
	}
	out = append(out, c06BodyTpl{Name: "dyn-nested-foreach/outer-other-mark", Src: "dynamic \"blk\" {\n  for_each = o\n  content {\n    v = \"c\"\n    dynamic \"inner\" {\n      for_each = k\n      content {\n        w = inner.value\n      }\n    }\n  }\n}\n",
		Spec: nestedSpec, A: strs("x"), B: strs("y"), Dyn: true})
	out = append(out, c06BodyTpl{Name: "dyn-nested-foreach-count/outer-other-mark", Src: "dynamic \"blk\" {\n  for_each = o\n  content {\n    v = \"c\"\n    dynamic \"inner\" {\n      for_each = k\n      content {\n        w = \"c\"\n      }\n    }\n  }\n}\n",
		Spec: nestedSpec, A: strs("x"), B: strs("x", "y"), Dyn: true})
	out = append(out, c06BodyTpl{Name: "dyn-nested-foreach/outer-marked-inner-other-mark", Src: "dynamic \"blk\" {\n  for_each = k\n  content {\n    v = blk.value\n    dynamic \"inner\" {\n      for_each = o\n      content {\n        w = \"${blk.value}-${inner.value}\"\n      }\n    }\n  }\n}\n",
		Spec: nestedSpec, A: strs("x"), B: strs("y"), Dyn: true})
	// generated blocks that decode to null individually: how many there are, and
	// whether optional content exists in them, still depends on the marked value
	for _, kind := range []string{"list", "tuple", "set"} {
		kind := kind
		nullSpec := func() hcldec.Spec {
			nested := &hcldec.AttrSpec{Name: "v", Type: cty.String}
			switch kind {
			case "list":
				return &hcldec.BlockListSpec{TypeName: "blk", Nested: nested}
			case "set":
				return &hcldec.BlockSetSpec{TypeName: "blk", Nested: nested}
			}
			return &hcldec.BlockTupleSpec{TypeName: "blk", Nested: nested}
		}
		out = append(out, c06BodyTpl{Name: "dyn-foreach-count-of-null-blocks/" + kind, Src: "dynamic \"blk\" {\n  for_each = k\n  content {}\n}\n", Spec: nullSpec, A: strs("p"), B: strs("p", "q"), Dyn: true})
		out = append(out, c06BodyTpl{Name: "dyn-foreach-null-or-not/" + kind, Src: "dynamic \"blk\" {\n  for_each = k\n  content {\n    v = blk.value == \"x\" ? \"set\" : null\n  }\n}\n", Spec: nullSpec, A: strs("y"), B: strs("x"), Dyn: true})
	}
	out = append(out, c06BodyTpl{Name: "dyn-foreach-inner-block-absent-or-not", Src: "dynamic \"blk\" {\n  for_each = k\n  content {\n    dynamic \"inner\" {\n      for_each = blk.value == \"x\" ? [\"i\"] : []\n      content {\n        v = \"static\"\n      }\n    }\n  }\n}\n",
		Spec: func() hcldec.Spec {
			return &hcldec.BlockTupleSpec{TypeName: "blk", Nested: &hcldec.BlockSpec{TypeName: "inner", Nested: hcldec.ObjectSpec{"v": &hcldec.AttrSpec{Name: "v", Type: cty.String}}}}
		}, A: strs("y"), B: strs("x"), Dyn: true})
	// a static block nested in generated content: the generated block's value is what carries the marks
	for _, kind := range []string{"single", "attrs"} {
		kind := kind
		out = append(out, c06BodyTpl{Name: "dyn-foreach-nested-static-block/" + kind, Src: "dynamic \"blk\" {\n  for_each = k\n  content {\n    b {\n      x = blk.value\n    }\n  }\n}\n",
			Spec: func() hcldec.Spec {
				var inner hcldec.Spec = &hcldec.BlockSpec{TypeName: "b", Nested: hcldec.ObjectSpec{"x": &hcldec.AttrSpec{Name: "x", Type: cty.String}}}
				if kind == "attrs" {
					inner = &hcldec.BlockAttrsSpec{TypeName: "b", ElementType: cty.String}
				}
				return &hcldec.BlockSpec{TypeName: "blk", Nested: hcldec.ObjectSpec{"b": inner}}
			}, A: strs("v1"), B: strs("v2"), Dyn: true})
	}
	out = append(out, c06BodyTpl{Name: "dyn-attrs-number-of-attributes", Src: "dynamic \"blk\" {\n  for_each = k\n  content {\n    dynamic \"inner\" {\n      for_each = blk.value == \"x\" ? [1] : []\n      content {}\n    }\n  }\n}\n",
		Spec: func() hcldec.Spec {
			return &hcldec.BlockSpec{TypeName: "blk", Nested: &hcldec.BlockTupleSpec{TypeName: "inner", Nested: hcldec.ObjectSpec{}}}
		}, A: strs("x"), B: strs("y"), Dyn: true})
	// generated and static blocks of one type that disagree on the type of an
	// argument of no particular type: the collection specs convert every element
	for _, kind := range []string{"list", "set"} {
		kind := kind
		nums := func(n int64) func() cty.Value {
			return func() cty.Value { return cty.ListVal([]cty.Value{cty.NumberIntVal(n)}) }
		}
		out = append(out, c06BodyTpl{Name: "dyn-foreach-element-type-unification/" + kind, Src: "blk {\n  b {\n    x = \"static\"\n  }\n}\ndynamic \"blk\" {\n  for_each = k\n  content {\n    b {\n      x = blk.value\n    }\n  }\n}\n",
			Spec: func() hcldec.Spec {
				nested := hcldec.ObjectSpec{"b": &hcldec.BlockSpec{TypeName: "b", Nested: hcldec.ObjectSpec{"x": &hcldec.AttrSpec{Name: "x", Type: cty.DynamicPseudoType}}}}
				if kind == "set" {
					return &hcldec.BlockSetSpec{TypeName: "blk", Nested: nested}
				}
				return &hcldec.BlockListSpec{TypeName: "blk", Nested: nested}
			}, A: nums(1), B: nums(2), Dyn: true})
	}
	// a default that replaces a marked null
	out = append(out, c06BodyTpl{Name: "attr-default-for-marked-null", Src: "a = k\n", Spec: func() hcldec.Spec {
		return hcldec.ObjectSpec{"a": &hcldec.DefaultSpec{Primary: &hcldec.AttrSpec{Name: "a", Type: cty.String}, Default: &hcldec.LiteralSpec{Value: cty.StringVal("dflt")}}}
	}, A: func() cty.Value { return cty.NullVal(cty.String) }, B: strv("a")})
	out = append(out, c06BodyTpl{Name: "attr-next-to-other-mark", Src: "a = [k, o]\n", Spec: func() hcldec.Spec {
		return hcldec.ObjectSpec{"a": &hcldec.AttrSpec{Name: "a", Type: cty.DynamicPseudoType}}
	}, A: strv("x"), B: strv("y")})
	return out
}()

func c06BodyCase(c *core.Case) {
	r := c.Rng
	tpl := gen.Pick(r, c06BodyTpls)
	f, d := hclsyntax.ParseConfig([]byte(tpl.Src), "b.hcl", hcl.InitialPos)
	if d.HasErrors() {
		panic("C06 body template does not parse: " + tpl.Name + ": " + d.Error())
	}
	spec := tpl.Spec()
	decode := func(val cty.Value) (cty.Value, hcl.Diagnostics) {
		ctx := ctxWith(map[string]cty.Value{"k": val.Mark(secretMark), "o": cty.ListVal([]cty.Value{cty.StringVal("o1"), cty.StringVal("o2")}).Mark("another mark")})
		body := f.Body
		if tpl.Dyn {
			body = dynblock.Expand(body, ctx)
		}
		return hcldec.Decode(body, spec, ctx)
	}
	c.SetInput(fmt.Sprintf("%s\nk = %s / %s (marked)\nspec: %s", tpl.Src, valStr(tpl.A()), valStr(tpl.B()), tpl.Name))
	v1, d1 := decode(tpl.A())
	v2, d2 := decode(tpl.B())
	c.Evals(2)
	c.Count("route:hcldec-body")
	if tpl.Dyn {
		c.Count("route:dynblock")
	}
	if d1.HasErrors() || d2.HasErrors() {
		c.Count("runs-with-errors")
		return
	}
	if unmarked(v1).RawEquals(unmarked(v2)) {
		c.Count("no-influence")
		return
	}
	if !hasMark(v1) || !hasMark(v2) {
		c.Violation("laundered/body/"+tpl.Name, fmt.Sprintf("decoding\n%swith two contents of marked k gives different results that do not both carry the mark:\n run 1: %s\n run 2: %s", tpl.Src, valStr(v1), valStr(v2)), nil)
		return
	}
	c.Count("influence-observed-and-marked")
	c.NonTrivial("body:" + tpl.Name)
}
