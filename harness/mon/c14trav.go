package mon

import (
	"fmt"

	"github.com/hashicorp/hcl/v2"
	"github.com/hashicorp/hcl/v2/hclsyntax"

	"verifharness/core"
	"verifharness/gen"
)

// c14TraversalRanges: the stand-alone traversal parsers record a range per
// step; for an error-free traversal every range slices the source to exactly
// that step, the steps follow each other with nothing but blanks and comments
// between them, and they are the ranges the expression parser records for the
// same text.
func c14TraversalRanges(c *core.Case) {
	r := c.Rng
	text, _ := travText(r, false)
	start := hcl.InitialPos
	if gen.Chance(r, 0.3) {
		start = hcl.Pos{Line: 1 + r.Intn(50), Column: 1 + r.Intn(40), Byte: r.Intn(5000)}
	}
	src := []byte(text)
	c.SetInput(text)
	partial := gen.Chance(r, 0.3)
	var tr hcl.Traversal
	var d hcl.Diagnostics
	if partial {
		tr, d = hclsyntax.ParseTraversalPartial(src, "t.hcl", start)
	} else {
		tr, d = hclsyntax.ParseTraversalAbs(src, "t.hcl", start)
	}
	c.Evals(1)
	if d.HasErrors() {
		c.Count("traversal-parser:declined")
		return
	}
	c.Count("traversal-parser:accepted")
	meta := map[string]any{"start": fmt.Sprint(start), "partial": partial}
	base := start.Byte
	prevEnd := 0
	for i, st := range tr {
		rng := st.SourceRange()
		s, e := rng.Start.Byte-base, rng.End.Byte-base
		if s < prevEnd || e <= s || e > len(src) {
			c.Violation("traversal-range/out-of-order", fmt.Sprintf("%s: step %d has bytes [%d,%d) (previous step ended at %d, source has %d bytes)", text, i, s, e, prevEnd, len(src)), meta)
			return
		}
		piece := string(src[s:e])
		between := stripComments(string(src[prevEnd:s]))
		for _, ch := range between {
			if ch != ' ' && ch != '\t' {
				c.Violation("traversal-range/gap", fmt.Sprintf("%s: between step %d and its predecessor lies %q, which belongs to neither range", text, i, string(src[prevEnd:s])), meta)
				return
			}
		}
		ok := false
		switch st.(type) {
		case hcl.TraverseRoot:
			ok = hclsyntax.ValidIdentifier(piece)
		case hcl.TraverseAttr:
			ok = piece[0] == '.'
		case hcl.TraverseIndex:
			ok = (piece[0] == '[' && piece[len(piece)-1] == ']') || piece[0] == '.'
		case hcl.TraverseSplat:
			ok = true
		}
		if !ok {
			c.Violation("traversal-range/not-the-step", fmt.Sprintf("%s: the range of step %d (%T) slices the source to %q", text, i, st, piece), meta)
			return
		}
		prevEnd = e
	}
	if rest := stripComments(string(src[prevEnd:])); len(tr) > 0 && len(trimBlank(rest)) > 0 {
		c.Violation("traversal-range/tail-uncovered", fmt.Sprintf("%s: after the last step's range the source still holds %q", text, string(src[prevEnd:])), meta)
		return
	}
	// the expression parser's view of the same text
	if e, ed := hclsyntax.ParseExpression(src, "t.hcl", start); !ed.HasErrors() {
		if ste, isTrav := e.(*hclsyntax.ScopeTraversalExpr); isTrav && len(ste.Traversal) == len(tr) {
			for i := range tr {
				if a, b := tr[i].SourceRange(), ste.Traversal[i].SourceRange(); a != b {
					c.Violation("traversal-range/parsers-disagree", fmt.Sprintf("%s: step %d has range %v from the traversal parser and %v from the expression parser", text, i, a, b), meta)
					return
				}
			}
			c.Count("traversal-ranges-agree-with-expression-parser")
		}
	}
	if len(tr) >= 3 {
		c.NonTrivial("traversal-ranges:" + text)
	}
}

func trimBlank(s string) string {
	out := []rune{}
	for _, ch := range s {
		if ch != ' ' && ch != '\t' {
			out = append(out, ch)
		}
	}
	return string(out)
}
