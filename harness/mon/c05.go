package mon

import (
	"fmt"
	"math/big"
	"math/rand"
	"strings"

	"github.com/hashicorp/hcl/v2"
	"github.com/hashicorp/hcl/v2/hclsyntax"
	"github.com/zclconf/go-cty/cty"
	"github.com/zclconf/go-cty/cty/convert"

	"verifharness/core"
	"verifharness/gen"
)

func init() {
	Register(&Spec{
		ID:        "C05",
		Technique: "runtime monitoring: two-run abstraction-soundness monitor — one evaluation with some variables unknown (typed, refined, dynamic, nested) against many concrete evaluations whose values satisfy the same refinements",
		Rule: "each case is a generated expression over a concrete scope; a non-empty subset of the variables it uses is replaced by abstractions of their values (typed unknown; unknown refined with not-null / a true string prefix / numeric bounds / length bounds that the concrete value satisfies; cty.DynamicVal; an unknown nested inside an otherwise known collection); the abstract result is compared with the results of 1+7 concrete instantiations (the original values, random values and extremes admitted by the same refinements) by the consistency relation of the property; every concrete run is also checked to contain no unknown; directed programs abstract one element of a known collection at each position of template for directives, joins and interpolations; " +
			"non-trivial = the abstract run was error-free, not wholly known, and at least two concrete runs were error-free; distinct by program + abstraction hash",
		Assumptions: []string{"cty's own operations on unknown values (arithmetic, comparison, conversion, refinement bookkeeping) are trusted; the property concerns how hcl's evaluator combines them", "marks are ignored here (C06)"},
		Quick:       Plan{Batches: 16, PerBatch: 5000, MinNonTrivial: 10000},
		Thorough:    Plan{Batches: 64, PerBatch: 60000, MinNonTrivial: 120000},
		Case:        c05Case,
	})
}

// admits reports whether the unknown value a (with its refinements) admits
// the concrete value c, with a reason when it does not.
func admits(a, c cty.Value) (bool, string) {
	if a.Type() != cty.DynamicPseudoType && !c.Type().Equals(a.Type()) {
		// a typed unknown must have the concrete part's type (after conversion
		// of the abstract value to the concrete type, done by the caller)
		return false, fmt.Sprintf("unknown of type %s vs concrete %s", a.Type().FriendlyName(), c.Type().FriendlyName())
	}
	if a.Type() == cty.DynamicPseudoType {
		return true, ""
	}
	rng := a.Range()
	if c.IsNull() {
		if rng.DefinitelyNotNull() {
			return false, "refined not-null but concrete value is null"
		}
		return true, ""
	}
	ty := c.Type()
	switch {
	case ty == cty.String:
		if p := rng.StringPrefix(); p != "" {
			if !strings.HasPrefix(nfc(c.AsString()), nfc(p)) && !strings.HasPrefix(c.AsString(), p) {
				return false, fmt.Sprintf("refined with prefix %q but concrete string is %q", p, c.AsString())
			}
		}
	case ty == cty.Number:
		lo, loInc := rng.NumberLowerBound()
		hi, hiInc := rng.NumberUpperBound()
		if lo.IsKnown() && !lo.IsNull() && !lo.AsBigFloat().IsInf() {
			cmp := c.AsBigFloat().Cmp(lo.AsBigFloat())
			if cmp < 0 || (cmp == 0 && !loInc) {
				return false, fmt.Sprintf("refined lower bound %s (inclusive=%v) but concrete number is %s", lo.AsBigFloat().Text('g', 20), loInc, c.AsBigFloat().Text('g', 20))
			}
		}
		if hi.IsKnown() && !hi.IsNull() && !hi.AsBigFloat().IsInf() {
			cmp := c.AsBigFloat().Cmp(hi.AsBigFloat())
			if cmp > 0 || (cmp == 0 && !hiInc) {
				return false, fmt.Sprintf("refined upper bound %s (inclusive=%v) but concrete number is %s", hi.AsBigFloat().Text('g', 20), hiInc, c.AsBigFloat().Text('g', 20))
			}
		}
	case ty.IsCollectionType():
		n := c.LengthInt()
		if lo := rng.LengthLowerBound(); n < lo {
			return false, fmt.Sprintf("refined length >= %d but concrete collection has %d elements", lo, n)
		}
		if hi := rng.LengthUpperBound(); n > hi {
			return false, fmt.Sprintf("refined length <= %d but concrete collection has %d elements", hi, n)
		}
	}
	return true, ""
}

// consistent implements the relation of C05 between an abstract result a and
// a concrete result c (both unmarked). It returns "" or a reason.
func consistent(a, c cty.Value, path string) string {
	if !a.IsKnown() {
		if ok, why := admits(a, c); !ok {
			return path + ": " + why
		}
		return ""
	}
	if a.IsNull() {
		if !c.IsNull() {
			return fmt.Sprintf("%s: abstract result is a known null but concrete result is %s", path, valStr(c))
		}
		return ""
	}
	if c.IsNull() {
		return fmt.Sprintf("%s: abstract result is known non-null %s but concrete result is null", path, valStr(a))
	}
	ty := a.Type()
	switch {
	case ty.IsPrimitiveType():
		if !a.RawEquals(c) {
			return fmt.Sprintf("%s: abstract result has known %s but concrete result is %s", path, valStr(a), valStr(c))
		}
	case ty.IsListType() || ty.IsTupleType():
		if a.LengthInt() != c.LengthInt() {
			return fmt.Sprintf("%s: abstract result has %d elements, concrete has %d", path, a.LengthInt(), c.LengthInt())
		}
		ai, ci := a.ElementIterator(), c.ElementIterator()
		i := 0
		for ai.Next() && ci.Next() {
			_, av := ai.Element()
			_, cv := ci.Element()
			if m := consistent(av, cv, fmt.Sprintf("%s[%d]", path, i)); m != "" {
				return m
			}
			i++
		}
	case ty.IsMapType() || ty.IsObjectType():
		if a.LengthInt() != c.LengthInt() {
			return fmt.Sprintf("%s: abstract result has %d keys, concrete has %d", path, a.LengthInt(), c.LengthInt())
		}
		cm := c.AsValueMap()
		for k, av := range a.AsValueMap() {
			cv, ok := cm[k]
			if !ok {
				return fmt.Sprintf("%s: abstract result has key %q which the concrete result lacks", path, k)
			}
			if m := consistent(av, cv, fmt.Sprintf("%s[%q]", path, k)); m != "" {
				return m
			}
		}
	case ty.IsSetType():
		if a.IsWhollyKnown() {
			if !a.RawEquals(c) {
				return fmt.Sprintf("%s: abstract result is the known set %s but concrete result is %s", path, valStr(a), valStr(c))
			}
		}
		// a set containing unknowns: element correspondence is not defined; not judged
	}
	return ""
}

// abstraction kinds
func abstractOf(r *rand.Rand, v cty.Value) (cty.Value, string) {
	ty := v.Type()
	switch k := r.Intn(10); {
	case k == 0:
		return cty.DynamicVal, "dynamic"
	case k <= 3 || v.IsNull():
		return cty.UnknownVal(ty), "typed"
	case k <= 7:
		b := cty.UnknownVal(ty).Refine()
		what := "refined"
		if gen.Chance(r, 0.7) {
			b = b.NotNull()
			what += "+notnull"
		}
		switch {
		case ty == cty.String:
			s := []rune(v.AsString())
			n := 0
			if len(s) > 0 {
				n = r.Intn(len(s) + 1)
			}
			b = b.StringPrefix(string(s[:n]))
			what += "+prefix"
		case ty == cty.Number:
			f := v.AsBigFloat()
			if gen.Chance(r, 0.7) {
				d := big.NewFloat(float64(r.Intn(3)))
				lo := new(big.Float).Sub(f, d)
				inc := lo.Cmp(f) == 0 || gen.Chance(r, 0.5) // (f - d == f for numbers beyond the precision)
				b = b.NumberRangeLowerBound(cty.NumberVal(lo), inc)
				what += "+lower"
			}
			if gen.Chance(r, 0.7) {
				d := big.NewFloat(float64(r.Intn(3)))
				hi := new(big.Float).Add(f, d)
				inc := hi.Cmp(f) == 0 || gen.Chance(r, 0.5)
				b = b.NumberRangeUpperBound(cty.NumberVal(hi), inc)
				what += "+upper"
			}
		case ty.IsCollectionType():
			n := v.LengthInt()
			if gen.Chance(r, 0.7) {
				b = b.CollectionLengthLowerBound(n - r.Intn(n+1))
				what += "+lenlower"
			}
			if gen.Chance(r, 0.7) {
				b = b.CollectionLengthUpperBound(n + r.Intn(3))
				what += "+lenupper"
			}
		}
		return b.NewValue(), what
	default:
		// unknown nested inside a known collection
		switch {
		case (ty.IsListType() || ty.IsTupleType()) && v.LengthInt() > 0:
			idx := r.Intn(v.LengthInt())
			var elems []cty.Value
			i := 0
			for it := v.ElementIterator(); it.Next(); i++ {
				_, ev := it.Element()
				if i == idx {
					ev = cty.UnknownVal(ev.Type())
				}
				elems = append(elems, ev)
			}
			if ty.IsListType() {
				return cty.ListVal(elems), "nested-list"
			}
			return cty.TupleVal(elems), "nested-tuple"
		case (ty.IsMapType() || ty.IsObjectType()) && v.LengthInt() > 0:
			m := v.AsValueMap()
			keys := gen.SortedKeys(m)
			k := gen.Pick(r, keys)
			m[k] = cty.UnknownVal(m[k].Type())
			if ty.IsMapType() {
				return cty.MapVal(m), "nested-map"
			}
			return cty.ObjectVal(m), "nested-object"
		}
		return cty.UnknownVal(ty), "typed"
	}
}

// nestedAdmits: for nested abstractions the concrete value must agree on the known parts.
func absAdmits(abs, c cty.Value) bool {
	if !abs.IsKnown() {
		ok, _ := admits(abs, c)
		return ok
	}
	return consistent(abs, c, "") == ""
}

// instantiate returns a concrete value the abstraction admits.
func instantiate(r *rand.Rand, abs, orig cty.Value) cty.Value {
	ty := orig.Type()
	var cands []cty.Value
	// extremes first
	cands = append(cands, cty.NullVal(ty))
	switch {
	case ty == cty.String:
		cands = append(cands, cty.StringVal(""), cty.StringVal(abs.Range().StringPrefix()), cty.StringVal(abs.Range().StringPrefix()+"́x"), cty.StringVal(abs.Range().StringPrefix()+gen.Str(r, 1)))
	case ty == cty.Number:
		if !abs.IsKnown() {
			lo, _ := abs.Range().NumberLowerBound()
			hi, _ := abs.Range().NumberUpperBound()
			if lo.IsKnown() && !lo.IsNull() && lo.AsBigFloat().IsInf() == false {
				cands = append(cands, lo)
			}
			if hi.IsKnown() && !hi.IsNull() && hi.AsBigFloat().IsInf() == false {
				cands = append(cands, hi)
			}
		}
		cands = append(cands, cty.Zero, cty.NumberIntVal(-1), cty.NumberFloatVal(0.5), cty.NumberIntVal(1000000))
	case ty.IsListType():
		cands = append(cands, cty.ListValEmpty(ty.ElementType()))
	case ty.IsSetType():
		cands = append(cands, cty.SetValEmpty(ty.ElementType()))
	case ty.IsMapType():
		cands = append(cands, cty.MapValEmpty(ty.ElementType()))
	case ty == cty.Bool:
		cands = append(cands, cty.True, cty.False)
	}
	for i := 0; i < 6; i++ {
		cands = append(cands, gen.Value(r, ty, gen.ValOpts{StrLevel: 1, NullProb: 0.05}))
	}
	// nested abstractions: vary only the unknown part
	if abs.IsKnown() {
		var out []cty.Value
		for _, cnd := range cands {
			if cnd.IsNull() {
				continue
			}
			out = append(out, fillUnknowns(r, abs))
		}
		cands = out
	}
	r.Shuffle(len(cands), func(i, j int) { cands[i], cands[j] = cands[j], cands[i] })
	for _, cnd := range cands {
		if cnd.Type().Equals(ty) && absAdmits(abs, cnd) {
			return cnd
		}
	}
	return orig
}

// fillUnknowns replaces every unknown inside a known structure by a random value of its type.
func fillUnknowns(r *rand.Rand, v cty.Value) cty.Value {
	out, _ := cty.Transform(v, func(p cty.Path, x cty.Value) (cty.Value, error) {
		if !x.IsKnown() {
			return gen.Value(r, x.Type(), gen.ValOpts{StrLevel: 1, NullProb: 0.1}), nil
		}
		return x, nil
	})
	return out
}

func c05Case(c *core.Case) {
	r := c.Rng
	if c.Batch == 0 && c.Index < len(c05Directed) {
		c05DirectedCase(c, c05Directed[c.Index])
		return
	}
	sc := gen.NewScope(r, gen.ValOpts{StrLevel: 1})
	g := gen.NewG(r, sc, 0.1)
	g.StrLevel = 1
	ast := g.Expr(gen.WAny, 1+r.Intn(4))
	gen.FixTemplates(ast)
	gen.FixDollar(ast)
	src := gen.RenderExpr(ast, &gen.Layout{})
	he, pd := hclsyntax.ParseExpression([]byte(src), "p.hcl", hcl.InitialPos)
	if pd.HasErrors() {
		return
	}
	var used []string
	seen := map[string]bool{}
	for _, t := range he.Variables() {
		n := t.RootName()
		if _, ok := sc.Vars[n]; ok && !seen[n] {
			seen[n] = true
			used = append(used, n)
		}
	}
	if len(used) == 0 {
		c.Count("skipped:no-variable-used")
		return
	}
	// choose U
	r.Shuffle(len(used), func(i, j int) { used[i], used[j] = used[j], used[i] })
	nU := 1 + r.Intn(len(used))
	if nU > 3 {
		nU = 3
	}
	U := used[:nU]
	absVars := map[string]cty.Value{}
	for k, v := range sc.Vars {
		absVars[k] = v
	}
	var absDesc []string
	for _, n := range U {
		a, what := abstractOf(r, sc.Vars[n])
		absVars[n] = a
		absDesc = append(absDesc, fmt.Sprintf("%s:%s=%s", n, what, valStr(a)))
		c.Count("abstraction:" + strings.SplitN(what, "+", 2)[0])
	}
	c.SetInput(fmt.Sprintf("%s\nABSTRACT: %s\nSCOPE: %s", src, strings.Join(absDesc, "; "), scopeStr(sc)))
	aRes, aDiags := he.Value(ctxWith(absVars))
	c.Evals(1)
	if aDiags.HasErrors() {
		c.Count("abstract-run-has-errors")
		return
	}
	aRes = unmarked(aRes)
	okRuns := 0
	const M = 8
	for i := 0; i < M; i++ {
		conc := map[string]cty.Value{}
		for k, v := range sc.Vars {
			conc[k] = v
		}
		if i > 0 {
			for _, n := range U {
				conc[n] = instantiate(r, absVars[n], sc.Vars[n])
			}
		}
		cRes, cDiags := he.Value(ctxWith(conc))
		c.Evals(1)
		if cDiags.HasErrors() {
			c.Count("concrete-run-has-errors")
			continue
		}
		okRuns++
		cRes = unmarked(cRes)
		if !cRes.IsWhollyKnown() {
			c.Violation("unknown-from-known-scope/"+ast.Shape(), fmt.Sprintf("%s evaluated in a scope without unknown values produced %s", trunc(src, 300), valStr(cRes)), nil)
			return
		}
		// convert the abstract result to the concrete result's type
		aConv := aRes
		if !aRes.Type().Equals(cRes.Type()) {
			var err error
			aConv, err = convert.Convert(aRes, cRes.Type())
			if err != nil {
				c05Report(c, he, ast, src, absVars, conc, U, "type", fmt.Sprintf("abstract result %s cannot convert to the concrete result's type %s (%v); concrete result %s", valStr(aRes), cRes.Type().FriendlyName(), err, valStr(cRes)))
				return
			}
		}
		if m := consistent(aConv, cRes, "result"); m != "" {
			c05Report(c, he, ast, src, absVars, conc, U, "value", fmt.Sprintf("%s\n abstract result: %s\n concrete result: %s", m, valStr(aRes), valStr(cRes)))
			return
		}
		c.Count("consistency-checks-held")
	}
	// the same parsed expression in a second scope whose variables have other
	// types (other element and attribute types under the same kinds): nothing
	// learnt about types in the first abstract run may carry over
	{
		sc2 := gen.NewScope(r, gen.ValOpts{StrLevel: 1})
		vars2 := map[string]cty.Value{}
		for k, v := range sc.Vars {
			vars2[k] = v
		}
		for k, v := range sc2.Vars {
			vars2[k] = v
		}
		abs2 := map[string]cty.Value{}
		for k, v := range vars2 {
			abs2[k] = v
		}
		for _, n := range U {
			abs2[n] = cty.UnknownVal(vars2[n].Type())
		}
		a2, ad2 := he.Value(ctxWith(abs2))
		c2, cd2 := he.Value(ctxWith(vars2))
		c.Evals(2)
		if !ad2.HasErrors() && !cd2.HasErrors() {
			a2, c2 = unmarked(a2), unmarked(c2)
			bad := ""
			conv := a2
			if !a2.Type().Equals(c2.Type()) {
				var err error
				if conv, err = convert.Convert(a2, c2.Type()); err != nil {
					bad = fmt.Sprintf("abstract result %s cannot convert to the concrete result's type %s (%v)", valStr(a2), c2.Type().FriendlyName(), err)
				}
			}
			if bad == "" {
				bad = consistent(conv, c2, "result")
			}
			if bad != "" {
				// is it the re-use of the parsed expression? a fresh parse decides
				fresh, _ := hclsyntax.ParseExpression([]byte(src), "p.hcl", hcl.InitialPos)
				fa, fd := fresh.Value(ctxWith(abs2))
				if !fd.HasErrors() && !unmarked(fa).RawEquals(a2) {
					c.Violation("second-scope/abstract-result-depends-on-earlier-evaluation/"+ast.Shape(), fmt.Sprintf("%s parsed once: the abstract result in a second scope (variables of other types) is %s, a freshly parsed expression gives %s there\n%s", trunc(src, 300), valStr(a2), valStr(fa), bad), nil)
					return
				}
				c.Count("second-scope:inconsistency-also-on-fresh-parse(judged by the first-scope relation)")
			} else {
				c.Count("second-scope-consistency-held")
			}
		}
	}
	if !aRes.IsWhollyKnown() && okRuns >= 2 {
		c.NonTrivial(src + strings.Join(absDesc, ";"))
		for _, k := range ast.KindsUsed() {
			c.Count("abstracted:" + k)
		}
	}
	if c.WantSample() && !aRes.IsWhollyKnown() {
		c.Sample(map[string]any{"program": trunc(src, 200), "abstraction": absDesc, "abstract_result": trunc(aRes.GoString(), 200)})
	}
}

func c05Report(c *core.Case, he hclsyntax.Expression, ast *gen.Node, src string, absVars, conc map[string]cty.Value, U []string, kind, msg string) {
	// shrink: smallest sub-expression for which the same pair of scopes is inconsistent
	small := gen.Shrink(ast, func(n *gen.Node) bool {
		s := gen.RenderExpr(n, &gen.Layout{})
		e, pd := hclsyntax.ParseExpression([]byte(s), "p.hcl", hcl.InitialPos)
		if pd.HasErrors() {
			return false
		}
		a, ad := e.Value(ctxWith(absVars))
		cv, cd := e.Value(ctxWith(conc))
		if ad.HasErrors() || cd.HasErrors() {
			return false
		}
		a, cv = unmarked(a), unmarked(cv)
		if !a.Type().Equals(cv.Type()) {
			var err error
			a, err = convert.Convert(a, cv.Type())
			if err != nil {
				return true
			}
		}
		return consistent(a, cv, "") != ""
	})
	var cd []string
	for _, n := range U {
		cd = append(cd, fmt.Sprintf("%s=%s", n, valStr(conc[n])))
	}
	// Is a conditional's special treatment of its arms the root cause? Rewrite
	// every conditional p ? a : b of the minimal expression as [a, b][p ? 0 : 1]:
	// both arms are then evaluated like any other operand (an arm that fails
	// makes the run fail) and the selected arm keeps its own type (no
	// unification with the other arm). If the inconsistency is gone, it came
	// from one of the two adjudicated behaviours (known_findings.json).
	hasCond := false
	small.Walk(func(n *gen.Node) {
		if n.Kind == gen.KCond {
			hasCond = true
		}
	})
	if hasCond {
		plain := gen.Rewrite(small, func(n *gen.Node) *gen.Node {
			if n.Kind != gen.KCond {
				return n
			}
			sel := &gen.Node{Kind: gen.KCond, Kids: []*gen.Node{n.Kids[0], gen.Num("0"), gen.Num("1")}, Ty: cty.Number}
			return &gen.Node{Kind: gen.KIndex, Kids: []*gen.Node{{Kind: gen.KTuple, Kids: []*gen.Node{n.Kids[1], n.Kids[2]}}, sel}, Ty: cty.DynamicPseudoType}
		})
		if pe, pd := hclsyntax.ParseExpression([]byte(gen.RenderExpr(plain, &gen.Layout{})), "p.hcl", hcl.InitialPos); !pd.HasErrors() {
			pa, pad := pe.Value(ctxWith(absVars))
			pc, pcd := pe.Value(ctxWith(conc))
			class := ""
			switch {
			case pcd.HasErrors() && !pad.HasErrors():
				class = "unsound/conditional-arm-fails-only-concretely"
			case pcd.HasErrors() && pad.HasErrors():
				// the conditional itself evaluated in both runs, so what fails here is
				// an unselected arm; the conditional drops its error but unifies the
				// result type with the placeholder the failed arm left behind, which
				// is not the same in the two runs
				class = "unsound/conditional-type-from-failing-unselected-arm"
			case !pcd.HasErrors() && !pad.HasErrors():
				pa, pc = unmarked(pa), unmarked(pc)
				okc := true
				if !pa.Type().Equals(pc.Type()) {
					var err error
					if pa, err = convert.Convert(pa, pc.Type()); err != nil {
						okc = false
					}
				}
				if okc && consistent(pa, pc, "") == "" {
					class = "unsound/conditional-type-from-unselected-arm"
				}
			}
			if class != "" {
				c.Violation(class, fmt.Sprintf("program %s (minimal sub-expression: %s)\nconcrete instantiation: %s\n%s", trunc(src, 300), gen.RenderExpr(small, &gen.Layout{}), strings.Join(cd, "; "), msg), nil)
				return
			}
		}
	}
	c.Violation("unsound/"+kind+"/"+small.Shape(), fmt.Sprintf("program %s (minimal sub-expression: %s)\nconcrete instantiation: %s\n%s", trunc(src, 300), gen.RenderExpr(small, &gen.Layout{}), strings.Join(cd, "; "), msg), nil)
}

// ---------------------------------------------------------------- directed abstractions

type c05Dir struct {
	Src   string
	Abs   map[string]cty.Value
	Concs []map[string]cty.Value
}

func numRef(lo, hi *int64, loInc, hiInc bool) cty.Value {
	b := cty.UnknownVal(cty.Number).Refine().NotNull()
	if lo != nil {
		b = b.NumberRangeLowerBound(cty.NumberIntVal(*lo), loInc)
	}
	if hi != nil {
		b = b.NumberRangeUpperBound(cty.NumberIntVal(*hi), hiInc)
	}
	return b.NewValue()
}

func i64(v int64) *int64 { return &v }

var c05Directed = func() []c05Dir {
	ub := cty.UnknownVal(cty.Bool)
	T, F := cty.True, cty.False
	n := func(v int64) cty.Value { return cty.NumberIntVal(v) }
	s := func(v string) cty.Value { return cty.StringVal(v) }
	var out []c05Dir
	for _, src := range []string{"c ? x : 5", "c ? 5 : x", "c ? x : y", "c ? (x + 0) : 5"} {
		out = append(out,
			c05Dir{Src: src, Abs: map[string]cty.Value{"c": ub, "x": numRef(i64(5), nil, false, false), "y": numRef(i64(5), nil, true, false)},
				Concs: []map[string]cty.Value{{"c": F, "x": n(6), "y": n(5)}, {"c": T, "x": n(6), "y": n(5)}, {"c": T, "x": n(1000), "y": n(7)}}},
			c05Dir{Src: src, Abs: map[string]cty.Value{"c": ub, "x": numRef(nil, i64(5), false, false), "y": numRef(nil, i64(5), false, true)},
				Concs: []map[string]cty.Value{{"c": F, "x": n(4), "y": n(5)}, {"c": T, "x": n(4), "y": n(5)}, {"c": F, "x": n(-9), "y": n(-9)}}},
			c05Dir{Src: src, Abs: map[string]cty.Value{"c": ub, "x": numRef(i64(1), i64(9), true, true), "y": numRef(i64(3), i64(20), false, false)},
				Concs: []map[string]cty.Value{{"c": F, "x": n(1), "y": n(4)}, {"c": T, "x": n(9), "y": n(19)}, {"c": T, "x": n(1), "y": n(19)}}})
	}
	for _, src := range []string{`"resume${s}"`, `"a${s}"`, `"x_${s}"`, `"${t}${s}"`, `"e${s}" == "é.txt"`, `"ᄀ${s}"`, `"pre${s}post"`, `"%{ if c }k${s}%{ endif }"`} {
		out = append(out, c05Dir{Src: src, Abs: map[string]cty.Value{"s": cty.UnknownVal(cty.String).RefineNotNull(), "t": s("e"), "c": T},
			Concs: []map[string]cty.Value{{"s": s("́.txt")}, {"s": s("")}, {"s": s("ᅡ")}, {"s": s("plain")}, {"s": s("̈́")}}})
	}
	for _, src := range []string{"x[*]", "x.*", "x[*].a", "[for v in x: v]", "x == null", "x != null ? x : \"d\"", "c ? null : x", "c ? x : null", "c ? null : null", "c ? [x] : []", "c ? {a = x} : {}", "c || x == \"a\"", "c && x == \"a\"", "!c ? 1 : 2"} {
		out = append(out, c05Dir{Src: src, Abs: map[string]cty.Value{"x": cty.UnknownVal(cty.String), "c": ub},
			Concs: []map[string]cty.Value{{"x": cty.NullVal(cty.String), "c": T}, {"x": s("a"), "c": F}, {"x": s("a"), "c": T}, {"x": cty.NullVal(cty.String), "c": F}}})
	}
	lref := cty.UnknownVal(cty.List(cty.Object(map[string]cty.Type{"id": cty.Number}))).Refine().NotNull().CollectionLengthLowerBound(1).CollectionLengthUpperBound(2).NewValue()
	o := func(v int64) cty.Value { return cty.ObjectVal(map[string]cty.Value{"id": n(v)}) }
	for _, src := range []string{"l[*].id", "l.*.id", "[for v in l: v.id]", "{for i, v in l: i => v.id}", "l[0].id", "l[1]", "len(l)", "l[*].id[0]", "c ? l : []", "[for v in l: v.id if v.id > 1]", "\"%{ for v in l }${v.id}%{ endfor }\""} {
		out = append(out, c05Dir{Src: src, Abs: map[string]cty.Value{"l": lref, "c": ub},
			Concs: []map[string]cty.Value{{"l": cty.ListVal([]cty.Value{o(1)}), "c": T}, {"l": cty.ListVal([]cty.Value{o(1), o(2)}), "c": F}, {"l": cty.ListVal([]cty.Value{o(3), o(2)}), "c": T}}})
	}
	// one element of a known collection abstracted, at every position: what is
	// iterated / joined after the unknown element must not make the result known
	for _, src := range []string{`"%{ for x in [a, b, c] }<${x}>%{ endfor }"`, `"%{ for k, x in {p = a, q = b, r = c} }${k}=${x};%{ endfor }"`,
		`"%{ for x in [a, b, c] }%{ if x != "q" }${x}%{ endif }%{ endfor }"`, `"${a}-${b}-${c}"`, `[a, b, c][*]`, `join(",", [a, b, c])`,
		`"%{ for x in [a, b] }${x}%{ endfor }${c}"`, "<<EOT\n%{ for x in [a, b, c] ~}\n  ${x}\n%{ endfor ~}\nEOT\n", `[for x in [a, b, c]: "${x}!"]`, `{for i, x in [a, b, c]: x => i...}`} {
		for _, name := range []string{"a", "b", "c"} {
			for _, unk := range []cty.Value{cty.UnknownVal(cty.String), cty.UnknownVal(cty.String).RefineNotNull(), cty.UnknownVal(cty.String).Refine().NotNull().StringPrefix("q").NewValue(), cty.DynamicVal} {
				abs := map[string]cty.Value{"a": s("p"), "b": s("q"), "c": s("r")}
				abs[name] = unk
				out = append(out, c05Dir{Src: src, Abs: abs, Concs: []map[string]cty.Value{{name: s("q")}, {name: s("qq")}, {name: s("q-other")}}})
			}
		}
	}
	// comparisons of constructors that hold the abstracted variable
	for _, src := range []string{`[v] == [1]`, `[v] != [1]`, `{a = v, b = "x"} == {a = 1, b = "x"}`, `[[v]] == [[1]]`, `[v, 2] == [1, 2]`, `{a = [v]} != {a = [1]}`, `[v] == [w]`, `tup(v) == tup(1)`} {
		for _, unk := range []cty.Value{cty.DynamicVal, cty.UnknownVal(cty.Number), cty.UnknownVal(cty.Number).RefineNotNull()} {
			out = append(out, c05Dir{Src: src, Abs: map[string]cty.Value{"v": unk, "w": n(1)}, Concs: []map[string]cty.Value{{"v": n(1)}, {"v": n(2)}, {"v": s("1")}}})
		}
	}
	// a conditional between two collections of one type, from variables: the
	// length bounds of the result must admit either arm
	for _, src := range []string{"c ? a : b", "c ? b : a", "len(c ? a : b)", "[for x in (c ? a : b): x]", "c ? a : (c ? b : a)"} {
		for _, abs := range []cty.Value{cty.UnknownVal(cty.List(cty.String)), cty.UnknownVal(cty.List(cty.String)).Refine().NotNull().CollectionLengthLowerBound(1).CollectionLengthUpperBound(3).NewValue(),
			cty.UnknownVal(cty.List(cty.String)).Refine().NotNull().CollectionLengthLowerBound(2).NewValue(), cty.UnknownVal(cty.List(cty.String)).Refine().NotNull().CollectionLengthUpperBound(4).NewValue()} {
			for _, bval := range []cty.Value{cty.ListVal([]cty.Value{s("only")}), cty.ListValEmpty(cty.String), cty.ListVal([]cty.Value{s("p"), s("q"), s("r"), s("s"), s("t")})} {
				l := func(xs ...string) cty.Value {
					vs := make([]cty.Value, len(xs))
					for i, x := range xs {
						vs[i] = s(x)
					}
					return cty.ListVal(vs)
				}
				out = append(out, c05Dir{Src: src, Abs: map[string]cty.Value{"c": ub, "a": abs, "b": bval},
					Concs: []map[string]cty.Value{{"c": T, "a": l("x", "y", "z")}, {"c": F, "a": l("x", "y")}, {"c": T, "a": l("x", "y")}, {"c": T, "a": l("x", "y", "z", "w")}, {"c": F, "a": l("x", "y", "z")}}})
			}
		}
	}
	// a conditional whose predicate is not known between a constructor and a
	// collection: the constructor is converted to the collection type, which may
	// change its length (tuple to set) — any length promised for the unknown
	// result must admit both converted arms
	for _, src := range []string{"c ? [a, b] : st", "c ? st : [a, b]", "c ? [a, b] : ls", "c ? [a, b, a] : st", "c ? {p = a, q = b} : mp", "c ? [a, b] : []", "c ? [[a, b]] : [st]",
		"len(c ? [a, b] : st)", "[for x in (c ? [a, b] : st): x]", "c ? tup(a, b) : st", "c ? [for x in [a, b]: x] : st"} {
		for _, ab := range [][2]string{{"k", "k"}, {"k", "j"}, {"x", "y"}} {
			base := map[string]cty.Value{"a": s(ab[0]), "b": s(ab[1]), "st": cty.SetVal([]cty.Value{s("x"), s("y")}), "ls": cty.ListVal([]cty.Value{s("x"), s("y")}), "mp": cty.MapVal(map[string]cty.Value{"p": s("x"), "q": s("y")})}
			abs := map[string]cty.Value{"c": ub}
			for k, v := range base {
				abs[k] = v
			}
			out = append(out, c05Dir{Src: src, Abs: abs, Concs: []map[string]cty.Value{{"c": T}, {"c": F}}})
		}
	}
	return out
}()

func c05DirectedCase(c *core.Case, d c05Dir) {
	he, pd := hclsyntax.ParseExpression([]byte(d.Src), "d.hcl", hcl.InitialPos)
	if pd.HasErrors() {
		panic("C05 directed program does not parse: " + d.Src)
	}
	c.SetInput(fmt.Sprintf("%s\nABSTRACT: %v", d.Src, d.Abs))
	aRes, ad := he.Value(ctxWith(d.Abs))
	c.Evals(1)
	c.Count("directed-programs")
	if ad.HasErrors() {
		c.Count("abstract-run-has-errors")
		return
	}
	aRes = unmarked(aRes)
	ok := 0
	for _, cm := range d.Concs {
		conc := map[string]cty.Value{}
		for k, v := range d.Abs {
			conc[k] = v
		}
		admitted := true
		for k, v := range cm {
			conc[k] = v
			if a, ok := d.Abs[k]; ok && !absAdmits(a, v) {
				admitted = false // (an instantiation outside the abstraction's refinements proves nothing)
			}
		}
		if !admitted {
			c.Count("directed:instantiation-not-admitted")
			continue
		}
		cRes, cd := he.Value(ctxWith(conc))
		c.Evals(1)
		if cd.HasErrors() {
			continue
		}
		ok++
		cRes = unmarked(cRes)
		if !cRes.IsWhollyKnown() {
			// other variables of the abstract scope may still be unknown here
			continue
		}
		aConv := aRes
		if !aRes.Type().Equals(cRes.Type()) {
			var err error
			aConv, err = convert.Convert(aRes, cRes.Type())
			if err != nil {
				c.Violation("unsound/type/directed:"+d.Src, fmt.Sprintf("program %s with %v: abstract result %s cannot convert to the concrete result's type (%v); concrete %s", d.Src, cm, valStr(aRes), err, valStr(cRes)), nil)
				return
			}
		}
		if m := consistent(aConv, cRes, "result"); m != "" {
			c.Violation("unsound/value/directed:"+d.Src, fmt.Sprintf("program %s with %v: %s\n abstract result: %s\n concrete result: %s", d.Src, cm, m, valStr(aRes), valStr(cRes)), nil)
			return
		}
		c.Count("consistency-checks-held")
	}
	if !aRes.IsWhollyKnown() && ok >= 2 {
		c.NonTrivial("directed:" + d.Src + fmt.Sprint(d.Abs))
	}
}
