package mon

import (
	"bytes"
	"fmt"
	"math/rand"
	"regexp"
	"strings"

	"github.com/hashicorp/hcl/v2"
	"github.com/hashicorp/hcl/v2/ext/dynblock"
	"github.com/hashicorp/hcl/v2/gohcl"
	"github.com/hashicorp/hcl/v2/hcldec"
	"github.com/hashicorp/hcl/v2/hclsyntax"
	hcljson "github.com/hashicorp/hcl/v2/json"
	"github.com/zclconf/go-cty/cty"
	"github.com/zclconf/go-cty/cty/function"

	"verifharness/core"
	"verifharness/gen"
)

func init() {
	Register(&Spec{
		ID:        "C19",
		Technique: "runtime monitoring: taint-canary monitor — high-entropy secrets occur only inside marked values; every diagnostic's summary, detail and text rendering is scanned for them",
		Rule: "each case is a generated (50% ill-typed) expression, a directed erroneous program, or a body decoded with hcldec/dynblock, evaluated in a scope where per-case random canaries (14-character strings, 10-digit numbers) occur only inside values marked S: whole values, nested elements, map keys, values reached through conversions, collections marked as a whole that hold the same secret twice; all diagnostics are rendered as Summary, Detail and through NewDiagnosticTextWriter (source registered, width 0/78, colour on/off) and scanned for every canary; " +
			"non-trivial = the evaluation produced at least one diagnostic and the program reads a canary-carrying variable; distinct by program + scope hash",
		Assumptions: []string{"canaries are random 14-character / 10-digit strings that do not occur in the source text, in identifiers or in any message template, so a hit can only come from a value", "messages of harness functions are fixed canary-free strings (application functions are outside the guarantee)"},
		Quick:       Plan{Batches: 16, PerBatch: 5000, MinNonTrivial: 12000},
		Thorough:    Plan{Batches: 64, PerBatch: 60000, MinNonTrivial: 150000},
		Case:        c19Case,
	})
}

const c19Mark = "S"

type canaries struct {
	strs []string
	nums []string // integer-part digit strings
	// keys are the canaries used as attribute names of okey / okeys / onest
	keys []string
}

func newCanaryStr(r *rand.Rand) string {
	const al = "ABCDEFGHJKLMNPQRSTUVWXYZabcdefghijkmnopqrstuvwxyz23456789"
	b := make([]byte, 14)
	for i := range b {
		b[i] = al[r.Intn(len(al))]
	}
	// make sure it is not a plain word: force digit/letter alternation at two spots
	b[3] = "23456789"[r.Intn(8)]
	b[9] = "23456789"[r.Intn(8)]
	return "Qz" + string(b)
}

func newCanaryNum(r *rand.Rand) (string, cty.Value) {
	digits := fmt.Sprintf("%d%09d", 1+r.Intn(8), r.Intn(1000000000))
	return digits, gen.NumVal(digits + ".25")
}

func (cs *canaries) scan(text string) string {
	low := strings.ToLower(text)
	for _, s := range cs.strs {
		if strings.Contains(low, strings.ToLower(s)) {
			return s
		}
	}
	for _, n := range cs.nums {
		if strings.Contains(text, n) {
			return n
		}
	}
	return ""
}

// c19Scope replaces some variables of a generated scope by canary-carrying
// marked values and returns the names that carry canaries.
func c19Scope(r *rand.Rand, sc *gen.Scope, cs *canaries) []string {
	return c19ScopeOpt(r, sc, cs, true)
}

// c19ScopeOpt: keyObjects adds the objects whose attribute NAMES are secrets.
// They are left out of scopes the expression generator draws from, because it
// spells attribute names it finds in the scope into the source text, and a
// canary must never occur in source text.
func c19ScopeOpt(r *rand.Rand, sc *gen.Scope, cs *canaries, keyObjects bool) []string {
	var carriers []string
	str := func() cty.Value {
		s := newCanaryStr(r)
		cs.strs = append(cs.strs, s)
		return cty.StringVal(s)
	}
	num := func() cty.Value {
		d, v := newCanaryNum(r)
		cs.nums = append(cs.nums, d)
		return v
	}
	set := func(name string, v cty.Value) {
		sc.Set(name, v)
		carriers = append(carriers, name)
	}
	set("s", str().Mark(c19Mark))
	set("n", num().Mark(c19Mark))
	switch r.Intn(4) {
	case 0:
		set("lst", cty.ListVal([]cty.Value{str(), str()}).Mark(c19Mark))
	case 1:
		set("lst", cty.ListVal([]cty.Value{str().Mark(c19Mark), cty.StringVal("plain")}))
	case 2:
		set("lst", cty.ListVal([]cty.Value{num(), num()}).Mark(c19Mark))
	default:
		set("lst", cty.ListVal([]cty.Value{cty.ObjectVal(map[string]cty.Value{"id": num(), "name": str()})}).Mark(c19Mark))
	}
	switch r.Intn(3) {
	case 0:
		k1, k2 := newCanaryStr(r), newCanaryStr(r)
		cs.strs = append(cs.strs, k1, k2)
		set("mp", cty.MapVal(map[string]cty.Value{k1: cty.StringVal("v1"), k2: cty.StringVal("v2")}).Mark(c19Mark))
	case 1:
		set("mp", cty.MapVal(map[string]cty.Value{"a": str(), "b": str()}).Mark(c19Mark))
	default:
		set("mp", cty.MapVal(map[string]cty.Value{"a": str().Mark(c19Mark), "b": cty.StringVal("plain")}))
	}
	switch r.Intn(3) {
	case 0:
		set("obj", cty.ObjectVal(map[string]cty.Value{"a": num().Mark(c19Mark), "b": str().Mark(c19Mark), "c": cty.ListVal([]cty.Value{num()}).Mark(c19Mark), "id": cty.StringVal("plain")}))
	case 1:
		set("obj", cty.ObjectVal(map[string]cty.Value{"a": num(), "b": str(), "c": cty.ListVal([]cty.Value{cty.NumberIntVal(1)}), "id": str()}).Mark(c19Mark))
	}
	if gen.Chance(r, 0.5) {
		set("tup", cty.TupleVal([]cty.Value{num().Mark(c19Mark), str().Mark(c19Mark), cty.True}))
	}
	if gen.Chance(r, 0.5) {
		set("st", cty.SetVal([]cty.Value{str(), str()}).Mark(c19Mark))
	}
	if gen.Chance(r, 0.3) {
		set("t", str().Mark(c19Mark))
	}
	// objects whose attribute NAMES are secrets (built from marked keys): whole
	// object marked, with exactly one and with several attributes, and nested
	if keyObjects {
		k1, k2, k3 := newCanaryStr(r), newCanaryStr(r), newCanaryStr(r)
		cs.strs = append(cs.strs, k1, k2, k3)
		cs.keys = []string{k1, k2, k3}
		set("okey", cty.ObjectVal(map[string]cty.Value{k1: cty.True}).Mark(c19Mark))
		set("okeys", cty.ObjectVal(map[string]cty.Value{k2: cty.True, k3: cty.NumberIntVal(1)}).Mark(c19Mark))
		set("onest", cty.ObjectVal(map[string]cty.Value{"auth": cty.ObjectVal(map[string]cty.Value{k1: cty.NumberIntVal(1)}).Mark(c19Mark)}))
	}
	return carriers
}

// renderDiags returns every textual form of the diagnostics the property names.
func renderDiags(d hcl.Diagnostics, src []byte, filename string) []string {
	var out []string
	for _, x := range d {
		out = append(out, x.Summary, x.Detail)
	}
	files := map[string]*hcl.File{filename: {Bytes: src}}
	for _, width := range []uint{0, 78} {
		for _, color := range []bool{false, true} {
			var buf bytes.Buffer
			wr := hcl.NewDiagnosticTextWriter(&buf, files, width, color)
			_ = wr.WriteDiagnostics(d)
			out = append(out, buf.String())
		}
	}
	return out
}

var withAsRe = regexp.MustCompile(`^(?:with)?\s+([A-Za-z_][A-Za-z0-9_-]*)[^ ]* as `)

// onlyIteratorLeaks reports whether every line of the rendering that contains
// a canary is a "with NAME as VALUE" clause of the text writer whose NAME is
// one of the given bound iteration variables.
func onlyIteratorLeaks(cs *canaries, text string, bound map[string]bool) bool {
	any := false
	for _, ln := range strings.Split(text, "\n") {
		if cs.scan(ln) == "" {
			continue
		}
		any = true
		m := withAsRe.FindStringSubmatch(ln)
		if m == nil || !bound[m[1]] {
			return false
		}
	}
	return any
}

// c19Recheck, when set, re-runs the case with every marked collection also
// marked on each of its elements and reports whether the leak is gone: then
// the root cause is the known unmarking of iteration elements.
var c19Recheck func() bool

// c19RecheckKeys, when set, re-runs the case with the keys of every marked map
// or object replaced by harmless names and reports whether the leak is gone.
var c19RecheckKeys func() bool

// c19RecheckIter, when set, re-runs the program with every reference to an
// iteration variable re-marked and reports whether the leak is gone.
var c19RecheckIter func() bool

// c19Bound is set by the caller to the iteration variable names of the program.
var c19Bound map[string]bool

func c19Check(c *core.Case, cs *canaries, d hcl.Diagnostics, src []byte, filename, what string, shape func() string) bool {
	if len(d) == 0 {
		return true
	}
	for _, x := range d {
		c.Count("diag:" + x.Summary)
	}
	c.CountN("diagnostics-scanned", len(d))
	texts := renderDiags(d, src, filename)
	for i, t := range texts {
		if hit := cs.scan(t); hit != "" {
			where := "text-writer"
			sum := ""
			if i < 2*len(d) {
				sum = d[i/2].Summary
				if i%2 == 0 {
					where = "summary"
				} else {
					where = "detail"
				}
			} else {
				// find the diagnostic whose rendering contains it
				for _, x := range d {
					var buf bytes.Buffer
					wr := hcl.NewDiagnosticTextWriter(&buf, map[string]*hcl.File{filename: {Bytes: src}}, 78, false)
					_ = wr.WriteDiagnostic(x)
					if cs.scan(buf.String()) != "" {
						sum = x.Summary
						break
					}
				}
			}
			if where == "text-writer" && c19Bound != nil && onlyIteratorLeaks(cs, t, c19Bound) {
				c.Violation("iteration-variable-over-marked-collection", fmt.Sprintf("%s: the text writer prints the value of an iteration variable that is bound to an element of a marked collection:\n%s", what, trunc(t, 700)), map[string]any{"canary": hit})
				return false
			}
			if c19Recheck != nil && c19Recheck() {
				c.Violation("iteration-variable-over-marked-collection", fmt.Sprintf("%s: the %s of diagnostic %q shows a secret taken from an iteration variable bound to a bare element of a marked collection (no leak when the elements carry the mark themselves):\n%s", what, where, sum, trunc(t, 700)), map[string]any{"canary": hit})
				return false
			}
			if c19RecheckKeys != nil && len(c19Bound) > 0 && c19RecheckKeys() {
				// the secret is a KEY of a wholly marked map or object, bound bare to the
				// key variable of an iteration (keys cannot carry marks themselves, so
				// marking the elements does not help); same root cause as above, classed
				// per diagnostic so that other messages stay separate findings
				c.Violation("iteration-key-variable-over-marked-map/"+sum, fmt.Sprintf("%s: the %s of diagnostic %q shows a key of a marked map that reached it through the key variable of an iteration (no leak when the map has other keys):\n%s", what, where, sum, trunc(t, 700)), map[string]any{"canary": hit})
				return false
			}
			if c19RecheckIter != nil && c19RecheckIter() {
				c.Violation("iteration-variable-over-marked-collection", fmt.Sprintf("%s: the %s of diagnostic %q shows a secret that reached it through an iteration variable (no leak when every reference to an iteration variable puts the mark back):\n%s", what, where, sum, trunc(t, 700)), map[string]any{"canary": hit})
				return false
			}
			c.Violation("canary-in-"+where+"/"+sum+"/"+shape(), fmt.Sprintf("%s: a secret that occurs only inside a marked value appears in the %s of diagnostic %q:\n%s", what, where, sum, trunc(t, 700)), map[string]any{"canary": hit})
			return false
		}
	}
	return true
}

func c19Case(c *core.Case) {
	r := c.Rng
	if c.Batch == 0 && c.Index < len(c19Directed) {
		c19DirectedCase(c, c19Directed[c.Index])
		return
	}
	if c.Index%5 == 4 {
		c19BodyCase(c)
		return
	}
	sc := gen.NewScope(r, gen.ValOpts{StrLevel: 0})
	cs := &canaries{}
	carriers := c19ScopeOpt(r, sc, cs, false)
	g := gen.NewG(r, sc, 0.5)
	g.StrLevel = 0
	ast := g.Expr(gen.WAny, 1+r.Intn(4))
	gen.FixTemplates(ast)
	gen.FixDollar(ast)
	src := gen.RenderExpr(ast, &gen.Layout{})
	asJSON := gen.Chance(r, 0.15) && !strings.Contains(src, "\n")
	var eval func(*hcl.EvalContext) (cty.Value, hcl.Diagnostics)
	filename := "p.hcl"
	var text string
	if asJSON {
		filename = "p.json"
		q := gen.JSONQuote(nil, "${"+src+"}")
		text = gen.Pick(r, []string{q, "{" + q + ": 1, \"k\": " + q + "}", "[" + q + "]"})
		je, d := hcljson.ParseExpression([]byte(text), filename)
		if d.HasErrors() {
			return
		}
		eval = je.Value
	} else {
		text = src
		he, d := hclsyntax.ParseExpression([]byte(text), filename, hcl.InitialPos)
		if d.HasErrors() {
			return
		}
		eval = he.Value
	}
	c.SetInput(text + "\nSCOPE: " + scopeStr(sc))
	_, d := eval(evalCtx(sc))
	c.Evals(1)
	uses := false
	for _, n := range carriers {
		if ast.Uses(n) {
			uses = true
		}
	}
	if asJSON {
		c.Count("route:json-expression")
	} else {
		c.Count("route:native-expression")
	}
	c19Bound = boundNames(ast)
	c19Recheck = func() bool {
		deep := sc.Clone()
		for _, n := range deep.Names {
			deep.Vars[n] = markElementsToo(deep.Vars[n])
		}
		_, dd := eval(evalCtx(deep))
		for _, t := range renderDiags(dd, []byte(text), filename) {
			if cs.scan(t) != "" {
				return false
			}
		}
		return true
	}
	c19RecheckKeys = func() bool {
		plain := sc.Clone()
		for _, n := range plain.Names {
			plain.Vars[n] = renameMarkedKeys(plain.Vars[n])
		}
		_, dd := eval(evalCtx(plain))
		for _, t := range renderDiags(dd, []byte(text), filename) {
			if cs.scan(t) != "" {
				return false
			}
		}
		return true
	}
	// third re-run: the same program with every reference to a name that a for
	// expression or for directive binds wrapped in a function that puts the mark
	// back (remark(v)). If the secret no longer shows, it reached the message
	// through an iteration variable, whatever the collection was built from.
	c19RecheckIter = func() bool {
		if len(c19Bound) == 0 {
			return false
		}
		re := gen.Rewrite(ast, func(n *gen.Node) *gen.Node {
			if n.Kind == gen.KVar && c19Bound[n.Name] {
				return &gen.Node{Kind: gen.KCall, Name: "remark", Kids: []*gen.Node{n}, Ty: n.Ty}
			}
			return n
		})
		src2 := gen.RenderExpr(re, &gen.Layout{})
		text2 := src2
		var eval2 func(*hcl.EvalContext) (cty.Value, hcl.Diagnostics)
		if asJSON {
			text2 = strings.ReplaceAll(text, string(gen.JSONQuote(nil, "${"+src+"}")), string(gen.JSONQuote(nil, "${"+src2+"}")))
			je, pd := hcljson.ParseExpression([]byte(text2), filename)
			if pd.HasErrors() {
				return false
			}
			eval2 = je.Value
		} else {
			he, pd := hclsyntax.ParseExpression([]byte(text2), filename, hcl.InitialPos)
			if pd.HasErrors() {
				return false
			}
			eval2 = he.Value
		}
		ctx2 := evalCtx(sc)
		fns := map[string]function.Function{}
		for n, f := range ctx2.Functions {
			fns[n] = f
		}
		fns["remark"] = function.New(&function.Spec{
			Params: []function.Parameter{{Name: "v", Type: cty.DynamicPseudoType, AllowMarked: true, AllowNull: true, AllowUnknown: true, AllowDynamicType: true}},
			Type:   func(a []cty.Value) (cty.Type, error) { return a[0].Type(), nil },
			Impl:   func(a []cty.Value, r cty.Type) (cty.Value, error) { return a[0].Mark(c19Mark), nil },
		})
		ctx2.Functions = fns
		_, dd := eval2(ctx2)
		for _, t := range renderDiags(dd, []byte(text2), filename) {
			// (the text writer still prints the bare value of the variable inside
			// remark(v) in its "with v as" clause: that part is the known finding itself)
			if cs.scan(t) != "" && !onlyIteratorLeaks(cs, t, c19Bound) {
				return false
			}
		}
		return true
	}
	defer func() { c19Recheck, c19RecheckKeys, c19RecheckIter = nil, nil, nil }()
	ok := c19Check(c, cs, d, []byte(text), filename, "evaluating "+trunc(text, 200), func() string {
		// shrink: smallest sub-expression whose own diagnostics still leak
		small := gen.Shrink(ast, func(n *gen.Node) bool {
			s := gen.RenderExpr(n, &gen.Layout{})
			he, pd := hclsyntax.ParseExpression([]byte(s), "p.hcl", hcl.InitialPos)
			if pd.HasErrors() {
				return false
			}
			_, dd := he.Value(evalCtx(sc))
			for _, t := range renderDiags(dd, []byte(s), "p.hcl") {
				if cs.scan(t) != "" {
					return true
				}
			}
			return false
		})
		return small.Shape()
	})
	if !ok {
		return
	}
	if len(d) > 0 && uses {
		c.NonTrivial(text + scopeStr(sc))
	}
	if c.WantSample() && len(d) > 0 {
		c.Sample(map[string]any{"program": trunc(text, 200), "diagnostics": summaries(d)})
	}
}

// ---------------------------------------------------------------- directed erroneous programs

var c19Directed = []string{
	`{for v in [s, s]: v => 1}`, `{for v in lst: v => 1}`, `{for k, v in mp: "x" => k}`, `{(s) = 1, (s) = 2}`,
	`true ? {(s) = 1} : {other = "x"}`, `true ? [s] : {a = 1}`, `true ? lst : mp`, `f ? obj : tup`,
	`obj[s]`, `mp[s]`, `lst[s]`, `lst[n]`, `tup[n]`, `tup[s]`, `obj.nope[s]`, `s.foo`, `n.foo`, `s[0]`, `mp.nokey`, `mp["${s}"]`,
	`s + 1`, `n + s`, `-s`, `!s`, `s && true`, `s < 1`, `n < s`, `upper(n)`, `add(s, 1)`, `add(1, s)`, `len(s)`, `join(s, lst...)`, `join("-", mp...)`, `add(lst...)`, `ns::inc(s)`,
	`"${lst}"`, `"x${mp}y"`, `"%{ if s }a%{ endif }"`, `"%{ for v in s }a%{ endfor }"`, `"%{ for v in lst }${v.foo}%{ endfor }"`,
	`[for v in lst: v.foo]`, `[for v in lst: v + 1]`, `[for k, v in mp: k + 1]`, `[for v in lst: v if v]`, `[for v in s: v]`, `[for v in n: v]`, `{for v in lst: v => v if v}`, `{for k, v in mp: v => k...}`,
	`lst[*].foo`, `lst.*.foo`, `s[*].foo`, `mp[*].foo`, `lst[*].id.bar`, `lst[*][s]`,
	`s ? 1 : 2`, `n ? 1 : 2`, `lst ? 1 : 2`, `{a = s}.b`, `[s][1]`, `{(n) = 1}.x`, `[for v in lst: v][5]`,
	`null + n`, `s == 1 ? nul.x : 0`, `tolist_missing(s)`, `upper(s, s)`, `upper()`, `fail(s)`, `coalesce(nul, nul)`,
	`lst[s][n]`, `obj.a.b`, `obj.b.c`, `obj.c[s]`, `tup[0].x`, `tup[1][0]`, `st[0]`, `st[s]`, `st.foo`,
	`okey.nope`, `okey + 1`, `"${okey}"`, `"x${okey}"`, `[for v in [1]: v if okey]`, `okeys.nope`, `okeys[0]`, `onest.auth.nope`, `onest + 1`, `upper(okey)`, `okey ? 1 : 2`, `okey && true`,
	`f ? {auth = {(s) = 1}} : {auth = {zz = "x", q = [1]}}`, `f ? [{(s) = 1}] : [{b = "x", c = [1]}]`, `f ? {a = {b = {(s) = [1]}}} : {a = {b = {c = "x", d = 1}}}`, `true ? {x = okey} : {x = {q = [1], r = 2}}`,
	`true ? {x = [okey]} : {x = [{q = [1]}]}`, `f ? onest : {auth = {q = [1], r = "x"}}`, `f ? [onest.auth] : [{q = [1]}]`, `true ? {(s) = [1]} : {other = "x"}`,
	// attribute names that are ALMOST a secret attribute name (@NEAR1@ = the name of okey's
	// attribute without its last character, @NEAR2@ = one of okeys' names with one
	// character changed, @NEARS@ = the content of s without its last character)
	`okey.@NEAR1@`, `okeys.@NEAR2@`, `onest.auth.@NEAR1@`, `[for v in [okey]: v.@NEAR1@]`, `okey[*].@NEAR1@`, `{(s) = 1}.@NEARS@`, `{for k in [s]: k => 1}.@NEARS@`, `[okeys][0].@NEAR2@`, `okey["@NEAR1@"]`, `okeys["@NEAR2@"]`,
	// JSON syntax
	`JSON:{"${s}": 1, "${s}": 2}`, `JSON:{"${s}": 1, "${s}${t}": 2, "${s}x": 3}`, `JSON:{"a": "${okey.@NEAR1@}"}`, `JSON:{"${s}": "${s + 1}"}`, `JSON:["${lst[s]}", {"${n}": "${-s}"}]`,
	// a collection marked as a whole that holds the same secret twice (dl), and one
	// that holds the same secret number twice (dn)
	`{for v in dl: v => 1}`, `{for i, v in dl: "${v}" => i}`, `{for v in dl: upper(v) => 1}`, `{for v in dl: (dl[*])[0] => v}`, `{for v in dn: v => 1}`, `{for v in dn: "k${v}" => 1}`,
	`{for k, v in {a = dl[0], b = dl[1]}: v => k}`, `[for v in dl: {(v) = 1, (v) = 2}]`,
	// arguments that cannot convert to a parameter's collection type
	`takes_map({(s) = []})`, `takes_map(okey)`, `takes_map(okeys)`, `takes_map({a = okey})`, `takes_list(mp)`, `takes_list(okey)`, `takes_list({(s) = 1})`, `takes_list([okeys])`,
	`takes_obj(okey)`, `takes_obj({a = {(s) = 1}})`, `takes_obj(onest)`, `takes_map(lst)`, `takes_list(obj)`, `takes_map({(n) = [n]})`,
	// the same through an expanded argument list: the collection is marked as a whole
	`takes_map(lok...)`, `takes_list(lok...)`, `takes_obj(lok...)`, `takes_map([okey]...)`, `takes_map(tok...)`, `join("-", lok...)`,
	`"${s}" + 1`, `"${n}x" * 2`, `("${n}") + s`, `upper("${n}") - 1`, `{(upper(s)) = 1}["x"]`, `{"${s}" = 1}.nope`,
}

func c19DirectedCase(c *core.Case, src string) {
	r := c.Rng
	sc := gen.NewScope(r, gen.ValOpts{StrLevel: 0})
	cs := &canaries{}
	c19Scope(r, sc, cs)
	if _, ok := sc.Vars["nul"]; !ok {
		sc.Set("nul", cty.NullVal(cty.DynamicPseudoType))
	}
	{
		ds := newCanaryStr(r)
		cs.strs = append(cs.strs, ds)
		sc.Set("dl", cty.ListVal([]cty.Value{cty.StringVal(ds), cty.StringVal(ds), cty.StringVal("other")}).Mark(c19Mark))
		dd, dv := newCanaryNum(r)
		cs.nums = append(cs.nums, dd)
		sc.Set("dn", cty.TupleVal([]cty.Value{dv, dv}).Mark(c19Mark))
		if len(cs.keys) == 3 {
			// collections marked as a whole whose only element is an object with a secret attribute name
			sc.Set("lok", cty.ListVal([]cty.Value{cty.ObjectVal(map[string]cty.Value{cs.keys[0]: cty.ListVal([]cty.Value{cty.StringVal("v")})})}).Mark(c19Mark))
			sc.Set("tok", cty.TupleVal([]cty.Value{cty.ObjectVal(map[string]cty.Value{cs.keys[1]: cty.EmptyTupleVal})}).Mark(c19Mark))
		}
	}
	tpl := src
	if len(cs.keys) == 3 && len(cs.strs) > 0 {
		k2 := []byte(cs.keys[1])
		k2[len(k2)-3] = '_'
		src = strings.NewReplacer("@NEAR1@", cs.keys[0][:len(cs.keys[0])-1], "@NEAR2@", string(k2), "@NEARS@", cs.strs[0][:len(cs.strs[0])-1]).Replace(src)
	}
	var he hcl.Expression
	filename := "p.hcl"
	if strings.HasPrefix(src, "JSON:") {
		src = strings.TrimPrefix(src, "JSON:")
		filename = "p.json"
		je, pd := hcljson.ParseExpression([]byte(src), filename)
		if pd.HasErrors() {
			panic("C19 directed JSON program does not parse: " + src)
		}
		he = je
	} else {
		ne, pd := hclsyntax.ParseExpression([]byte(src), filename, hcl.InitialPos)
		if pd.HasErrors() {
			panic("C19 directed program does not parse: " + src)
		}
		he = ne
	}
	c.SetInput(src + "\nSCOPE: " + scopeStr(sc))
	ctx := evalCtx(sc)
	fns := map[string]function.Function{}
	for n, f := range ctx.Functions {
		fns[n] = f
	}
	for n, ty := range map[string]cty.Type{"takes_map": cty.Map(cty.String), "takes_list": cty.List(cty.Number), "takes_obj": cty.Object(map[string]cty.Type{"a": cty.String})} {
		fns[n] = function.New(&function.Spec{
			Params: []function.Parameter{{Name: "arg", Type: ty, AllowMarked: true, AllowNull: true, AllowUnknown: true}},
			Type:   function.StaticReturnType(cty.Bool),
			Impl:   func(a []cty.Value, r cty.Type) (cty.Value, error) { return cty.True, nil },
		})
	}
	ctx.Functions = fns
	_, d := he.Value(ctx)
	c.Evals(1)
	c.Count("route:directed")
	c19Bound = map[string]bool{"v": true, "k": true}
	if !c19Check(c, cs, d, []byte(src), filename, "evaluating "+src, func() string { return "directed:" + tpl }) {
		return
	}
	// the same expression decoded into Go values of several shapes
	for _, target := range []any{new(map[string]string), new([]int), new(string), new(map[string][]string), new(struct {
		A string `cty:"a"`
	})} {
		// (gocty does not accept marked values and panics when the conversion itself
		// succeeds; that is outside this property, only diagnostics are judged)
		var gd hcl.Diagnostics
		func() {
			defer func() {
				if p := recover(); p != nil {
					if !strings.Contains(fmt.Sprint(p), "marked") {
						panic(p)
					}
					c.Count("gohcl:panics-on-marked-value(gocty, not judged)")
				}
			}()
			gd = gohcl.DecodeExpression(he, ctx, target)
		}()
		c.Evals(1)
		if !c19Check(c, cs, gd, []byte(src), filename, fmt.Sprintf("gohcl.DecodeExpression of %s into %T", src, target), func() string { return fmt.Sprintf("directed-gohcl(%T):%s", target, tpl) }) {
			return
		}
		c.Count("route:directed-gohcl")
	}
	if len(d) > 0 {
		c.NonTrivial("directed:" + tpl)
	}
}

// ---------------------------------------------------------------- bodies

type c19BodyTpl struct {
	Name string
	Src  string
	Spec func() hcldec.Spec
	Dyn  bool
}

var c19BodyTpls = []c19BodyTpl{
	{Name: "attr-wrong-type", Src: "a = s\n", Spec: func() hcldec.Spec { return &hcldec.AttrSpec{Name: "a", Type: cty.Number} }},
	{Name: "attr-wrong-type-list", Src: "a = lst\n", Spec: func() hcldec.Spec { return &hcldec.AttrSpec{Name: "a", Type: cty.Map(cty.Number)} }},
	{Name: "attr-object-missing", Src: "a = {(s) = 1}\n", Spec: func() hcldec.Spec {
		return &hcldec.AttrSpec{Name: "a", Type: cty.Object(map[string]cty.Type{"x": cty.Number})}
	}},
	{Name: "blockmap-dup-dynamic-labels", Src: "dynamic \"blk\" {\n  for_each = [s, s]\n  labels = [blk.value]\n  content {\n    v = \"c\"\n  }\n}\n", Spec: blkSpecOf("map"), Dyn: true},
	{Name: "blockobject-dup-dynamic-labels", Src: "dynamic \"blk\" {\n  for_each = lst\n  labels = [\"same\"]\n  content {\n    v = blk.value\n  }\n}\n", Spec: blkSpecOf("object"), Dyn: true},
	{Name: "dyn-label-not-string", Src: "dynamic \"blk\" {\n  for_each = [1]\n  labels = [lst]\n  content {\n    v = \"c\"\n  }\n}\n", Spec: blkSpecOf("map"), Dyn: true},
	{Name: "dyn-label-null", Src: "dynamic \"blk\" {\n  for_each = lst\n  labels = [blk.value.nope]\n  content {\n    v = \"c\"\n  }\n}\n", Spec: blkSpecOf("map"), Dyn: true},
	{Name: "dyn-foreach-not-iterable", Src: "dynamic \"blk\" {\n  for_each = s\n  content {\n    v = \"c\"\n  }\n}\n", Spec: blkSpecOf("list"), Dyn: true},
	{Name: "dyn-content-error", Src: "dynamic \"blk\" {\n  for_each = lst\n  content {\n    v = blk.value.nope\n  }\n}\n", Spec: blkSpecOf("list"), Dyn: true},
	{Name: "dyn-content-error-elem-marked", Src: "dynamic \"blk\" {\n  for_each = mp\n  content {\n    v = blk.value + blk.key\n  }\n}\n", Spec: blkSpecOf("list"), Dyn: true},
	{Name: "dyn-content-wrong-type", Src: "dynamic \"blk\" {\n  for_each = lst\n  content {\n    v = [blk.value]\n  }\n}\n", Spec: blkSpecOf("list"), Dyn: true},
	{Name: "dyn-iterator-in-nested", Src: "dynamic \"blk\" {\n  for_each = mp\n  iterator = it\n  content {\n    v = it.key.x\n  }\n}\n", Spec: blkSpecOf("list"), Dyn: true},
	{Name: "attr-map-element-not-convertible", Src: "a = {(s) = \"notanumber\", plain = 1}\n", Spec: func() hcldec.Spec { return &hcldec.AttrSpec{Name: "a", Type: cty.Map(cty.Number)} }},
	{Name: "attr-map-element-wrong-kind", Src: "a = {(s) = {}}\n", Spec: func() hcldec.Spec { return &hcldec.AttrSpec{Name: "a", Type: cty.Map(cty.String)} }},
	{Name: "attr-nested-map-element-not-convertible", Src: "a = {inner = {(s) = \"x\"}}\n", Spec: func() hcldec.Spec {
		return &hcldec.AttrSpec{Name: "a", Type: cty.Object(map[string]cty.Type{"inner": cty.Map(cty.Bool)})}
	}},
	{Name: "attr-marked-object-variable-to-map", Src: "a = okey\n", Spec: func() hcldec.Spec { return &hcldec.AttrSpec{Name: "a", Type: cty.Map(cty.List(cty.String))} }},
	{Name: "blockattrs-map-element-not-convertible", Src: "blk {\n  x = {(s) = \"notanumber\"}\n}\n", Spec: func() hcldec.Spec { return &hcldec.BlockAttrsSpec{TypeName: "blk", ElementType: cty.Map(cty.Number)} }},
	{Name: "blockattrs-wrong-type", Src: "blk {\n  x = s\n  y = lst\n}\n", Spec: func() hcldec.Spec { return &hcldec.BlockAttrsSpec{TypeName: "blk", ElementType: cty.Number} }},
	// collections of blocks over an argument of no particular type whose values
	// do not unify: the error must not describe types built from secret keys
	{Name: "blocklist-inconsistent-types-secret-key", Src: "blk {\n  x = {(s) = \"str\"}\n}\nblk {\n  x = {(s) = [1]}\n}\n", Spec: func() hcldec.Spec {
		return &hcldec.BlockListSpec{TypeName: "blk", Nested: hcldec.ObjectSpec{"x": &hcldec.AttrSpec{Name: "x", Type: cty.DynamicPseudoType}}}
	}},
	{Name: "blockset-inconsistent-types-secret-key", Src: "blk {\n  x = {(s) = \"str\"}\n}\nblk {\n  x = {(s) = [1]}\n}\n", Spec: func() hcldec.Spec {
		return &hcldec.BlockSetSpec{TypeName: "blk", Nested: hcldec.ObjectSpec{"x": &hcldec.AttrSpec{Name: "x", Type: cty.DynamicPseudoType}}}
	}},
	{Name: "blocklist-inconsistent-types-secret-key-nested", Src: "blk {\n  x = [{(s) = true}]\n}\nblk {\n  x = \"plain\"\n}\nblk {\n  x = {(s) = {(s) = 1}}\n}\n", Spec: func() hcldec.Spec {
		return &hcldec.BlockListSpec{TypeName: "blk", Nested: hcldec.ObjectSpec{"x": &hcldec.AttrSpec{Name: "x", Type: cty.DynamicPseudoType}}}
	}},
	{Name: "blocklist-inconsistent-types-marked-object-variable", Src: "blk {\n  x = okey\n}\nblk {\n  x = [okey]\n}\n", Spec: func() hcldec.Spec {
		return &hcldec.BlockListSpec{TypeName: "blk", Nested: hcldec.ObjectSpec{"x": &hcldec.AttrSpec{Name: "x", Type: cty.DynamicPseudoType}}}
	}},
	{Name: "blocktuple-and-map-secret-key", Src: "blk \"a\" {\n  x = {(s) = \"str\"}\n}\nblk \"a\" {\n  x = {(s) = [1]}\n}\n", Spec: func() hcldec.Spec {
		return &hcldec.BlockObjectSpec{TypeName: "blk", LabelNames: []string{"n"}, Nested: hcldec.ObjectSpec{"x": &hcldec.AttrSpec{Name: "x", Type: cty.DynamicPseudoType}}}
	}},
	{Name: "dyn-blocklist-inconsistent-types", Src: "dynamic \"blk\" {\n  for_each = [1, 2]\n  content {\n    v = blk.value == 1 ? {(s) = \"str\"} : [s]\n  }\n}\n", Spec: func() hcldec.Spec {
		return &hcldec.BlockListSpec{TypeName: "blk", Nested: hcldec.ObjectSpec{"v": &hcldec.AttrSpec{Name: "v", Type: cty.DynamicPseudoType}}}
	}, Dyn: true},
	{Name: "validate", Src: "a = s\n", Spec: func() hcldec.Spec {
		return &hcldec.ValidateSpec{Wrapped: &hcldec.AttrSpec{Name: "a", Type: cty.String}, Func: func(v cty.Value) hcl.Diagnostics {
			return hcl.Diagnostics{{Severity: hcl.DiagError, Summary: "Rejected", Detail: "value rejected by the application"}}
		}}
	}},
}

func c19BodyCase(c *core.Case) {
	r := c.Rng
	tpl := gen.Pick(r, c19BodyTpls)
	sc := gen.NewScope(r, gen.ValOpts{StrLevel: 0})
	cs := &canaries{}
	c19Scope(r, sc, cs)
	f, pd := hclsyntax.ParseConfig([]byte(tpl.Src), "b.hcl", hcl.InitialPos)
	if pd.HasErrors() {
		panic("C19 body template does not parse: " + tpl.Name)
	}
	ctx := evalCtx(sc)
	body := f.Body
	if tpl.Dyn {
		body = dynblock.Expand(body, ctx)
	}
	c.SetInput(tpl.Src + "\nSCOPE: " + scopeStr(sc))
	_, d := hcldec.Decode(body, tpl.Spec(), ctx)
	c.Evals(1)
	c.Count("route:hcldec-body")
	c19Bound = map[string]bool{"blk": true, "it": true}
	if c19Check(c, cs, d, []byte(tpl.Src), "b.hcl", "decoding template "+tpl.Name, func() string { return "body:" + tpl.Name }) && len(d) > 0 {
		c.NonTrivial("body:" + tpl.Name + scopeStr(sc))
	}
}

// boundNames collects the iteration variable names an AST binds.
func boundNames(n *gen.Node) map[string]bool {
	out := map[string]bool{}
	var parts func(ps []gen.TPart)
	parts = func(ps []gen.TPart) {
		for _, p := range ps {
			if p.Kind == gen.TFor {
				out[p.ValVar] = true
				if p.KeyVar != "" {
					out[p.KeyVar] = true
				}
			}
			parts(p.Then)
			parts(p.Else)
		}
	}
	n.Walk(func(m *gen.Node) {
		if m.Kind == gen.KForTuple || m.Kind == gen.KForObject {
			out[m.ValVar] = true
			if m.KeyVar != "" {
				out[m.KeyVar] = true
			}
		}
		if m.Kind == gen.KTemplate {
			parts(m.Parts)
		}
	})
	return out
}

// renameMarkedKeys replaces the keys of a wholly marked map or object by k0, k1, …
func renameMarkedKeys(v cty.Value) cty.Value {
	if !v.IsMarked() {
		return v
	}
	u, marks := v.Unmark()
	if u.IsNull() || !u.IsKnown() || !(u.Type().IsMapType() || u.Type().IsObjectType()) || u.LengthInt() == 0 {
		return v
	}
	m := map[string]cty.Value{}
	i := 0
	for it := u.ElementIterator(); it.Next(); i++ {
		_, ev := it.Element()
		m[fmt.Sprintf("k%d", i)] = ev
	}
	if u.Type().IsMapType() {
		return cty.MapVal(m).WithMarks(marks)
	}
	return cty.ObjectVal(m).WithMarks(marks)
}

// markElementsToo gives every element of a marked collection the collection's marks.
func markElementsToo(v cty.Value) cty.Value {
	if !v.IsMarked() {
		return v
	}
	u, marks := v.Unmark()
	if u.IsNull() || !u.IsKnown() {
		return v
	}
	ty := u.Type()
	switch {
	case ty.IsListType() || ty.IsTupleType() || ty.IsSetType():
		if u.LengthInt() == 0 {
			return v
		}
		var elems []cty.Value
		for it := u.ElementIterator(); it.Next(); {
			_, ev := it.Element()
			elems = append(elems, ev.WithMarks(marks))
		}
		switch {
		case ty.IsListType():
			return cty.ListVal(elems).WithMarks(marks)
		case ty.IsSetType():
			// (a set cannot hold marked elements, cty moves their marks to the set; the
			// same elements as a list can)
			return cty.ListVal(elems).WithMarks(marks)
		}
		return cty.TupleVal(elems).WithMarks(marks)
	case ty.IsMapType() || ty.IsObjectType():
		if u.LengthInt() == 0 {
			return v
		}
		m := map[string]cty.Value{}
		for it := u.ElementIterator(); it.Next(); {
			kv, ev := it.Element()
			m[kv.AsString()] = ev.WithMarks(marks)
		}
		if ty.IsMapType() {
			return cty.MapVal(m).WithMarks(marks)
		}
		return cty.ObjectVal(m).WithMarks(marks)
	}
	return v
}
