package mon

import (
	"fmt"
	"sort"
	"strings"

	"github.com/hashicorp/hcl/v2"
	"github.com/hashicorp/hcl/v2/hcldec"
	"github.com/hashicorp/hcl/v2/hclsyntax"
	hcljson "github.com/hashicorp/hcl/v2/json"
	"github.com/zclconf/go-cty/cty"

	"verifharness/core"
	"verifharness/gen"
)

func init() {
	Register(&Spec{
		ID:        "C03",
		Technique: "runtime monitoring: cross-syntax differential monitor — one abstract configuration rendered natively and in 6 admissible JSON encodings, read through Body.Content and hcldec.Decode/PartialDecode under a generated specification",
		Rule: "each case is an abstract configuration (attributes with JSON-expressible literals or scope expressions written natively as expr and in JSON as \"${expr}\"; blocks with 0-3 labels, nested to depth 3), a generated hcldec spec tree (and the hcl.BodySchema it implies), optionally one perturbation (missing required item, extra attribute or block type, wrong literal type, duplicated/removed blocks), rendered natively (random layout) and in 6 JSON encodings (object / array-of-objects root, duplicate property names, per-type arrays, label levels as objects or arrays of single-property objects, arrays of bodies, // comment properties, property order permutations, whitespace/escape variation); attribute names, block sequences with labels, decoded values and error-ness must agree with the native reading; " +
			"non-trivial = the configuration has >= 1 labelled block and >= 3 items; distinct by native rendering + spec kinds",
		Assumptions: []string{"total block order is compared only for order-preserving encodings; per-type order always (json/spec.md cannot carry cross-type order when blocks are grouped by type)", "label-count mismatches are excluded (the JSON reading is schema-directed)"},
		Quick:       Plan{Batches: 16, PerBatch: 1500, MinNonTrivial: 8000},
		Thorough:    Plan{Batches: 64, PerBatch: 24000, MinNonTrivial: 200000},
		Case:        c03Case,
	})
}

type contentSig struct {
	attrs   []string
	blocks  []string            // total order
	perType map[string][]string // per-type order
	errs    bool
}

func readContent(hb hcl.Body, b *gen.Body, labelCounts map[string]int, path string, out *[]string) bool {
	schema := schemaFor(b, labelCounts)
	cont, d := hb.Content(schema)
	errs := d.HasErrors()
	var names []string
	for n := range cont.Attributes {
		names = append(names, n)
	}
	sort.Strings(names)
	*out = append(*out, fmt.Sprintf("%s attrs=%v errs=%v %v", path, names, errs, summaries(d)))
	perType := map[string][]string{}
	var total []string
	for _, blk := range cont.Blocks {
		sig := fmt.Sprintf("%s%q", blk.Type, nfcAll(blk.Labels))
		total = append(total, sig)
		perType[blk.Type] = append(perType[blk.Type], sig)
	}
	var tys []string
	for t := range perType {
		tys = append(tys, t)
	}
	sort.Strings(tys)
	for _, t := range tys {
		*out = append(*out, fmt.Sprintf("%s type %s: %v", path, t, perType[t]))
	}
	*out = append(*out, fmt.Sprintf("%s TOTAL %v", path, total))
	// recurse in per-type order so that both syntaxes visit the same blocks
	want := b.Blocks()
	for _, t := range tys {
		var wb []*gen.Block
		for _, x := range want {
			if x.Type == t {
				wb = append(wb, x)
			}
		}
		i := 0
		for _, blk := range cont.Blocks {
			if blk.Type != t {
				continue
			}
			if i < len(wb) {
				if readContent(blk.Body, wb[i].Body, labelCounts, fmt.Sprintf("%s/%s[%d]", path, t, i), out) {
					errs = true
				}
			}
			i++
		}
	}
	return errs
}

func stripTotals(lines []string) []string {
	var out []string
	for _, l := range lines {
		if !strings.Contains(l, " TOTAL ") {
			out = append(out, l)
		}
	}
	return out
}

func c03Case(c *core.Case) {
	r := c.Rng
	labelCounts := map[string]int{}
	body, want := litBodyLevel(r, 1, gen.BodyOpts{MaxDepth: 3, MaxItems: 4, MaxLabels: 4, LabelLevel: 1, FixedLabels: labelCounts,
		AttrNames: []string{"a", "b", "c", "name", "id", "count"}, BlockTypes: []string{"blk", "svc", "nested", "x-y"}})
	if gen.Chance(r, 0.3) {
		// sibling blocks that share all but their last label (nested label objects
		// with several properties at the innermost level)
		var bodies []*gen.Body
		body.Walk(func(b *gen.Body, d int) { bodies = append(bodies, b) })
		b := gen.Pick(r, bodies)
		for i, it := range b.Items {
			if it.Block != nil && len(it.Block.Labels) >= 1 {
				var extra []*gen.Item
				for k := 0; k < 1+r.Intn(2); k++ {
					ls := append([]string(nil), it.Block.Labels...)
					ls[len(ls)-1] = fmt.Sprintf("sib%d", k)
					nb, nw := litBodyLevel(r, 1, gen.BodyOpts{MaxDepth: 0, MaxItems: 2, AttrNames: []string{"a", "b"}, FixedLabels: labelCounts})
					for a, v := range nw {
						want[a] = v
					}
					extra = append(extra, &gen.Item{Block: &gen.Block{Type: it.Block.Type, Labels: ls, Body: nb}})
				}
				b.Items = append(b.Items[:i+1:i+1], append(extra, b.Items[i+1:]...)...)
				c.Count("sibling-label-blocks-added")
				break
			}
		}
	}
	sc := gen.NewScope(r, gen.ValOpts{StrLevel: 1})
	g := gen.NewG(r, sc, 0.05)
	g.StrLevel = 1
	// some attributes become scope expressions: natively `expr`, in JSON "${expr}"
	exprAttrs := map[*gen.Node]bool{}
	body.Walk(func(b *gen.Body, d int) {
		for _, a := range b.Attrs() {
			if gen.Chance(r, 0.25) {
				e := g.Expr(gen.WAny, 2)
				gen.FixTemplates(e)
				gen.FixDollar(e)
				if strings.Contains(gen.RenderExpr(e, &gen.Layout{}), "\n") {
					continue
				}
				a.Expr = e
				exprAttrs[e] = true
				want[a] = cty.DynamicVal // marks "no literal value"
			}
		}
	})
	sg := &specGen{r: r, labelCounts: labelCounts, want: map[*gen.Attr]cty.Value{}, kindsUsed: map[string]int{}}
	for a, v := range want {
		if v.IsKnown() {
			sg.want[a] = v
		} else {
			sg.want[a] = cty.NullVal(cty.DynamicPseudoType) // forces a dynamic attribute type
		}
	}
	spec := sg.bodySpec([]*gen.Body{body}, false, 0)
	pert := "none"
	if gen.Chance(r, 0.4) {
		pert = perturbBody(c, body, want, labelCounts)
		if pert == "wrong-label-count" {
			// the JSON reading is schema-directed: not "the same configuration" (DESIGN §4.8)
			c.Count("skipped:label-count-perturbation")
			return
		}
	}
	c.Count("perturbation:" + pert)
	exprJSON := func(n *gen.Node) string {
		if exprAttrs[n] {
			return gen.JSONQuote(nil, "${"+gen.RenderExpr(n, &gen.Layout{})+"}")
		}
		return litJSON(n)
	}
	ctx := evalCtx(sc)
	native := gen.RenderNative(body, gen.RandomFileLayout(r))
	nf, nd := hclsyntax.ParseConfig([]byte(native), "c.hcl", hcl.InitialPos)
	c.Evals(1)
	if nd.HasErrors() {
		c.Count("skipped:native-rendering-does-not-parse")
		return
	}
	var nsig []string
	nErr := readContent(nf.Body, body, labelCounts, "root", &nsig)
	nval, ndiags := hcldec.Decode(nf.Body, spec, ctx)
	npv, _, npd := hcldec.PartialDecode(nf.Body, spec, ctx)
	c.Evals(3)
	items, labelled := 0, 0
	body.Walk(func(b *gen.Body, d int) {
		items += len(b.Items)
		for _, blk := range b.Blocks() {
			if len(blk.Labels) > 0 {
				labelled++
			}
		}
	})
	for k := 0; k < 6; k++ {
		enc := &gen.JSONEnc{R: r, ExprJSON: exprJSON, LabelCounts: labelCounts, OrderPreserving: true, Comments: gen.Chance(r, 0.4)}
		js := enc.Body(body, true)
		c.SetInput(fmt.Sprintf("NATIVE:\n%s\nJSON:\n%s\nSPEC KINDS: %s\nPERTURBATION: %s\nSCOPE: %s", native, js, specKinds(sg), pert, scopeStr(sc)))
		jf, jd := hcljson.Parse([]byte(js), "c.json")
		c.Evals(1)
		if jd.HasErrors() {
			c.Violation("json-encoding-rejected", fmt.Sprintf("an admissible JSON encoding does not parse: %s\n%s", diagStr(jd), trunc(js, 600)), nil)
			return
		}
		var jsig []string
		jErr := readContent(jf.Body, body, labelCounts, "root", &jsig)
		a, b := nsig, jsig
		if !enc.OrderPreserving {
			a, b = stripTotals(nsig), stripTotals(jsig)
			c.Count("encoding:grouped-by-type")
		} else {
			c.Count("encoding:order-preserving")
		}
		if nErr != jErr || strings.Join(a, "\n") != strings.Join(b, "\n") {
			first := ""
			for i := 0; i < len(a) && i < len(b); i++ {
				if a[i] != b[i] {
					first = fmt.Sprintf("native: %s\n json:   %s", a[i], b[i])
					break
				}
			}
			if first == "" {
				first = fmt.Sprintf("native has %d content lines, json %d; native errs=%v json errs=%v", len(a), len(b), nErr, jErr)
			}
			c.Violation("content-differs", fmt.Sprintf("Body.Content of the JSON encoding differs from the native reading (order-preserving encoding: %v)\n %s", enc.OrderPreserving, first), nil)
			return
		}
		c.Count("content-agreed")
		// a sequence of calls: what one partial extraction consumed is gone for the
		// next call, in both syntaxes alike (a required argument is then missing)
		if attrs := body.Attrs(); len(attrs) > 0 {
			x := attrs[0].Name
			s1 := &hcl.BodySchema{Attributes: []hcl.AttributeSchema{{Name: x}}}
			s2 := schemaFor(body, labelCounts)
			for i := range s2.Attributes {
				if s2.Attributes[i].Name == x {
					s2.Attributes[i].Required = true
				}
			}
			seq := func(b hcl.Body) (bool, bool) {
				_, rem, d1 := b.PartialContent(s1)
				if d1.HasErrors() || rem == nil {
					return false, false
				}
				_, d2 := rem.Content(s2)
				return d2.HasErrors(), true
			}
			nE, nOK := seq(nf.Body)
			jE, jOK := seq(jf.Body)
			c.Evals(2)
			if nOK && jOK && nE != jE {
				c.Violation("call-sequence-differs/consumed-required-argument", fmt.Sprintf("PartialContent({%s}) then Content on the remainder with %q required: native errors=%v, JSON errors=%v", x, x, nE, jE), nil)
				return
			}
			c.Count("call-sequences-agreed")
		}
		jval, jdiags := hcldec.Decode(jf.Body, spec, ctx)
		c.Evals(1)
		if ndiags.HasErrors() != jdiags.HasErrors() {
			c.Violation("decode-error-ness-differs/"+pert, fmt.Sprintf("native decode errors=%v (%s), JSON decode errors=%v (%s)", ndiags.HasErrors(), trunc(diagStr(ndiags), 300), jdiags.HasErrors(), trunc(diagStr(jdiags), 300)), nil)
			return
		}
		if !ndiags.HasErrors() && !sameVal(nval, jval) {
			c.Violation("decoded-value-differs", fmt.Sprintf("decoded values differ\n native: %s\n json:   %s", valStr(nval), valStr(jval)), nil)
			return
		}
		jpv, _, jpd := hcldec.PartialDecode(jf.Body, spec, ctx)
		c.Evals(1)
		if npd.HasErrors() != jpd.HasErrors() || (!npd.HasErrors() && !sameVal(npv, jpv)) {
			c.Violation("partial-decode-differs", fmt.Sprintf("PartialDecode differs\n native: %s (errors=%v)\n json:   %s (errors=%v)", valStr(npv), npd.HasErrors(), valStr(jpv), jpd.HasErrors()), nil)
			return
		}
		c.Count("decodes-agreed")
	}
	for k, v := range sg.kindsUsed {
		c.CountN("spec:"+k, v)
	}
	if labelled >= 1 && items >= 3 {
		c.NonTrivial(native + specKinds(sg))
	}
	if c.WantSample() {
		enc := &gen.JSONEnc{R: r, ExprJSON: exprJSON, LabelCounts: labelCounts, OrderPreserving: true}
		c.Sample(map[string]any{"native": trunc(native, 250), "a_json_encoding": trunc(enc.Body(body, true), 250), "spec_kinds": specKinds(sg), "perturbation": pert})
	}
}
