package mon

import (
	"fmt"
	"math"
	"reflect"
	"sort"
	"strings"

	"github.com/hashicorp/hcl/v2"
	"github.com/hashicorp/hcl/v2/gohcl"
	"github.com/hashicorp/hcl/v2/hclsimple"
	"github.com/hashicorp/hcl/v2/hclsyntax"
	"github.com/hashicorp/hcl/v2/hclwrite"
	hcljson "github.com/hashicorp/hcl/v2/json"
	"github.com/zclconf/go-cty/cty"

	"verifharness/core"
	"verifharness/gen"
)

func init() {
	Register(&Spec{
		ID:        "C16",
		Technique: "runtime monitoring: encode/decode round-trip monitor over reflect-generated values of a tagged struct family (native route via gohcl.EncodeIntoBody/EncodeAsBlock, JSON twin rendered by the harness, hclsimple by file name) plus a panic monitor on perturbed contents",
		Rule: "each case fills one of 6 tagged struct types (attr, optional, block, label, pointer/slice/pointer-slice blocks, nested labelled blocks, maps, slices, pointers, all int kinds, float64, bool, cty.Value) by reflection from hostile string/number alphabets (map keys incl. keywords, non-identifiers, template introducers); route 1 encodes to native source and decodes it back, route 2 decodes the harness's JSON rendering of the same value, route 3 decodes mutated/perturbed contents under a panic guard; " +
			"non-trivial = the value has at least one non-empty collection or block; distinct by encoded source hash",
		Assumptions: []string{"nil and empty slices/maps are the same value; strings are compared after NFC normalisation (HCL strings are NFC by definition)", "gocty conversions between Go and cty values"},
		Quick:       Plan{Batches: 16, PerBatch: 1500, MinNonTrivial: 10000},
		Thorough:    Plan{Batches: 64, PerBatch: 24000, MinNonTrivial: 300000},
		Case:        c16Case,
	})
}

// ---------------------------------------------------------------- struct family

type C16Leaf struct {
	Name string            `hcl:"name,label"`
	V    int               `hcl:"v"`
	Tags map[string]string `hcl:"tags,optional"`
	On   *bool             `hcl:"on,optional"`
}

// C16Kind is a named string type (labels and attributes of named basic types).
type C16Kind string

type C16Two struct {
	Kind  C16Kind  `hcl:"kind,label"`
	Name  string   `hcl:"name,label"`
	Items []string `hcl:"items,optional"`
	Inner *C16Leaf `hcl:"inner,block"`
}

type C16Single struct {
	S string  `hcl:"s"`
	F float64 `hcl:"f,optional"`
}

type C16Scalars struct {
	Str  string   `hcl:"str"`
	Opt  string   `hcl:"opt,optional"`
	PStr *string  `hcl:"pstr,optional"`
	B    bool     `hcl:"b"`
	I    int      `hcl:"i"`
	I8   int8     `hcl:"i8"`
	I16  int16    `hcl:"i16"`
	I32  int32    `hcl:"i32"`
	I64  int64    `hcl:"i64"`
	U    uint     `hcl:"u"`
	U8   uint8    `hcl:"u8"`
	U32  uint32   `hcl:"u32"`
	U64  uint64   `hcl:"u64"`
	F    float64  `hcl:"f"`
	PI   *int     `hcl:"pi,optional"`
	PF   *float64 `hcl:"pf,optional"`
}

type C16Colls struct {
	Strs  []string           `hcl:"strs"`
	Ints  []int              `hcl:"ints,optional"`
	Bools []bool             `hcl:"bools,optional"`
	M     map[string]string  `hcl:"m"`
	MI    map[string]int     `hcl:"mi,optional"`
	MF    map[string]float64 `hcl:"for,optional"`
	LL    [][]string         `hcl:"ll,optional"`
	ML    map[string][]int   `hcl:"ml,optional"`
}

type C16Blocks struct {
	Title   string     `hcl:"title"`
	Single  C16Single  `hcl:"single,block"`
	PSingle *C16Single `hcl:"psingle,block"`
	Many    []C16Leaf  `hcl:"many,block"`
	PMany   []*C16Leaf `hcl:"pmany,block"`
	Twos    []C16Two   `hcl:"two,block"`
}

type C16Mixed struct {
	ID    string            `hcl:"id"`
	Val   cty.Value         `hcl:"val,optional"`
	Leafs []C16Leaf         `hcl:"leaf,block"`
	Env   map[string]string `hcl:"env,optional"`
	Deep  *C16Blocks        `hcl:"deep,block"`
}

type C16Labeled struct {
	Type  string   `hcl:"type,label"`
	Count int      `hcl:"count,optional"`
	Sub   []C16Two `hcl:"sub,block"`
}

var c16Types = []reflect.Type{
	reflect.TypeOf(C16Scalars{}), reflect.TypeOf(C16Colls{}), reflect.TypeOf(C16Blocks{}), reflect.TypeOf(C16Mixed{}), reflect.TypeOf(C16Labeled{}), reflect.TypeOf(C16Two{}),
}

// ---------------------------------------------------------------- filling by reflection

func c16String(c *core.Case) string {
	r := c.Rng
	if gen.Chance(r, 0.5) {
		return c11String(c)
	}
	return gen.Str(r, 2)
}

func c16Fill(c *core.Case, v reflect.Value, depth int) {
	r := c.Rng
	switch v.Kind() {
	case reflect.String:
		v.SetString(c16String(c))
	case reflect.Bool:
		v.SetBool(gen.Chance(r, 0.5))
	case reflect.Int, reflect.Int8, reflect.Int16, reflect.Int32, reflect.Int64:
		bits := v.Type().Bits()
		var x int64
		switch r.Intn(5) {
		case 0:
			x = 0
		case 1:
			x = int64(1)<<uint(bits-1) - 1
		case 2:
			x = -(int64(1) << uint(bits-1))
		default:
			x = r.Int63() >> uint(64-bits)
			if gen.Chance(r, 0.5) {
				x = -x
			}
		}
		v.SetInt(x)
	case reflect.Uint, reflect.Uint8, reflect.Uint16, reflect.Uint32, reflect.Uint64:
		bits := v.Type().Bits()
		var x uint64
		switch r.Intn(4) {
		case 0:
			x = 0
		case 1:
			x = math.MaxUint64 >> uint(64-bits)
		default:
			x = r.Uint64() >> uint(64-bits)
		}
		v.SetUint(x)
	case reflect.Float64, reflect.Float32:
		switch r.Intn(6) {
		case 0:
			v.SetFloat(0)
		case 1:
			v.SetFloat(gen.Pick(r, []float64{0.1, -0.1, 1e-300, 1.7976931348623157e308, -1.7976931348623157e308, 5e-324, 1e21, 123456789.123456789, 2.5, -3}))
		default:
			v.SetFloat(r.NormFloat64() * math.Pow(10, float64(r.Intn(40)-20)))
		}
	case reflect.Ptr:
		if gen.Chance(r, 0.35) || depth <= 0 && v.Type().Elem().Kind() == reflect.Struct {
			v.Set(reflect.Zero(v.Type()))
			return
		}
		p := reflect.New(v.Type().Elem())
		c16Fill(c, p.Elem(), depth-1)
		v.Set(p)
	case reflect.Slice:
		n := r.Intn(4)
		if v.Type().Elem().Kind() == reflect.Struct || v.Type().Elem().Kind() == reflect.Ptr {
			if depth <= 0 {
				n = 0
			}
		}
		if n == 0 {
			v.Set(reflect.Zero(v.Type()))
			return
		}
		s := reflect.MakeSlice(v.Type(), n, n)
		for i := 0; i < n; i++ {
			e := s.Index(i)
			if e.Kind() == reflect.Ptr {
				p := reflect.New(e.Type().Elem())
				c16Fill(c, p.Elem(), depth-1)
				e.Set(p)
			} else {
				c16Fill(c, e, depth-1)
			}
		}
		v.Set(s)
	case reflect.Map:
		n := r.Intn(4)
		if n == 0 {
			v.Set(reflect.Zero(v.Type()))
			return
		}
		m := reflect.MakeMap(v.Type())
		for i := 0; i < n; i++ {
			k := reflect.New(v.Type().Key()).Elem()
			if gen.Chance(r, 0.6) {
				k.SetString(gen.Pick(r, c11Keys))
			} else {
				k.SetString(c16String(c))
			}
			// keys are HCL strings: keep them NFC so that two keys cannot collide after normalisation
			k.SetString(nfc(k.String()))
			e := reflect.New(v.Type().Elem()).Elem()
			c16Fill(c, e, depth-1)
			if e.Kind() == reflect.Slice && e.IsNil() {
				e.Set(reflect.MakeSlice(e.Type(), 0, 0))
			}
			m.SetMapIndex(k, e)
		}
		v.Set(m)
	case reflect.Struct:
		if v.Type() == reflect.TypeOf(cty.Value{}) {
			switch r.Intn(4) {
			case 0:
				v.Set(reflect.ValueOf(cty.StringVal(c16String(c))))
			case 1:
				v.Set(reflect.ValueOf(c11Number(c)))
			case 2:
				v.Set(reflect.ValueOf(cty.BoolVal(gen.Chance(r, 0.5))))
			default:
				v.Set(reflect.ValueOf(cty.NilVal))
			}
			return
		}
		for i := 0; i < v.NumField(); i++ {
			c16Fill(c, v.Field(i), depth-1)
		}
	}
}

// canon turns a filled value into a canonical tree for comparison
// (nil == empty, NFC strings, pointers dereferenced).
func canon(v reflect.Value) any {
	switch v.Kind() {
	case reflect.String:
		return nfc(v.String())
	case reflect.Bool:
		return v.Bool()
	case reflect.Int, reflect.Int8, reflect.Int16, reflect.Int32, reflect.Int64:
		return v.Int()
	case reflect.Uint, reflect.Uint8, reflect.Uint16, reflect.Uint32, reflect.Uint64:
		return v.Uint()
	case reflect.Float32, reflect.Float64:
		return v.Float()
	case reflect.Ptr:
		if v.IsNil() {
			return nil
		}
		return canon(v.Elem())
	case reflect.Slice:
		if v.Len() == 0 {
			return nil
		}
		out := make([]any, v.Len())
		for i := range out {
			out[i] = canon(v.Index(i))
		}
		return out
	case reflect.Map:
		if v.Len() == 0 {
			return nil
		}
		out := map[string]any{}
		for _, k := range v.MapKeys() {
			out[nfc(k.String())] = canon(v.MapIndex(k))
		}
		return out
	case reflect.Struct:
		if v.Type() == reflect.TypeOf(cty.Value{}) {
			cv := v.Interface().(cty.Value)
			if cv == cty.NilVal || cv.IsNull() {
				return nil
			}
			return ctyBox{cv}
		}
		out := map[string]any{}
		for i := 0; i < v.NumField(); i++ {
			out[v.Type().Field(i).Name] = canon(v.Field(i))
		}
		return out
	}
	return fmt.Sprintf("?%s", v.Kind())
}

// ctyBox holds a cty.Value leaf; compared with cty's own equality.
type ctyBox struct{ v cty.Value }

func treeEqual(a, b any) bool {
	switch x := a.(type) {
	case ctyBox:
		y, ok := b.(ctyBox)
		return ok && x.v.RawEquals(y.v)
	case []any:
		y, ok := b.([]any)
		if !ok || len(x) != len(y) {
			return false
		}
		for i := range x {
			if !treeEqual(x[i], y[i]) {
				return false
			}
		}
		return true
	case map[string]any:
		y, ok := b.(map[string]any)
		if !ok || len(x) != len(y) {
			return false
		}
		for k, xv := range x {
			yv, ok := y[k]
			if !ok || !treeEqual(xv, yv) {
				return false
			}
		}
		return true
	}
	return reflect.DeepEqual(a, b)
}

func dropLeadingFEFF(s string) string {
	return strings.TrimLeft(s, "\ufeff")
}

// mapStrings applies f to every string leaf and map key of a canonical tree.
func mapStrings(x any, f func(string) string) any {
	switch t := x.(type) {
	case string:
		return f(t)
	case ctyBox:
		if t.v.Type() == cty.String && t.v.IsKnown() && !t.v.IsNull() {
			return ctyBox{cty.StringVal(f(t.v.AsString()))}
		}
		return t
	case []any:
		out := make([]any, len(t))
		for i := range t {
			out[i] = mapStrings(t[i], f)
		}
		return out
	case map[string]any:
		out := map[string]any{}
		for k, v := range t {
			out[f(k)] = mapStrings(v, f)
		}
		return out
	}
	return x
}

func anyString(x any, pred func(string) bool) bool {
	found := false
	mapStrings(x, func(s string) string {
		if pred(s) {
			found = true
		}
		return s
	})
	return found
}

func hasContent(x any) bool {
	switch t := x.(type) {
	case []any:
		return len(t) > 0
	case map[string]any:
		for k, v := range t {
			_ = k
			if hasContent(v) {
				return true
			}
		}
	}
	return false
}

// ---------------------------------------------------------------- JSON twin

type tagInfo struct {
	name string
	kind string // attr, optional, block, label
}

func parseTag(f reflect.StructField) tagInfo {
	t := f.Tag.Get("hcl")
	parts := strings.Split(t, ",")
	ti := tagInfo{name: parts[0], kind: "attr"}
	if len(parts) > 1 {
		ti.kind = parts[1]
	}
	return ti
}

// c16Escape says whether the JSON twin is for expression mode (non-nil
// EvalContext: strings are templates, so introducers are escaped) or for
// literal-only mode (nil context: strings are verbatim).
var c16Escape bool

func tplEsc(s string) string {
	if !c16Escape {
		return s
	}
	s = strings.ReplaceAll(s, "${", "$${")
	return strings.ReplaceAll(s, "%{", "%%{")
}

func jsonAttr(c *core.Case, v reflect.Value) (string, bool) {
	r := c.Rng
	switch v.Kind() {
	case reflect.String:
		return gen.JSONQuote(r, tplEsc(v.String())), true
	case reflect.Bool:
		return fmt.Sprint(v.Bool()), true
	case reflect.Int, reflect.Int8, reflect.Int16, reflect.Int32, reflect.Int64:
		return fmt.Sprint(v.Int()), true
	case reflect.Uint, reflect.Uint8, reflect.Uint16, reflect.Uint32, reflect.Uint64:
		return fmt.Sprint(v.Uint()), true
	case reflect.Float32, reflect.Float64:
		return fmt.Sprintf("%v", fmtFloat(v.Float())), true
	case reflect.Ptr:
		if v.IsNil() {
			return "", false
		}
		return jsonAttr(c, v.Elem())
	case reflect.Slice:
		if v.IsNil() {
			return "null", true
		}
		var parts []string
		for i := 0; i < v.Len(); i++ {
			s, _ := jsonAttr(c, v.Index(i))
			parts = append(parts, s)
		}
		return "[" + strings.Join(parts, ",") + "]", true
	case reflect.Map:
		if v.IsNil() {
			return "null", true
		}
		keys := v.MapKeys()
		sort.Slice(keys, func(i, j int) bool { return keys[i].String() < keys[j].String() })
		var parts []string
		for _, k := range keys {
			s, _ := jsonAttr(c, v.MapIndex(k))
			parts = append(parts, gen.JSONQuote(r, tplEsc(k.String()))+":"+s)
		}
		return "{" + strings.Join(parts, ",") + "}", true
	case reflect.Struct:
		if v.Type() == reflect.TypeOf(cty.Value{}) {
			cv := v.Interface().(cty.Value)
			if cv == cty.NilVal {
				return "", false
			}
			switch cv.Type() {
			case cty.String:
				return jsonAttr(c, reflect.ValueOf(cv.AsString()))
			case cty.Number:
				return cv.AsBigFloat().Text('f', -1), true
			case cty.Bool:
				return fmt.Sprint(cv.True()), true
			}
		}
	}
	return "null", true
}

func fmtFloat(f float64) string {
	return strings.TrimSuffix(fmt.Sprintf("%s", bigText(f)), "")
}

func bigText(f float64) string {
	return cty.NumberFloatVal(f).AsBigFloat().Text('f', -1)
}

// jsonBody renders a struct value as a JSON body per json/spec.md.
func jsonBody(c *core.Case, v reflect.Value) string {
	r := c.Rng
	var props []string
	for i := 0; i < v.NumField(); i++ {
		f := v.Type().Field(i)
		ti := parseTag(f)
		fv := v.Field(i)
		switch ti.kind {
		case "label":
			continue
		case "block":
			var blocks []reflect.Value
			ft := f.Type
			switch {
			case ft.Kind() == reflect.Slice:
				for k := 0; k < fv.Len(); k++ {
					e := fv.Index(k)
					if e.Kind() == reflect.Ptr {
						if e.IsNil() {
							continue
						}
						e = e.Elem()
					}
					blocks = append(blocks, e)
				}
			case ft.Kind() == reflect.Ptr:
				if !fv.IsNil() {
					blocks = append(blocks, fv.Elem())
				}
			default:
				blocks = append(blocks, fv)
			}
			if len(blocks) == 0 {
				continue
			}
			// render each block as nested label objects; several blocks as an array
			var rendered []string
			for _, b := range blocks {
				inner := jsonBody(c, b)
				var labels []string
				for k := 0; k < b.NumField(); k++ {
					if parseTag(b.Type().Field(k)).kind == "label" {
						labels = append(labels, b.Field(k).String())
					}
				}
				for k := len(labels) - 1; k >= 0; k-- {
					inner = "{" + gen.JSONQuote(r, labels[k]) + ":" + inner + "}"
				}
				rendered = append(rendered, inner)
			}
			if len(rendered) == 1 && gen.Chance(r, 0.5) {
				props = append(props, gen.JSONQuote(nil, ti.name)+":"+rendered[0])
			} else {
				props = append(props, gen.JSONQuote(nil, ti.name)+":["+strings.Join(rendered, ",")+"]")
			}
		default:
			s, ok := jsonAttr(c, fv)
			if !ok {
				continue
			}
			props = append(props, gen.JSONQuote(nil, ti.name)+":"+s)
		}
	}
	return "{" + strings.Join(props, ",") + "}"
}

// ---------------------------------------------------------------- the case

func c16Case(c *core.Case) {
	r := c.Rng
	ty := gen.Pick(r, c16Types)
	orig := reflect.New(ty)
	c16Fill(c, orig.Elem(), 3)
	hasLabels := false
	for i := 0; i < ty.NumField(); i++ {
		if parseTag(ty.Field(i)).kind == "label" {
			hasLabels = true
		}
	}
	want := canon(orig.Elem())

	// route 1: native
	f := hclwrite.NewEmptyFile()
	var src []byte
	if hasLabels {
		blk := gohcl.EncodeAsBlock(orig.Interface(), "root")
		f.Body().AppendBlock(blk)
		src = f.Bytes()
	} else {
		if gen.Chance(r, 0.25) {
			// the body already holds an earlier encoding of another value of the
			// type: EncodeIntoBody replaces the content of the body
			prev := reflect.New(ty)
			c16Fill(c, prev.Elem(), 2)
			gohcl.EncodeIntoBody(prev.Interface(), f.Body())
			c.Count("route:native-re-encode-into-used-body")
		}
		gohcl.EncodeIntoBody(orig.Interface(), f.Body())
		src = f.Bytes()
	}
	if gen.Chance(r, 0.5) {
		// another value is encoded and rendered before this one is decoded: the
		// source already obtained belongs to the caller
		keep := string(src)
		other := reflect.New(ty)
		c16Fill(c, other.Elem(), 2)
		of := hclwrite.NewEmptyFile()
		if hasLabels {
			of.Body().AppendBlock(gohcl.EncodeAsBlock(other.Interface(), "root"))
		} else {
			gohcl.EncodeIntoBody(other.Interface(), of.Body())
		}
		_ = of.Bytes()
		_ = hclwrite.Format([]byte("x   =   1\n"))
		c.Count("route:another-value-encoded-before-decoding")
		if string(src) != keep {
			c.SetInput(keep)
			c.Violation("native/encoded-source-changed-by-a-later-encoding", fmt.Sprintf("the bytes returned for the encoding of a %s value changed when another value was encoded and rendered afterwards\n was: %s\n now: %s", ty.Name(), trunc(keep, 300), trunc(string(src), 300)), nil)
			return
		}
	}
	c.SetInput(string(src))
	c.Evals(1)
	c.Count("type:" + ty.Name())
	decode := func(body hcl.Body, what string, ctx *hcl.EvalContext) bool {
		out := reflect.New(ty)
		var d hcl.Diagnostics
		if hasLabels {
			type wrap struct{}
			// decode through a wrapper: one block of type "root"
			wt := reflect.StructOf([]reflect.StructField{{Name: "Root", Type: reflect.SliceOf(ty), Tag: `hcl:"root,block"`}})
			w := reflect.New(wt)
			d = gohcl.DecodeBody(body, ctx, w.Interface())
			if !d.HasErrors() {
				sl := w.Elem().Field(0)
				if sl.Len() != 1 {
					c.Violation(what+"/block-count", fmt.Sprintf("%s: encoded one root block, decoded %d", what, sl.Len()), nil)
					return false
				}
				out.Elem().Set(sl.Index(0))
			}
		} else {
			d = gohcl.DecodeBody(body, ctx, out.Interface())
		}
		c.Evals(1)
		if d.HasErrors() && ctx != nil && strings.HasPrefix(what, "json") && anyString(want, func(s string) bool { return strings.HasPrefix(s, "\ufeff") }) {
			c.Violation("json-expression-mode/leading-U+FEFF-dropped", fmt.Sprintf("%s: decoding failed (%s) for a value with a string/key that begins with U+FEFF\nsource: %s", what, diagStr(d), trunc(string(c.Input()), 400)), nil)
			return false
		}
		if d.HasErrors() {
			c.Violation(what+"/decode-error/"+firstSummary(d), fmt.Sprintf("%s: decoding the encoding of a %s value failed: %s\nsource: %s", what, ty.Name(), diagStr(d), trunc(string(c.Input()), 600)), nil)
			return false
		}
		got := canon(out.Elem())
		if !treeEqual(want, got) && ctx != nil && strings.HasPrefix(what, "json") && treeEqual(mapStrings(want, dropLeadingFEFF), mapStrings(got, dropLeadingFEFF)) {
			c.Violation("json-expression-mode/leading-U+FEFF-dropped", fmt.Sprintf("%s: a string that begins with U+FEFF lost that character when the JSON string was evaluated as a template\nsource: %s", what, trunc(string(c.Input()), 400)), nil)
			return false
		}
		if !treeEqual(want, got) {
			c.Violation(what+"/value-differs/"+ty.Name(), fmt.Sprintf("%s: %s value did not survive the round trip\n want %s\n got  %s\nsource: %s", what, ty.Name(), trunc(fmt.Sprintf("%#v", want), 500), trunc(fmt.Sprintf("%#v", got), 500), trunc(string(c.Input()), 500)), nil)
			return false
		}
		return true
	}
	pf, pd := hclsyntax.ParseConfig(src, "enc.hcl", hcl.InitialPos)
	if pd.HasErrors() {
		c.Violation("native/encoded-source-does-not-parse", fmt.Sprintf("encoding of a %s value does not parse: %s\nsource: %s", ty.Name(), diagStr(pd), trunc(string(src), 600)), nil)
		return
	}
	if !decode(pf.Body, "native", nil) || !decode(pf.Body, "native", &hcl.EvalContext{}) {
		return
	}
	c.Count("native-round-trips")

	// route 2: JSON twin, in literal-only mode (nil context) and in expression mode
	var js string
	loneCR := anyString(want, func(s string) bool { return strings.Contains(strings.ReplaceAll(s, "\r\n", ""), "\r") })
	for _, esc := range []bool{false, true} {
		if esc && loneCR {
			// a lone CR in a bare template hides the template sequences after it
			// (recorded as a C01 finding); the twin cannot escape them reliably
			c.Count("json-expression-mode-skipped(lone CR)")
			continue
		}
		c16Escape = esc
		if hasLabels {
			inner := jsonBody(c, orig.Elem())
			var labels []string
			for k := 0; k < ty.NumField(); k++ {
				if parseTag(ty.Field(k)).kind == "label" {
					labels = append(labels, orig.Elem().Field(k).String())
				}
			}
			for k := len(labels) - 1; k >= 0; k-- {
				inner = "{" + gen.JSONQuote(r, labels[k]) + ":" + inner + "}"
			}
			js = "{\"root\":" + inner + "}"
		} else {
			js = jsonBody(c, orig.Elem())
		}
		c.SetInput(js)
		jf, jd := hcljson.Parse([]byte(js), "enc.json")
		if jd.HasErrors() {
			c.Violation("json/twin-does-not-parse", fmt.Sprintf("JSON rendering of a %s value does not parse: %s\n%s", ty.Name(), diagStr(jd), trunc(js, 600)), nil)
			return
		}
		var ctx *hcl.EvalContext
		what := "json-literal-mode"
		if esc {
			ctx = &hcl.EvalContext{}
			what = "json-expression-mode"
		}
		if !decode(jf.Body, what, ctx) {
			return
		}
	}
	c16Escape = false
	js = func() string {
		if hasLabels {
			return js
		}
		return jsonBody(c, orig.Elem())
	}()
	c.Count("json-round-trips")

	// hclsimple by file name (only for the label-free types)
	if !hasLabels && gen.Chance(r, 0.2) {
		for _, ext := range []string{".hcl", ".json"} {
			content := src
			if ext == ".json" {
				content = []byte(js)
			}
			out := reflect.New(ty)
			err := hclsimple.Decode("x"+ext, content, nil, out.Interface())
			c.Evals(1)
			if err != nil {
				c.Violation("hclsimple/decode-error", fmt.Sprintf("hclsimple.Decode(x%s) failed on the encoding of a %s value: %v", ext, ty.Name(), err), nil)
				return
			}
			if got := canon(out.Elem()); !treeEqual(want, got) {
				c.Violation("hclsimple/value-differs", fmt.Sprintf("hclsimple.Decode(x%s) changed a %s value", ext, ty.Name()), nil)
				return
			}
			c.Count("hclsimple-round-trips" + ext)
		}
	}

	// route 3: perturbed contents must produce diagnostics, never a panic
	for k := 0; k < 2; k++ {
		mut := gen.Mutate(r, src, 3)
		isJSON := false
		if gen.Chance(r, 0.3) {
			mut = gen.Mutate(r, []byte(js), 3)
			isJSON = true
		}
		if hugeExp.Match(mut) {
			continue
		}
		c.SetInput(string(mut))
		var body hcl.Body
		if isJSON {
			if jf, _ := hcljson.Parse(mut, "m.json"); jf != nil {
				body = jf.Body
			}
		} else {
			if mf, _ := hclsyntax.ParseConfig(mut, "m.hcl", hcl.InitialPos); mf != nil {
				body = mf.Body
			}
		}
		if body == nil {
			continue
		}
		for _, t2 := range []reflect.Type{ty, gen.Pick(r, c16Types)} {
			out := reflect.New(t2)
			_ = gohcl.DecodeBody(body, nil, out.Interface())
			c.Evals(1)
			c.Count("perturbed-decodes")
		}
	}
	if hasContent(want) {
		c.NonTrivial(string(src))
	}
	if c.WantSample() {
		c.Sample(map[string]any{"type": ty.Name(), "native": trunc(string(src), 300), "json": trunc(js, 200)})
	}
}

func firstSummary(d hcl.Diagnostics) string {
	for _, x := range d {
		if x.Severity == hcl.DiagError {
			return x.Summary
		}
	}
	return "none"
}
