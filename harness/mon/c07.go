package mon

import (
	"fmt"
	"math/rand"
	"sort"
	"strings"

	"github.com/hashicorp/hcl/v2"
	"github.com/hashicorp/hcl/v2/ext/dynblock"
	"github.com/hashicorp/hcl/v2/hcldec"
	"github.com/hashicorp/hcl/v2/hclsyntax"
	hcljson "github.com/hashicorp/hcl/v2/json"
	"github.com/zclconf/go-cty/cty"

	"verifharness/core"
	"verifharness/gen"
)

func init() {
	Register(&Spec{
		ID:        "C07",
		Technique: "runtime monitoring: scope-pruning / scope-perturbation relation — evaluation under the full scope, under only the reported root names, and with unreported variables changed must agree in value and diagnostics",
		Rule: "each case is a generated expression (native; JSON-syntax strings, arrays and object keys as templates), or a body decoded under an hcldec spec (incl. bodies with dynamic blocks, whose expansion and decoding variable sets are pruned independently); four-level nested dynamic blocks with static siblings after the nested block and globals named like the iterators; transform expressions without a context of their own; the scope holds decoy variables, including ones named like the iterator names the program binds; " +
			"non-trivial = the program reports >= 1 variable and binds or shadows >= 1 name, or reports >= 2 variables; distinct by program hash. A separate precision clause runs programs whose bound names are globally fresh and requires that none of them is reported.",
		Assumptions: []string{"diagnostics are compared by severity, summary, subject range and detail with the 'Did you mean' suggestion removed (the suggestion depends on which names are in scope by design)"},
		Quick:       Plan{Batches: 16, PerBatch: 2500, MinNonTrivial: 8000},
		Thorough:    Plan{Batches: 64, PerBatch: 60000, MinNonTrivial: 300000},
		Case:        c07Case,
	})
}

func diagCmpKey(d hcl.Diagnostics) string {
	var parts []string
	for _, x := range d {
		det := x.Detail
		if i := strings.Index(det, " Did you mean"); i >= 0 {
			det = det[:i]
		}
		rng := ""
		if x.Subject != nil {
			rng = x.Subject.String()
		}
		// (cty reports a panic inside a function implementation with a stack trace,
		// whose addresses differ from call to call)
		if i := strings.Index(det, "panic in function implementation"); i >= 0 {
			det = det[:i+len("panic in function implementation")]
		}
		parts = append(parts, fmt.Sprintf("%d|%s|%s|%s", x.Severity, x.Summary, rng, det))
	}
	// compared as a multiset: hcldec walks ObjectSpec maps in Go's random order
	sort.Strings(parts)
	return strings.Join(parts, "\n")
}

type c07Prog struct {
	src   string
	kind  string
	vars  func() []hcl.Traversal
	eval  func(ctx *hcl.EvalContext) (cty.Value, hcl.Diagnostics)
	bound map[string]bool
}

func rootsOf(ts []hcl.Traversal) []string {
	seen := map[string]bool{}
	var out []string
	for _, t := range ts {
		if len(t) == 0 {
			continue
		}
		n := t.RootName()
		if !seen[n] {
			seen[n] = true
			out = append(out, n)
		}
	}
	sort.Strings(out)
	return out
}

// c07Judge runs the three-scope relation. full is the complete variable map.
func c07Judge(c *core.Case, p *c07Prog, full map[string]cty.Value, perturb func(name string, v cty.Value) cty.Value) (string, string) {
	roots := rootsOf(p.vars())
	reported := map[string]bool{}
	for _, r := range roots {
		reported[r] = true
	}
	v0, d0 := p.eval(ctxWith(full))
	c.Evals(1)
	// pruned scope
	pruned := map[string]cty.Value{}
	for _, r := range roots {
		if v, ok := full[r]; ok {
			pruned[r] = v
		}
	}
	v1, d1 := p.eval(ctxWith(pruned))
	c.Evals(1)
	if !sameVal(v0, v1) || diagCmpKey(d0) != diagCmpKey(d1) {
		var missing []string
		for n := range full {
			if !reported[n] {
				missing = append(missing, n)
			}
		}
		sort.Strings(missing)
		return "pruned-scope-differs", fmt.Sprintf("reported roots %v; evaluating with only those gives a different outcome than with the full scope (unreported names in scope: %v)\n full:   %s | %s\n pruned: %s | %s", roots, missing, valStr(v0), trunc(diagStr(d0), 300), valStr(v1), trunc(diagStr(d1), 300))
	}
	// perturb every unreported variable
	pert := map[string]cty.Value{}
	changed := 0
	for n, v := range full {
		if reported[n] {
			pert[n] = v
		} else {
			pert[n] = perturb(n, v)
			changed++
		}
	}
	if changed > 0 {
		v2, d2 := p.eval(ctxWith(pert))
		c.Evals(1)
		if !sameVal(v0, v2) || diagCmpKey(d0) != diagCmpKey(d2) {
			return "unreported-variable-matters", fmt.Sprintf("reported roots %v; changing only unreported variables changes the outcome\n before: %s | %s\n after:  %s | %s", roots, valStr(v0), trunc(diagStr(d0), 300), valStr(v2), trunc(diagStr(d2), 300))
		}
	}
	return "", ""
}

func c07Case(c *core.Case) {
	r := c.Rng
	if c.Index%5 == 4 {
		if c.Index%25 == 24 {
			c07DynBodyCase(c)
			return
		}
		if c.Index%25 == 9 {
			c07DeepDynCase(c)
			return
		}
		if c.Index%25 == 14 {
			c07TryCase(c)
			return
		}
		c07BodyCase(c)
		return
	}
	sc := gen.NewScope(r, gen.ValOpts{StrLevel: 1})
	// decoys named like the iterator pool
	for _, n := range []string{"i", "k", "v", "x", "each", "item", "n", "s", "a"} {
		if gen.Chance(r, 0.5) {
			sc.Set(n, gen.AnyValue(r, 1, gen.ValOpts{StrLevel: 1}))
		}
	}
	g := gen.NewG(r, sc, 0.05)
	g.StrLevel = 1
	precision := c.Index%5 == 3
	if precision {
		g.FreshBound = true
	}
	ast := g.Expr(gen.WAny, 1+r.Intn(4))
	gen.FixTemplates(ast)
	gen.FixDollar(ast)
	native := gen.RenderExpr(ast, gen.RandomLayout(r))
	bound := boundNames(ast)
	var p *c07Prog
	if gen.Chance(r, 0.12) {
		// a JSON string that is a bare template (directives and interpolations as generated,
		// not wrapped into one interpolation), as a value, array element and object key
		t := g.Template(1 + r.Intn(3))
		gen.FixTemplates(t)
		gen.FixDollar(t)
		ast = t
		bound = boundNames(ast)
		q := gen.JSONQuote(nil, gen.RenderTemplateBody(t, &gen.Layout{}))
		text := gen.Pick(r, []string{q, "[" + q + "]", "{" + q + ": 1}", "{\"k\": " + q + "}"})
		je, d := hcljson.ParseExpression([]byte(text), "p.json")
		if d.HasErrors() {
			return
		}
		p = &c07Prog{src: text, kind: "json", vars: je.Variables, eval: je.Value, bound: bound}
	} else if gen.Chance(r, 0.2) && !strings.Contains(native, "\n") {
		tpl := "${" + native + "}"
		q := gen.JSONQuote(nil, tpl)
		text := gen.Pick(r, []string{q, "[" + q + ", 1]", "{" + q + ": 1}", "{\"k\": " + q + ", " + gen.JSONQuote(nil, "x"+tpl) + ": true}"})
		je, d := hcljson.ParseExpression([]byte(text), "p.json")
		if d.HasErrors() {
			return
		}
		p = &c07Prog{src: text, kind: "json", vars: je.Variables, eval: je.Value, bound: bound}
	} else {
		he, d := hclsyntax.ParseExpression([]byte(native), "p.hcl", hcl.InitialPos)
		if d.HasErrors() {
			return
		}
		p = &c07Prog{src: native, kind: "native", vars: he.Variables, eval: he.Value, bound: bound}
	}
	c.SetInput(p.src + "\nSCOPE: " + scopeStr(sc))
	c.Count("route:" + p.kind + "-expression")
	roots := rootsOf(p.vars())
	if precision {
		for _, n := range roots {
			if strings.HasPrefix(n, "it") && bound[n] {
				c.Violation("bound-name-reported/"+p.kind, fmt.Sprintf("program %s reports %q, which is only ever bound by a for expression / template for directive", trunc(p.src, 300), n), nil)
				return
			}
		}
		c.Count("precision-clause-checked")
	}
	full := map[string]cty.Value{}
	for k, v := range sc.Vars {
		full[k] = v
	}
	rule, msg := c07Judge(c, p, full, func(name string, v cty.Value) cty.Value {
		return gen.AnyValue(r, 1, gen.ValOpts{StrLevel: 1})
	})
	if rule != "" {
		small := gen.Shrink(ast, func(n *gen.Node) bool {
			s := gen.RenderExpr(n, &gen.Layout{})
			he, pd := hclsyntax.ParseExpression([]byte(s), "p.hcl", hcl.InitialPos)
			if pd.HasErrors() {
				return false
			}
			sp := &c07Prog{src: s, vars: he.Variables, eval: he.Value}
			r2, _ := c07Judge(c, sp, full, func(name string, v cty.Value) cty.Value { return cty.StringVal("perturbed") })
			return r2 != ""
		})
		c.Violation(rule+"/"+p.kind+"/"+small.Shape(), fmt.Sprintf("program %s (minimal sub-expression: %s)\n%s", trunc(p.src, 400), gen.RenderExpr(small, &gen.Layout{}), msg), nil)
		return
	}
	c.Count("three-scope-relation-held")
	if len(roots) >= 2 || (len(roots) >= 1 && len(bound) >= 1) {
		c.NonTrivial(p.src)
	}
	if c.WantSample() {
		c.Sample(map[string]any{"program": trunc(p.src, 200), "reported_roots": roots, "bound": len(bound)})
	}
}

// ---------------------------------------------------------------- bodies

// specForBody derives an hcldec spec that decodes every attribute and block of
// an abstract body (blocks without labels).
var c07Transforms = func() []hcl.Expression {
	var out []hcl.Expression
	for _, s := range []string{"[v]", "[v, n]", "{got = v, also = s}", "n", "v == null ? t : v"} {
		e, d := hclsyntax.ParseExpression([]byte(s), "transform.hcl", hcl.InitialPos)
		if d.HasErrors() {
			panic(d.Error())
		}
		out = append(out, e)
	}
	return out
}()

func specForBody(b *gen.Body) hcldec.Spec {
	obj := hcldec.ObjectSpec{}
	for _, a := range b.Attrs() {
		obj[a.Name] = &hcldec.AttrSpec{Name: a.Name, Type: cty.DynamicPseudoType}
	}
	byType := map[string][]*gen.Block{}
	var order []string
	for _, blk := range b.Blocks() {
		if _, ok := byType[blk.Type]; !ok {
			order = append(order, blk.Type)
		}
		byType[blk.Type] = append(byType[blk.Type], blk)
	}
	for _, ty := range order {
		// union of the nested bodies of all blocks of this type
		union := &gen.Body{}
		seenA := map[string]bool{}
		for _, blk := range byType[ty] {
			for _, it := range blk.Body.Items {
				if it.Attr != nil {
					if !seenA[it.Attr.Name] {
						seenA[it.Attr.Name] = true
						union.Items = append(union.Items, it)
					}
				} else {
					union.Items = append(union.Items, it)
				}
			}
		}
		name := "blk_" + ty
		if _, clash := obj[name]; clash {
			name = "blk__" + ty
		}
		obj[name] = &hcldec.BlockTupleSpec{TypeName: ty, Nested: specForBody(union)}
	}
	return obj
}

// c07DynBodyCase takes C18's generated bodies (nested dynamic blocks, every
// block spec kind incl. single blocks and block-attributes specs) through the
// three-scope relation.
func c07DynBodyCase(c *core.Case) {
	r := c.Rng
	if c.Index == 24 && c.Batch == 0 {
		// directed (adjudicated finding, known_findings.json): content read through a
		// block-attributes spec
		src := "dynamic \"tags\" {\n  for_each = coll\n  content {\n    a = foo\n  }\n}\n"
		f, _ := hclsyntax.ParseConfig([]byte(src), "d.hcl", hcl.InitialPos)
		spec := &hcldec.BlockAttrsSpec{TypeName: "tags", ElementType: cty.String}
		full := map[string]cty.Value{"coll": cty.ListVal([]cty.Value{cty.StringVal("x")}), "foo": cty.StringVal("FOO"), "other": cty.True}
		p := &c07Prog{src: src, kind: "dynblock-content-under-BlockAttrsSpec",
			vars: func() []hcl.Traversal {
				return append(dynblock.ExpandVariablesHCLDec(f.Body, spec), dynblock.VariablesHCLDec(f.Body, spec)...)
			},
			eval: func(ctx *hcl.EvalContext) (cty.Value, hcl.Diagnostics) {
				return hcldec.Decode(dynblock.Expand(f.Body, ctx), spec, ctx)
			}}
		c.SetInput(src + "decoded with BlockAttrsSpec{tags}")
		if rule, msg := c07Judge(c, p, full, func(name string, v cty.Value) cty.Value { return cty.StringVal("changed") }); rule != "" {
			c.Violation(rule+"/"+p.kind, msg, nil)
		}
		c.NonTrivial("directed:" + p.kind)
		return
	}
	c18NoAttrsKind = true
	dp := c18Build(r)
	c18NoAttrsKind = false
	if dp == nil {
		c.Count("skipped:no-dynamic-block-generated")
		return
	}
	f, pd := hclsyntax.ParseConfig([]byte(dp.dsrc), "d.hcl", hcl.InitialPos)
	if pd.HasErrors() {
		return
	}
	c.SetInput(dp.dsrc + "\nSCOPE: " + scopeStr(dp.sc))
	spec := dp.spec
	p := &c07Prog{src: dp.dsrc, kind: "generated-dynblock-body",
		vars: func() []hcl.Traversal {
			return append(dynblock.ExpandVariablesHCLDec(f.Body, spec), dynblock.VariablesHCLDec(f.Body, spec)...)
		},
		eval: func(ctx *hcl.EvalContext) (cty.Value, hcl.Diagnostics) {
			return hcldec.Decode(dynblock.Expand(f.Body, ctx), spec, ctx)
		}}
	full := map[string]cty.Value{}
	for k, v := range dp.sc.Vars {
		full[k] = v
	}
	c.Count("route:generated-dynblock-body")
	rule, msg := c07Judge(c, p, full, func(name string, v cty.Value) cty.Value { return gen.AnyValue(r, 1, gen.ValOpts{StrLevel: 1}) })
	if rule != "" {
		cls := rule + "/" + p.kind
		if strings.Contains(fmt.Sprint(dp.kinds), "attrs") {
			cls += "/with-block-attributes-spec"
		}
		c.Violation(cls, fmt.Sprintf("body\n%s\nspec block kinds %v\n%s", trunc(dp.dsrc, 600), dp.kinds, msg), nil)
		return
	}
	c.Count("three-scope-relation-held")
	if roots := rootsOf(p.vars()); len(roots) >= 2 {
		c.NonTrivial(dp.dsrc)
	}
}

// c07DeepDynCase: four levels of nested dynamic blocks with static siblings
// after the nested dynamic block at each level; references are drawn from
// globals that are named like the block types / default iterators, so whether a
// name is an iterator or a global depends on where it stands.
func c07DeepDynCase(c *core.Case) {
	r := c.Rng
	names := []string{"a", "b", "c", "d"}
	itObj := func(tag string) cty.Value {
		return cty.ObjectVal(map[string]cty.Value{"key": cty.StringVal("gk-" + tag), "value": cty.StringVal("gv-" + tag)})
	}
	full := map[string]cty.Value{"g": itObj("g"), "unused": cty.True}
	for _, n := range names {
		full[n] = itObj(n)
		var els []cty.Value
		for i := 1 + r.Intn(2); i > 0; i-- {
			els = append(els, cty.StringVal(fmt.Sprintf("%s%d", n, i)))
		}
		full["l"+n] = cty.ListVal(els)
	}
	ref := func() string {
		n := gen.Pick(r, []string{"a", "b", "c", "d", "g"})
		return gen.Pick(r, []string{n + ".value", n + ".key", "\"${" + n + ".key}/${" + gen.Pick(r, names) + ".value}\"", "[" + n + ".value, g.key]"})
	}
	var build func(level int, ind string) (string, hcldec.Spec)
	build = func(level int, ind string) (string, hcldec.Spec) {
		n := names[level]
		var sb strings.Builder
		coll := "l" + n
		if level > 0 && gen.Chance(r, 0.3) {
			coll = "[" + ref() + ", \"x\"]"
		}
		sb.WriteString(ind + "dynamic \"" + n + "\" {\n" + ind + "  for_each = " + coll + "\n" + ind + "  content {\n")
		obj := hcldec.ObjectSpec{}
		var parts hcldec.TupleSpec
		if gen.Chance(r, 0.5) {
			sb.WriteString(ind + "    pre = " + ref() + "\n")
			obj["pre"] = &hcldec.AttrSpec{Name: "pre", Type: cty.DynamicPseudoType}
		}
		if level+1 < len(names) {
			inner, ispec := build(level+1, ind+"    ")
			sb.WriteString(inner)
			parts = append(parts, ispec)
		}
		// static siblings that come after the nested dynamic block
		for _, sib := range []string{"e", "f"} {
			if gen.Chance(r, 0.6) {
				sb.WriteString(ind + "    " + sib + " {\n" + ind + "      v = " + ref() + "\n" + ind + "    }\n")
				parts = append(parts, &hcldec.BlockTupleSpec{TypeName: sib, Nested: hcldec.ObjectSpec{"v": &hcldec.AttrSpec{Name: "v", Type: cty.DynamicPseudoType}}})
			}
		}
		if gen.Chance(r, 0.4) {
			sb.WriteString(ind + "    post = " + ref() + "\n")
			obj["post"] = &hcldec.AttrSpec{Name: "post", Type: cty.DynamicPseudoType}
		}
		sb.WriteString(ind + "  }\n" + ind + "}\n")
		// the order in which the parts are decoded is the spec's: any permutation
		r.Shuffle(len(parts), func(i, j int) { parts[i], parts[j] = parts[j], parts[i] })
		obj["parts"] = parts
		return sb.String(), &hcldec.BlockTupleSpec{TypeName: n, Nested: obj}
	}
	src, spec := build(0, "")
	f, pd := hclsyntax.ParseConfig([]byte(src), "deep.hcl", hcl.InitialPos)
	if pd.HasErrors() {
		c.HarnessError("deep dynamic template does not parse: " + diagStr(pd))
		return
	}
	c.SetInput(src)
	p := &c07Prog{src: src, kind: "deep-dynblock-body",
		vars: func() []hcl.Traversal {
			return append(dynblock.ExpandVariablesHCLDec(f.Body, spec), dynblock.VariablesHCLDec(f.Body, spec)...)
		},
		eval: func(ctx *hcl.EvalContext) (cty.Value, hcl.Diagnostics) {
			return hcldec.Decode(dynblock.Expand(f.Body, ctx), spec, ctx)
		}}
	c.Count("route:deep-dynblock-body")
	rule, msg := c07Judge(c, p, full, func(name string, v cty.Value) cty.Value {
		if v.Type().IsObjectType() {
			return cty.ObjectVal(map[string]cty.Value{"key": cty.StringVal("changed-key"), "value": cty.StringVal("changed-value")})
		}
		return cty.StringVal("changed")
	})
	if rule != "" {
		c.Violation(rule+"/"+p.kind, fmt.Sprintf("body\n%s\n%s", trunc(src, 900), msg), nil)
		return
	}
	c.Count("three-scope-relation-held")
	c.NonTrivial(src)
}

func c07BodyCase(c *core.Case) {
	r := c.Rng
	sc := gen.NewScope(r, gen.ValOpts{StrLevel: 1})
	for _, n := range []string{"i", "k", "v", "x", "each", "item"} {
		if gen.Chance(r, 0.5) {
			sc.Set(n, gen.AnyValue(r, 1, gen.ValOpts{StrLevel: 1}))
		}
	}
	g := gen.NewG(r, sc, 0.05)
	g.StrLevel = 1
	body := gen.GenBody(r, gen.BodyOpts{MaxDepth: 2, MaxItems: 4, MaxLabels: 0, AttrNames: []string{"a", "b", "c", "name", "id"}, BlockTypes: []string{"blk", "svc", "nested"}, ExprFn: func(rr *rand.Rand) *gen.Node {
		e := g.Expr(gen.WAny, 1+rr.Intn(3))
		gen.FixTemplates(e)
		gen.FixDollar(e)
		return e
	}}, 0)
	spec := specForBody(body)
	// item limits: a body that exceeds them is an error, but the dependency
	// statement covers erroneous decodes too (same value, same diagnostics)
	var limit func(s hcldec.Spec)
	limit = func(s hcldec.Spec) {
		if o, ok := s.(hcldec.ObjectSpec); ok {
			for _, sub := range o {
				if bt, ok := sub.(*hcldec.BlockTupleSpec); ok {
					switch r.Intn(6) {
					case 0:
						bt.MaxItems = 1
					case 1:
						bt.MinItems = 3
					}
					limit(bt.Nested)
				}
			}
		}
	}
	limit(spec)
	if gen.Chance(r, 0.15) {
		// a schema violation at some level (a required argument that is not
		// there): decoding still evaluates everything else, so everything else
		// is still a dependency
		var objs []hcldec.ObjectSpec
		var collect func(s hcldec.Spec)
		collect = func(s hcldec.Spec) {
			if o, ok := s.(hcldec.ObjectSpec); ok {
				objs = append(objs, o)
				for _, sub := range o {
					if bt, ok := sub.(*hcldec.BlockTupleSpec); ok {
						collect(bt.Nested)
					}
				}
			}
		}
		collect(spec)
		gen.Pick(r, objs)["zz_required"] = &hcldec.AttrSpec{Name: "zz_required", Type: cty.String, Required: true}
		c.Count("spec:with-missing-required-argument")
	}
	if gen.Chance(r, 0.15) {
		// a transform expression belongs to the specification: what it may see is its
		// own context (none here) and its variable, never the decoding scope
		var objs []hcldec.ObjectSpec
		var collect func(s hcldec.Spec)
		collect = func(s hcldec.Spec) {
			if o, ok := s.(hcldec.ObjectSpec); ok {
				objs = append(objs, o)
				for _, sub := range o {
					if bt, ok := sub.(*hcldec.BlockTupleSpec); ok {
						collect(bt.Nested)
					}
				}
			}
		}
		collect(spec)
		o := gen.Pick(r, objs)
		for _, k := range gen.SortedKeys(o) {
			if as, ok := o[k].(*hcldec.AttrSpec); ok {
				o[k] = &hcldec.TransformExprSpec{Wrapped: as, Expr: gen.Pick(r, c07Transforms), VarName: "v"}
				c.Count("spec:transform-expression-without-context")
				break
			}
		}
	}
	src := gen.RenderNative(body, gen.CanonicalFileLayout())
	useDyn := gen.Chance(r, 0.4)
	if useDyn {
		// append a dynamic block whose for_each / labels / content use scope variables and its iterator
		iter := gen.Pick(r, []string{"", "  iterator = it\n", "  iterator = each\n"})
		iname := "dyn"
		if strings.Contains(iter, "it\n") {
			iname = "it"
		} else if strings.Contains(iter, "each") {
			iname = "each"
		}
		// (for_each is evaluated in the enclosing scope: a root variable there may
		// be named like the block's own iterator)
		coll := gen.Pick(r, []string{"lst", "mp", "tup", "st", "[1, 2]", "{a = n}", "obj", iname, iname + ".c", "[" + iname + ", 1]"})
		if strings.HasPrefix(coll, iname) || strings.HasPrefix(coll, "["+iname) {
			sc.Set(iname, cty.ObjectVal(map[string]cty.Value{"c": cty.ListVal([]cty.Value{cty.StringVal("p"), cty.StringVal("q")}), "d": cty.NumberIntVal(1)}))
		}
		inner := gen.Pick(r, []string{iname + ".value", iname + ".key", "[" + iname + ".key, n]", "s", "\"${" + iname + ".key}-${t}\"", "each", "dyn"})
		src += "dynamic \"dyn\" {\n  for_each = " + coll + "\n" + iter + "  content {\n    v = " + inner + "\n  }\n}\n"
		spec.(hcldec.ObjectSpec)["dyns"] = &hcldec.BlockTupleSpec{TypeName: "dyn", Nested: hcldec.ObjectSpec{"v": &hcldec.AttrSpec{Name: "v", Type: cty.DynamicPseudoType}}}
	}
	f, pd := hclsyntax.ParseConfig([]byte(src), "b.hcl", hcl.InitialPos)
	if pd.HasErrors() {
		c.Count("skipped:body-does-not-parse")
		return
	}
	c.SetInput(src + "\nSCOPE: " + scopeStr(sc))
	var p *c07Prog
	if useDyn {
		// expansion and decoding have separate variable sets; prune each independently
		p = &c07Prog{src: src, kind: "dynblock-body",
			vars: func() []hcl.Traversal {
				return append(dynblock.ExpandVariablesHCLDec(f.Body, spec), dynblock.VariablesHCLDec(f.Body, spec)...)
			},
			eval: func(ctx *hcl.EvalContext) (cty.Value, hcl.Diagnostics) {
				return hcldec.Decode(dynblock.Expand(f.Body, ctx), spec, ctx)
			}}
		c.Count("route:dynblock-body")
		// independent pruning: expansion only needs ExpandVariables
		full := map[string]cty.Value{}
		for k, v := range sc.Vars {
			full[k] = v
		}
		expRoots := rootsOf(dynblock.ExpandVariablesHCLDec(f.Body, spec))
		prunedExp := map[string]cty.Value{}
		for _, n := range expRoots {
			if v, ok := full[n]; ok {
				prunedExp[n] = v
			}
		}
		v0, d0 := hcldec.Decode(dynblock.Expand(f.Body, ctxWith(full)), spec, ctxWith(full))
		v1, d1 := hcldec.Decode(dynblock.Expand(f.Body, ctxWith(prunedExp)), spec, ctxWith(full))
		c.Evals(2)
		if !sameVal(v0, v1) || diagCmpKey(d0) != diagCmpKey(d1) {
			c.Violation("expand-variables-insufficient", fmt.Sprintf("expanding with only the variables ExpandVariablesHCLDec reports (%v) changes the decoded result\n full:   %s | %s\n pruned: %s | %s", expRoots, valStr(v0), trunc(diagStr(d0), 300), valStr(v1), trunc(diagStr(d1), 300)), nil)
			return
		}
	} else {
		p = &c07Prog{src: src, kind: "hcldec-body",
			vars: func() []hcl.Traversal { return hcldec.Variables(f.Body, spec) },
			eval: func(ctx *hcl.EvalContext) (cty.Value, hcl.Diagnostics) { return hcldec.Decode(f.Body, spec, ctx) }}
		c.Count("route:hcldec-body")
	}
	full := map[string]cty.Value{}
	for k, v := range sc.Vars {
		full[k] = v
	}
	rule, msg := c07Judge(c, p, full, func(name string, v cty.Value) cty.Value { return gen.AnyValue(r, 1, gen.ValOpts{StrLevel: 1}) })
	if rule != "" {
		c.Violation(rule+"/"+p.kind, fmt.Sprintf("body\n%s\n%s", trunc(src, 500), msg), nil)
		return
	}
	c.Count("three-scope-relation-held")
	if roots := rootsOf(p.vars()); len(roots) >= 2 {
		c.NonTrivial(src)
	}
}

// ---------------------------------------------------------------- unevaluated arguments

// c07TryPrograms call try/can (ext/tryfunc: their arguments are handed over as
// expressions, with the scope they were written in) inside every binder, with
// arguments that use the bound names; the scope holds globals of those names.
var c07TryPrograms = []string{
	`[for v in COLL : try(v.name, "none")]`,
	`[for v in COLL : can(v.name)]`,
	`{for k, v in COLL : k => try(v[0], v.id, k)...}`,
	`[for i, x in COLL : try(x.id + i, "${i}")]`,
	`"%{ for item in COLL }${try(item.id, item, "?")};%{ endfor }"`,
	`"%{ for k, each in COLL }${can(each.name) ? k : "-"}%{ endfor }"`,
	`[for x in COLL : [for y in [x] : try(y.name, x.id, "in")]]`,
	`[for v in COLL : try(nosuch(v), v)]`,
	`try(COLL[0].name, COLL.name, "outer")`,
	`can(COLL[*].id)`,
	`[for v in COLL : v if can(v.id)]`,
	`{for k, v in COLL : try(v.name, "k${k}") => k...}`,
	`COLL[*].id == try([for v in COLL : v.id], null)`,
	`[for n in COLL : try(n.sub.name, n.name, s)]`,
	`[for a in COLL : can(a.tags[0]) ? a.tags[0] : t]`,
}

func c07TryCase(c *core.Case) {
	r := c.Rng
	sc := gen.NewScope(r, gen.ValOpts{StrLevel: 1})
	sc.Set("deep", gen.Value(r, cty.List(cty.Object(map[string]cty.Type{"id": cty.Number, "tags": cty.List(cty.String), "sub": cty.Object(map[string]cty.Type{"name": cty.String})})), gen.ValOpts{StrLevel: 1}))
	sc.Set("objs", cty.TupleVal([]cty.Value{cty.ObjectVal(map[string]cty.Value{"name": cty.StringVal("a"), "id": cty.NumberIntVal(1)}), cty.ObjectVal(map[string]cty.Value{"id": cty.NumberIntVal(2)}), cty.StringVal("plain")}))
	for _, n := range []string{"i", "k", "v", "x", "y", "each", "item", "n", "a"} {
		if gen.Chance(r, 0.6) {
			sc.Set(n, gen.Pick(r, []cty.Value{cty.ObjectVal(map[string]cty.Value{"name": cty.StringVal("GLOBAL"), "id": cty.NumberIntVal(99), "sub": cty.ObjectVal(map[string]cty.Value{"name": cty.StringVal("GLOBAL-SUB")}), "tags": cty.ListVal([]cty.Value{cty.StringVal("GLOBAL-TAG")})}), cty.StringVal("global"), cty.ListVal([]cty.Value{cty.StringVal("g0")})}))
		}
	}
	src := strings.ReplaceAll(gen.Pick(r, c07TryPrograms), "COLL", gen.Pick(r, []string{"deep", "objs", "lst", "mp", "tup", "obj", "st"}))
	he, d := hclsyntax.ParseExpression([]byte(src), "p.hcl", hcl.InitialPos)
	if d.HasErrors() {
		panic("C07 directed program does not parse: " + src + ": " + d.Error())
	}
	p := &c07Prog{src: src, kind: "native", vars: he.Variables, eval: he.Value}
	c.SetInput(src + "\nSCOPE: " + scopeStr(sc))
	c.Count("route:unevaluated-argument-programs")
	full := map[string]cty.Value{}
	for k, v := range sc.Vars {
		full[k] = v
	}
	rule, msg := c07Judge(c, p, full, func(name string, v cty.Value) cty.Value { return gen.AnyValue(r, 1, gen.ValOpts{StrLevel: 1}) })
	if rule != "" {
		c.Violation(rule+"/unevaluated-argument/"+strings.SplitN(src, "(", 2)[0], fmt.Sprintf("program %s\n%s", src, msg), nil)
		return
	}
	c.Count("three-scope-relation-held")
	c.NonTrivial(src + scopeStr(sc))
}
