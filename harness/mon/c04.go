package mon

import (
	"fmt"
	"sort"
	"strings"

	"github.com/hashicorp/hcl/v2"
	"github.com/hashicorp/hcl/v2/ext/dynblock"
	"github.com/hashicorp/hcl/v2/hclsyntax"
	hcljson "github.com/hashicorp/hcl/v2/json"
	"github.com/zclconf/go-cty/cty"

	"verifharness/core"
	"verifharness/gen"
)

func init() {
	Register(&Spec{
		ID:        "C04",
		Technique: "runtime monitoring: accounting-model monitor over schema application (Content, PartialContent chains, JustAttributes) on four hcl.Body implementations of one logical content, plus cross-implementation agreement",
		Rule: "each case is one logical body (attributes and blocks with 0-2 labels, a name may be used by both an attribute and a block type) realised as a native body, a JSON body, a merged body (hcl.MergeBodies over 2-4 files of mixed syntax, incl. empty files and merges of merges) , a dynamic-block-expanded body and the placeholder body of a dynamic block whose for_each is unknown; the caller's schema slices (sub-slices with spare capacity) are compared before and after, and a remainder is extracted from twice; a generated schema (subset of the names in use plus unused names, required flags, label-count perturbations) is applied in one step and as a chain of k=2..4 partial steps over a random disjoint split; every matching item must be returned exactly once in per-type order, non-matching items must be errors (Content) or survive unmodified in the remainder (PartialContent), k steps must equal one step with the union schema, JustAttributes of remainders must see only what remains, and the implementations must agree; " +
			"non-trivial = the body has >= 1 block and >= 3 items and the schema matches some but not all items; distinct by logical content + schema",
		Assumptions: []string{"the number of 'unsupported' diagnostics is not compared across syntaxes (JSON reports per property, native per item); error-ness and the diagnostic multiset within one implementation are"},
		Quick:       Plan{Batches: 16, PerBatch: 4000, MinNonTrivial: 20000},
		Thorough:    Plan{Batches: 64, PerBatch: 80000, MinNonTrivial: 150000},
		Case:        c04Case,
	})
}

type c04Impl struct {
	name  string
	body  hcl.Body
	order []*gen.Item // items in the order this implementation presents them
}

func itemSig(it *gen.Item) string {
	if it.Attr != nil {
		return "A:" + it.Attr.Name
	}
	return fmt.Sprintf("B:%s%q", it.Block.Type, nfcAll(it.Block.Labels))
}

// contentSigOf renders a BodyContent as attribute names + per-type block sequences.
func contentSigOf(c *hcl.BodyContent) (map[string]bool, map[string][]string) {
	attrs := map[string]bool{}
	for n := range c.Attributes {
		attrs[n] = true
	}
	blocks := map[string][]string{}
	for _, b := range c.Blocks {
		blocks[b.Type] = append(blocks[b.Type], fmt.Sprintf("%q", nfcAll(b.Labels)))
	}
	return attrs, blocks
}

func sigString(attrs map[string]bool, blocks map[string][]string) string {
	var as []string
	for a := range attrs {
		as = append(as, a)
	}
	sort.Strings(as)
	var ts []string
	for t := range blocks {
		ts = append(ts, t)
	}
	sort.Strings(ts)
	var sb strings.Builder
	fmt.Fprintf(&sb, "attrs=%v", as)
	for _, t := range ts {
		fmt.Fprintf(&sb, " %s=%v", t, blocks[t])
	}
	return sb.String()
}

func diagMultiset(d hcl.Diagnostics) string {
	var parts []string
	for _, x := range d {
		det := x.Detail
		if i := strings.Index(det, " Did you mean"); i >= 0 {
			det = det[:i]
		}
		parts = append(parts, fmt.Sprintf("%d|%s|%s", x.Severity, x.Summary, det))
	}
	sort.Strings(parts)
	return strings.Join(parts, "\n")
}

func unionSchema(parts []*hcl.BodySchema) *hcl.BodySchema {
	u := &hcl.BodySchema{}
	for _, p := range parts {
		u.Attributes = append(u.Attributes, p.Attributes...)
		u.Blocks = append(u.Blocks, p.Blocks...)
	}
	return u
}

func c04Case(c *core.Case) {
	r := c.Rng
	// ---- logical content
	labelCounts := map[string]int{}
	names := []string{"a", "b", "c", "name", "id", "svc", "blk"}
	logical, _ := litBodyLevel(r, 1, gen.BodyOpts{MaxDepth: 1, MaxItems: 6, MaxLabels: 4, LabelLevel: 0, FixedLabels: labelCounts,
		AttrNames: names, BlockTypes: []string{"svc", "blk", "nested", "a", "name"}})
	if gen.Chance(r, 0.3) {
		// sibling blocks whose label sequences share a prefix (in JSON they share
		// the objects of that prefix)
		for _, blk := range logical.Blocks() {
			if len(blk.Labels) >= 1 {
				for n := 1 + r.Intn(2); n > 0; n-- {
					labels := append([]string(nil), blk.Labels...)
					labels[len(labels)-1] = labels[len(labels)-1] + fmt.Sprint(n)
					nb, _ := litBodyLevel(r, 1, gen.BodyOpts{MaxDepth: 0, MaxItems: 2, AttrNames: []string{"a", "b"}, FixedLabels: labelCounts})
					logical.Items = append(logical.Items, &gen.Item{Block: &gen.Block{Type: blk.Type, Labels: labels, Body: nb}})
				}
				break
			}
		}
	}
	items := logical.Items
	if len(items) == 0 {
		return
	}
	// ---- schema (union) and its split
	attrSet, blockSet := map[string]bool{}, map[string]bool{}
	for _, it := range items {
		if it.Attr != nil {
			attrSet[it.Attr.Name] = true
		} else {
			blockSet[it.Block.Type] = true
		}
	}
	union := &hcl.BodySchema{}
	labelMismatch := false
	for _, n := range append(gen.SortedKeys(attrSet), "unused1", "unused2") {
		if gen.Chance(r, 0.6) {
			union.Attributes = append(union.Attributes, hcl.AttributeSchema{Name: n, Required: gen.Chance(r, 0.25)})
		}
	}
	for _, t := range append(gen.SortedKeys(blockSet), "unusedblk") {
		if gen.Chance(r, 0.6) {
			nl := labelCounts[t]
			if gen.Chance(r, 0.1) {
				nl = (nl + 1) % 3
				if blockSet[t] && nl != labelCounts[t] {
					labelMismatch = true
				}
			}
			union.Blocks = append(union.Blocks, hcl.BlockHeaderSchema{Type: t, LabelNames: labelNames(nl)})
		}
	}
	k := 1 + r.Intn(4)
	parts := make([]*hcl.BodySchema, k)
	for i := range parts {
		parts[i] = &hcl.BodySchema{}
	}
	if gen.Chance(r, 0.4) {
		// the split as an application would write it: consecutive sub-slices of one
		// list, so that every part's slice has the following parts in its spare
		// capacity (a callee that appends to it in place damages the next part)
		allA := append([]hcl.AttributeSchema(nil), union.Attributes...)
		allB := append([]hcl.BlockHeaderSchema(nil), union.Blocks...)
		r.Shuffle(len(allA), func(i, j int) { allA[i], allA[j] = allA[j], allA[i] })
		r.Shuffle(len(allB), func(i, j int) { allB[i], allB[j] = allB[j], allB[i] })
		cutA, cutB := 0, 0
		for i := range parts {
			na, nb := len(allA)-cutA, len(allB)-cutB
			if i < k-1 {
				na, nb = r.Intn(na+1), r.Intn(nb+1)
			}
			parts[i].Attributes = allA[cutA : cutA+na]
			parts[i].Blocks = allB[cutB : cutB+nb]
			cutA, cutB = cutA+na, cutB+nb
		}
	} else {
		for _, a := range union.Attributes {
			p := parts[r.Intn(k)]
			p.Attributes = append(p.Attributes, a)
		}
		for _, b := range union.Blocks {
			p := parts[r.Intn(k)]
			p.Blocks = append(p.Blocks, b)
		}
	}
	if gen.Chance(r, 0.1) {
		// one schema names the same attribute twice (as hcldec.ImpliedSchema does when
		// two specs read one attribute): nothing changes in what is found
		var cands []int
		for i, p := range parts {
			if len(p.Attributes) > 0 {
				cands = append(cands, i)
			}
		}
		if len(cands) > 0 {
			p := parts[gen.Pick(r, cands)]
			dup := gen.Pick(r, p.Attributes)
			p.Attributes = append(append([]hcl.AttributeSchema(nil), p.Attributes...), dup)
			union.Attributes = append(union.Attributes, dup)
			c.Count("schema:attribute-named-twice")
		}
	}
	// (the parts are compared with a private copy after the run: schemas belong to the caller)
	partsCopy := make([]string, k)
	for i, p := range parts {
		partsCopy[i] = schemaStr(p)
	}
	inAttr, inBlock := map[string]bool{}, map[string]bool{}
	for _, a := range union.Attributes {
		inAttr[a.Name] = true
	}
	for _, b := range union.Blocks {
		inBlock[b.Type] = true
	}

	// ---- implementations
	var impls []c04Impl
	nativeSrc := gen.RenderNative(logical, gen.RandomFileLayout(r))
	nf, nd := hclsyntax.ParseConfig([]byte(nativeSrc), "n.hcl", hcl.InitialPos)
	if nd.HasErrors() {
		c.Count("skipped:native-rendering-does-not-parse")
		return
	}
	impls = append(impls, c04Impl{"native", nf.Body, items})
	flat := func(b *gen.Body) string {
		// order-preserving JSON: one property per item
		var props []string
		for _, it := range b.Items {
			if it.Attr != nil {
				props = append(props, gen.JSONQuote(nil, it.Attr.Name)+": "+litJSON(it.Attr.Expr))
			} else {
				inner := "{" + flatInner(it.Block.Body) + "}"
				for i := len(it.Block.Labels) - 1; i >= 0; i-- {
					inner = "{" + gen.JSONQuote(nil, it.Block.Labels[i]) + ": " + inner + "}"
				}
				props = append(props, gen.JSONQuote(nil, it.Block.Type)+": "+inner)
			}
		}
		return "{" + strings.Join(props, ", ") + "}"
	}
	// a name used by both an attribute and a block type cannot be written in
	// JSON (one property name, one meaning): such bodies stay native-only
	collide := false
	for n := range attrSet {
		if blockSet[n] {
			collide = true
		}
	}
	if collide {
		c.Count("attr-and-block-share-a-name(native only)")
	}
	if !collide {
		jsonSrc := flat(logical)
		jf, jd := hcljson.Parse([]byte(jsonSrc), "j.json")
		if jd.HasErrors() {
			c.Violation("json-rendering-rejected", fmt.Sprintf("%s: %s", trunc(jsonSrc, 300), diagStr(jd)), nil)
			return
		}
		impls = append(impls, c04Impl{"json", jf.Body, items})
		// other admissible encodings of the same content: array-form bodies,
		// blocks grouped by type, label objects shared between sibling blocks
		for k := 0; k < 2; k++ {
			enc := &gen.JSONEnc{R: r, ExprJSON: litJSON, LabelCounts: labelCounts, OrderPreserving: true}
			esrc := enc.Body(logical, true)
			ef, ed := hcljson.Parse([]byte(esrc), "e.json")
			if ed.HasErrors() {
				c.Violation("json-rendering-rejected", fmt.Sprintf("%s: %s", trunc(esrc, 300), diagStr(ed)), nil)
				return
			}
			form := "object"
			if strings.HasPrefix(strings.TrimSpace(esrc), "[") {
				form = "array"
			}
			impls = append(impls, c04Impl{"json(" + form + "-form encoding)", ef.Body, items})
		}
	}
	// merged: split the items over 2-4 files of mixed syntax
	nfiles := 2 + r.Intn(3)
	fileItems := make([][]*gen.Item, nfiles)
	for _, it := range items {
		fi := r.Intn(nfiles)
		fileItems[fi] = append(fileItems[fi], it)
	}
	var fileBodies []hcl.Body
	var mergedOrder []*gen.Item
	var mergedDesc []string
	for fi, its := range fileItems {
		fb := &gen.Body{Items: its}
		mergedOrder = append(mergedOrder, its...)
		if collide || gen.Chance(r, 0.5) {
			f, d := hclsyntax.ParseConfig([]byte(gen.RenderNative(fb, gen.CanonicalFileLayout())), fmt.Sprintf("m%d.hcl", fi), hcl.InitialPos)
			if d.HasErrors() {
				return
			}
			fileBodies = append(fileBodies, f.Body)
			mergedDesc = append(mergedDesc, fmt.Sprintf("native(%d items)", len(its)))
		} else {
			f, d := hcljson.Parse([]byte(flat(fb)), fmt.Sprintf("m%d.json", fi))
			if d.HasErrors() {
				return
			}
			fileBodies = append(fileBodies, f.Body)
			mergedDesc = append(mergedDesc, fmt.Sprintf("json(%d items)", len(its)))
		}
	}
	var merged hcl.Body
	if len(fileBodies) >= 3 && gen.Chance(r, 0.5) {
		merged = hcl.MergeBodies([]hcl.Body{hcl.MergeBodies(fileBodies[:2]), hcl.MergeBodies(fileBodies[2:])})
		mergedDesc = append(mergedDesc, "merge-of-merges")
	} else {
		merged = hcl.MergeBodies(fileBodies)
	}
	impls = append(impls, c04Impl{"merged[" + strings.Join(mergedDesc, ",") + "]", merged, mergedOrder})
	// dynblock: one leaf block written as a dynamic block with a single iteration
	{
		dyn := &gen.Body{}
		replaced := false
		var dynSrc strings.Builder
		for _, it := range items {
			if !replaced && it.Block != nil && len(it.Block.Body.Blocks()) == 0 && gen.Chance(r, 0.6) {
				replaced = true
				dynSrc.WriteString(gen.RenderNative(dyn, gen.CanonicalFileLayout()))
				dyn = &gen.Body{}
				var labels []string
				for _, l := range it.Block.Labels {
					labels = append(labels, fmt.Sprintf("%q", l))
				}
				fmt.Fprintf(&dynSrc, "dynamic %q {\n  for_each = [1]\n", it.Block.Type)
				if len(labels) > 0 {
					fmt.Fprintf(&dynSrc, "  labels = [%s]\n", strings.Join(labels, ", "))
				}
				dynSrc.WriteString("  content {\n" + gen.RenderNative(it.Block.Body, gen.CanonicalFileLayout()) + "  }\n}\n")
				continue
			}
			dyn.Items = append(dyn.Items, it)
		}
		dynSrc.WriteString(gen.RenderNative(dyn, gen.CanonicalFileLayout()))
		df, dd := hclsyntax.ParseConfig([]byte(dynSrc.String()), "d.hcl", hcl.InitialPos)
		if !dd.HasErrors() {
			name := "dynblock-expanded"
			if replaced {
				name += "(1 dynamic block)"
			}
			impls = append(impls, c04Impl{name, dynblock.Expand(df.Body, &hcl.EvalContext{}), items})
		}
	}
	// dynblock with an unknown for_each: the generated placeholder block's body
	// presents the content template (with unknown attribute values)
	{
		wsrc := "dynamic \"zz_wrap\" {\n  for_each = unk\n  content {\n" + nativeSrc + "\n  }\n}\n"
		wf, wd := hclsyntax.ParseConfig([]byte(wsrc), "w.hcl", hcl.InitialPos)
		if !wd.HasErrors() {
			ex := dynblock.Expand(wf.Body, &hcl.EvalContext{Variables: map[string]cty.Value{"unk": cty.UnknownVal(cty.List(cty.String))}})
			wc, wcd := ex.Content(&hcl.BodySchema{Blocks: []hcl.BlockHeaderSchema{{Type: "zz_wrap"}}})
			if !wcd.HasErrors() && len(wc.Blocks) == 1 {
				impls = append(impls, c04Impl{"dynblock-unknown-for_each", wc.Blocks[0].Body, items})
			} else {
				c.Violation("unknown-for_each-placeholder-missing", fmt.Sprintf("a dynamic block with an unknown for_each expands to %d blocks (%s)", len(wc.Blocks), diagStr(wcd)), nil)
				return
			}
		}
	}
	c.SetInput(fmt.Sprintf("LOGICAL (native):\n%s\nUNION SCHEMA: %s\nSPLIT: %d parts", nativeSrc, schemaStr(union), k))

	matchAll, matchAny := true, false
	for _, it := range items {
		m := (it.Attr != nil && inAttr[it.Attr.Name]) || (it.Block != nil && inBlock[it.Block.Type])
		if m {
			matchAny = true
		} else {
			matchAll = false
		}
	}
	var refSig string
	var refErr bool
	nativeConsumed := map[bool]bool{}
	for ii, im := range impls {
		c.Count("impl:" + strings.SplitN(im.name, "[", 2)[0])
		// expected per this implementation's order
		wantAttrs := map[string]bool{}
		wantBlocks := map[string][]string{}
		restAttrs := map[string]bool{}
		restBlocks := map[string][]string{}
		for _, it := range im.order {
			if it.Attr != nil {
				if inAttr[it.Attr.Name] {
					wantAttrs[it.Attr.Name] = true
				} else {
					restAttrs[it.Attr.Name] = true
				}
			} else {
				sig := fmt.Sprintf("%q", nfcAll(it.Block.Labels))
				if inBlock[it.Block.Type] {
					wantBlocks[it.Block.Type] = append(wantBlocks[it.Block.Type], sig)
				} else {
					restBlocks[it.Block.Type] = append(restBlocks[it.Block.Type], sig)
				}
			}
		}
		missingRequired := false
		for _, a := range union.Attributes {
			if a.Required && !wantAttrs[a.Name] {
				missingRequired = true
			}
		}
		// -------- one exhaustive step
		c1, d1 := im.body.Content(union)
		c.Evals(1)
		ga, gb := contentSigOf(c1)
		if !labelMismatch {
			if sigString(ga, gb) != sigString(wantAttrs, wantBlocks) {
				c.Violation("content-accounting/"+implKind(im.name), fmt.Sprintf("%s: Content returned %s, the accounting model expects %s", im.name, sigString(ga, gb), sigString(wantAttrs, wantBlocks)), nil)
				return
			}
			wantErr := !matchAll || missingRequired
			if d1.HasErrors() != wantErr {
				c.Violation("content-error-ness/"+implKind(im.name), fmt.Sprintf("%s: Content errors=%v (%s) but non-matching items present=%v, missing required=%v", im.name, d1.HasErrors(), trunc(diagStr(d1), 300), !matchAll, missingRequired), nil)
				return
			}
		}
		// -------- one partial step + exhaustive remainder with the complement schema
		p1, rem, dp := im.body.PartialContent(union)
		c.Evals(1)
		pa, pb := contentSigOf(p1)
		if sigString(pa, pb) != sigString(ga, gb) {
			c.Violation("partial-vs-content/"+implKind(im.name), fmt.Sprintf("%s: PartialContent returned %s but Content returned %s", im.name, sigString(pa, pb), sigString(ga, gb)), nil)
			return
		}
		if !labelMismatch && dp.HasErrors() != missingRequired {
			c.Violation("partial-error-ness/"+implKind(im.name), fmt.Sprintf("%s: PartialContent errors=%v (%s), missing required=%v", im.name, dp.HasErrors(), trunc(diagStr(dp), 300), missingRequired), nil)
			return
		}
		comp := &hcl.BodySchema{}
		for _, n := range gen.SortedKeys(restAttrs) {
			comp.Attributes = append(comp.Attributes, hcl.AttributeSchema{Name: n})
		}
		for _, t := range gen.SortedKeys(restBlocks) {
			comp.Blocks = append(comp.Blocks, hcl.BlockHeaderSchema{Type: t, LabelNames: labelNames(labelCounts[t])})
		}
		rc, rd := rem.Content(comp)
		c.Evals(1)
		ra, rb := contentSigOf(rc)
		if !labelMismatch {
			if rd.HasErrors() {
				c.Violation("remainder-errors/"+implKind(im.name), fmt.Sprintf("%s: exhaustive processing of the remainder with the complement schema reports: %s", im.name, trunc(diagStr(rd), 400)), nil)
				return
			}
			if sigString(ra, rb) != sigString(restAttrs, restBlocks) {
				c.Violation("remainder-accounting/"+implKind(im.name), fmt.Sprintf("%s: the remainder holds %s, the non-matching items are %s", im.name, sigString(ra, rb), sigString(restAttrs, restBlocks)), nil)
				return
			}
			// (a') the body of every block handed out — by the exhaustive step, by the
			// partial step and by the step on the remainder — holds what was written
			// inside that block, whatever the enclosing steps consumed
			for _, set := range []struct {
				where  string
				blocks hcl.Blocks
			}{{"Content", c1.Blocks}, {"PartialContent", p1.Blocks}, {"Content of the remainder", rc.Blocks}} {
				for _, hb := range set.blocks {
					var written *gen.Block
					n := 0
					for _, it := range im.order {
						if it.Block != nil && it.Block.Type == hb.Type && fmt.Sprintf("%q", nfcAll(it.Block.Labels)) == fmt.Sprintf("%q", nfcAll(hb.Labels)) {
							written = it.Block
							n++
						}
					}
					if n != 1 {
						continue // (several written blocks share type and labels)
					}
					ns := &hcl.BodySchema{}
					wa, wb := map[string]bool{}, map[string][]string{}
					seenT := map[string]bool{}
					for _, it := range written.Body.Items {
						if it.Attr != nil {
							ns.Attributes = append(ns.Attributes, hcl.AttributeSchema{Name: it.Attr.Name})
							wa[it.Attr.Name] = true
						} else {
							if !seenT[it.Block.Type] {
								seenT[it.Block.Type] = true
								ns.Blocks = append(ns.Blocks, hcl.BlockHeaderSchema{Type: it.Block.Type, LabelNames: labelNames(len(it.Block.Labels))})
							}
							wb[it.Block.Type] = append(wb[it.Block.Type], fmt.Sprintf("%q", nfcAll(it.Block.Labels)))
						}
					}
					nc, nd := hb.Body.Content(ns)
					c.Evals(1)
					na, nb := contentSigOf(nc)
					if nd.HasErrors() || sigString(na, nb) != sigString(wa, wb) {
						c.Violation("nested-body-accounting/"+implKind(im.name), fmt.Sprintf("%s: the body of block %s %q returned by %s holds %s (diagnostics: %s); written inside that block: %s", im.name, hb.Type, hb.Labels, set.where, sigString(na, nb), trunc(diagStr(nd), 200), sigString(wa, wb)), nil)
						return
					}
					c.Count("nested-bodies-accounted")
				}
			}
			// (e) JustAttributes of a remainder sees only what remains
			blocksOnly := &hcl.BodySchema{}
			for _, t := range gen.SortedKeys(blockSet) {
				blocksOnly.Blocks = append(blocksOnly.Blocks, hcl.BlockHeaderSchema{Type: t, LabelNames: labelNames(labelCounts[t])})
			}
			_, rem2, d2 := im.body.PartialContent(blocksOnly)
			ja, jd2 := rem2.JustAttributes()
			c.Evals(2)
			if strings.Contains(im.name, "array-form") {
				// json/spec.md: in the dynamic-attributes mode a single JSON object is
				// always required; an array-form body is answered with an error
				if !jd2.HasErrors() {
					c.Violation("remainder-just-attributes/json-array-form-accepted", fmt.Sprintf("%s: JustAttributes of an array-form body reports no error (json/spec.md requires a single object in that mode)", im.name), nil)
					return
				}
				c.Count("remainder-just-attributes:array-form-rejected-as-specified")
			} else if d2.HasErrors() || jd2.HasErrors() || len(ja) != len(attrSet) {
				c.Violation("remainder-just-attributes/"+implKind(im.name), fmt.Sprintf("%s: after consuming every block type, JustAttributes of the remainder gives %d attributes (the body has %d) with diagnostics: %s %s", im.name, len(ja), len(attrSet), trunc(diagStr(d2), 200), trunc(diagStr(jd2), 300)), nil)
				return
			}
			if !strings.Contains(im.name, "array-form") {
				c.Count("remainder-just-attributes-held")
			}
		}
		// -------- a later step that mentions what an earlier step consumed: the
		// item is gone from the remainder (a required argument is then missing,
		// a block type yields nothing), in every implementation
		if !labelMismatch && len(attrSet) > 0 && (ii == 0 || strings.HasPrefix(im.name, "json")) {
			// (the two-step law of the property is stated for disjoint schemas; what
			// is decided here is only that the two SYNTAXES answer this sequence of
			// calls alike, the native answer being the reference)
			x := gen.SortedKeys(attrSet)[0]
			s1 := &hcl.BodySchema{Attributes: []hcl.AttributeSchema{{Name: x}}}
			for _, t := range gen.SortedKeys(blockSet) {
				if len(s1.Blocks) == 0 {
					s1.Blocks = append(s1.Blocks, hcl.BlockHeaderSchema{Type: t, LabelNames: labelNames(labelCounts[t])})
				}
			}
			for _, req := range []bool{true, false} {
				s2 := &hcl.BodySchema{Attributes: []hcl.AttributeSchema{{Name: x, Required: req}}}
				for _, n := range gen.SortedKeys(attrSet) {
					if n != x {
						s2.Attributes = append(s2.Attributes, hcl.AttributeSchema{Name: n})
					}
				}
				for _, t := range gen.SortedKeys(blockSet) {
					s2.Blocks = append(s2.Blocks, hcl.BlockHeaderSchema{Type: t, LabelNames: labelNames(labelCounts[t])})
				}
				_, remX, dX := im.body.PartialContent(s1)
				if dX.HasErrors() {
					break
				}
				contX, dY := remX.Content(s2)
				c.Evals(2)
				ax, bx := contentSigOf(contX)
				again := ax[x]
				if len(s1.Blocks) > 0 && len(bx[s1.Blocks[0].Type]) > 0 {
					again = true
				}
				if again {
					c.Violation("consumed-item-returned-again/"+implKind(im.name), fmt.Sprintf("%s: after PartialContent(%s) the remainder still yields the consumed item: %s", im.name, schemaStr(s1), sigString(ax, bx)), nil)
					return
				}
				if ii == 0 {
					nativeConsumed[req] = dY.HasErrors()
				} else if want, ok := nativeConsumed[req]; ok && dY.HasErrors() != want {
					c.Violation("consumed-required-argument/"+implKind(im.name), fmt.Sprintf("%s: after PartialContent(%s), Content on the remainder with %q required=%v reports errors=%v (%s); the native syntax reports errors=%v for the same calls", im.name, schemaStr(s1), x, req, dY.HasErrors(), trunc(diagStr(dY), 200), want), nil)
					return
				}
			}
			c.Count("consumed-items-stay-consumed")
		}
		// -------- one remainder used twice: a remainder is a value, extracting from it
		// does not change it
		{
			half := &hcl.BodySchema{}
			for i, a := range union.Attributes {
				if i%2 == 0 {
					half.Attributes = append(half.Attributes, hcl.AttributeSchema{Name: a.Name})
				}
			}
			for i, b := range union.Blocks {
				if i%2 == 0 {
					half.Blocks = append(half.Blocks, b)
				}
			}
			if _, remT, dT := im.body.PartialContent(half); !dT.HasErrors() && remT != nil {
				restS := &hcl.BodySchema{}
				for i, a := range union.Attributes {
					if i%2 == 1 {
						restS.Attributes = append(restS.Attributes, hcl.AttributeSchema{Name: a.Name})
					}
				}
				for i, b := range union.Blocks {
					if i%2 == 1 {
						restS.Blocks = append(restS.Blocks, b)
					}
				}
				c1, _, e1 := remT.PartialContent(restS)
				c2, _, e2 := remT.PartialContent(restS)
				c.Evals(3)
				a1, b1 := contentSigOf(c1)
				a2, b2 := contentSigOf(c2)
				if sigString(a1, b1) != sigString(a2, b2) || e1.HasErrors() != e2.HasErrors() {
					c.Violation("remainder-changed-by-extraction/"+implKind(im.name), fmt.Sprintf("%s: the same remaining body gives %s (errors=%v) to a first PartialContent(%s) and %s (errors=%v) to a second one", im.name, sigString(a1, b1), e1.HasErrors(), schemaStr(restS), sigString(a2, b2), e2.HasErrors()), nil)
					return
				}
				c.Count("remainders-stable-under-repeated-extraction")
			}
		}
		// -------- k-step chain vs one step
		var cur hcl.Body = im.body
		accA, accB := map[string]bool{}, map[string][]string{}
		var chainDiags hcl.Diagnostics
		for i, p := range parts {
			var cont *hcl.BodyContent
			var d hcl.Diagnostics
			if i == len(parts)-1 {
				cont, d = cur.Content(p)
			} else {
				cont, cur, d = cur.PartialContent(p)
			}
			c.Evals(1)
			chainDiags = append(chainDiags, d...)
			a, b := contentSigOf(cont)
			for n := range a {
				if accA[n] {
					c.Violation("chain-duplicate/"+implKind(im.name), fmt.Sprintf("%s: attribute %q returned by two steps of the chain", im.name, n), nil)
					return
				}
				accA[n] = true
			}
			for t, l := range b {
				accB[t] = append(accB[t], l...)
			}
		}
		if sigString(accA, accB) != sigString(ga, gb) {
			c.Violation("chain-vs-one-step/content/"+implKind(im.name), fmt.Sprintf("%s: %d-step chain returned %s, one step with the union schema returned %s", im.name, k, sigString(accA, accB), sigString(ga, gb)), nil)
			return
		}
		if chainDiags.HasErrors() != d1.HasErrors() {
			c.Violation("chain-vs-one-step/error-ness/"+implKind(im.name), fmt.Sprintf("%s: %d-step chain errors=%v (%s), one step errors=%v (%s)", im.name, k, chainDiags.HasErrors(), trunc(diagStr(chainDiags), 300), d1.HasErrors(), trunc(diagStr(d1), 300)), nil)
			return
		}
		if !labelMismatch && diagMultiset(chainDiags) != diagMultiset(d1) {
			c.Violation("chain-vs-one-step/diagnostics/"+implKind(im.name), fmt.Sprintf("%s: %d-step chain diagnostics differ from one step\n chain: %s\n one:   %s", im.name, k, trunc(diagStr(chainDiags), 400), trunc(diagStr(d1), 400)), nil)
			return
		}
		c.Count("chains-agreed")
		for i, p := range parts {
			if schemaStr(p) != partsCopy[i] {
				c.Violation("caller-schema-modified/"+implKind(im.name), fmt.Sprintf("%s: part %d of the caller's split schema was %s before the chain and is %s after it", im.name, i, partsCopy[i], schemaStr(p)), nil)
				return
			}
		}
		// -------- cross-implementation agreement (per-type sequences follow each implementation's own order;
		// native, json and dynblock share the logical order)
		if ii == 0 {
			refSig, refErr = sigString(ga, gb), d1.HasErrors()
		} else if labelMismatch {
			// label-count mismatches: the JSON reading is schema-directed (DESIGN §4.8)
		} else if !strings.HasPrefix(im.name, "merged") {
			if sigString(ga, gb) != refSig || d1.HasErrors() != refErr {
				c.Violation("implementations-disagree/"+implKind(im.name), fmt.Sprintf("%s returns %s errors=%v; native returns %s errors=%v", im.name, sigString(ga, gb), d1.HasErrors(), refSig, refErr), nil)
				return
			}
		} else if d1.HasErrors() != refErr {
			c.Violation("implementations-disagree/"+implKind(im.name), fmt.Sprintf("%s errors=%v (%s); native errors=%v", im.name, d1.HasErrors(), trunc(diagStr(d1), 300), refErr), nil)
			return
		}
	}
	nblocks := 0
	for _, it := range items {
		if it.Block != nil {
			nblocks++
		}
	}
	if nblocks >= 1 && len(items) >= 3 && matchAny && !matchAll {
		c.NonTrivial(nativeSrc + schemaStr(union))
	}
	if c.WantSample() {
		c.Sample(map[string]any{"logical": trunc(nativeSrc, 250), "schema": schemaStr(union), "parts": k, "implementations": len(impls)})
	}
}

func flatInner(b *gen.Body) string {
	var props []string
	for _, it := range b.Items {
		if it.Attr != nil {
			props = append(props, gen.JSONQuote(nil, it.Attr.Name)+": "+litJSON(it.Attr.Expr))
		}
	}
	return strings.Join(props, ", ")
}

func implKind(name string) string {
	if i := strings.IndexAny(name, "[("); i > 0 {
		return name[:i]
	}
	return name
}

func schemaStr(s *hcl.BodySchema) string {
	var parts []string
	for _, a := range s.Attributes {
		req := ""
		if a.Required {
			req = "!"
		}
		parts = append(parts, "attr "+a.Name+req)
	}
	for _, b := range s.Blocks {
		parts = append(parts, fmt.Sprintf("block %s/%d", b.Type, len(b.LabelNames)))
	}
	return strings.Join(parts, ", ")
}
