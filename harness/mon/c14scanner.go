package mon

import (
	"bufio"
	"bytes"
	"fmt"

	"github.com/apparentlymart/go-textseg/v15/textseg"
	"github.com/hashicorp/hcl/v2"

	"verifharness/core"
	"verifharness/gen"
)

// c14Scanner: hcl.RangeScanner is the library's own "count newlines and
// grapheme clusters" position counter (the one diagnostics rendering uses to
// find line ranges). Its ranges must tile the buffer in order, slice the
// buffer to the token it reports, and carry the positions an independent count
// gives, from any start position.
func c14Scanner(c *core.Case) {
	r := c.Rng
	src := pickSeed(c, false)
	if gen.Chance(r, 0.5) {
		src = gen.Mutate(r, src, 4)
	}
	if gen.Chance(r, 0.2) {
		src = bytes.ReplaceAll(src, []byte("\n"), []byte("\r\n"))
	}
	start := hcl.InitialPos
	fragment := gen.Chance(r, 0.4)
	if fragment {
		start = hcl.Pos{Line: 1 + r.Intn(50), Column: 1 + r.Intn(40), Byte: 1 + r.Intn(5000)}
	}
	c.SetInput(string(src))
	splitName := gen.Pick(r, []string{"ScanLines", "ScanGraphemeClusters", "cluster-chunks"})
	chunk := 1 + r.Intn(7)
	skip := r.Intn(3)
	var split bufio.SplitFunc
	switch splitName {
	case "ScanLines":
		split = bufio.ScanLines
	case "ScanGraphemeClusters":
		split = textseg.ScanGraphemeClusters
	default:
		// tokens of `chunk` grapheme clusters followed by `skip` skipped clusters
		split = func(data []byte, atEOF bool) (int, []byte, error) {
			if len(data) == 0 {
				return 0, nil, nil
			}
			n := 0
			for i := 0; i < chunk && n < len(data); i++ {
				adv, _, _ := textseg.ScanGraphemeClusters(data[n:], true)
				if adv <= 0 {
					adv = 1
				}
				n += adv
			}
			tok := data[:n]
			for i := 0; i < skip && n < len(data); i++ {
				adv, _, _ := textseg.ScanGraphemeClusters(data[n:], true)
				if adv <= 0 {
					adv = 1
				}
				n += adv
			}
			return n, tok, nil
		}
	}
	var sc *hcl.RangeScanner
	if fragment {
		sc = hcl.NewRangeScannerFragment(src, "t.hcl", start, split)
		c.Count("scanner:fragment-start")
	} else {
		sc = hcl.NewRangeScanner(src, "t.hcl", split)
	}
	c.Count("scanner:" + splitName)
	meta := map[string]any{"split": splitName, "start": fmt.Sprint(start), "src_quoted": fmt.Sprintf("%q", trunc(string(src), 2000))}
	base := start.Byte
	// independent counter (same rules as the tiling check: every \n byte is a
	// newline; a cluster that holds bytes after its newline, or a lone CR, ends
	// the judgement of positions, as the property does not define them)
	line, col, cur := start.Line, start.Column, 0
	judge := true
	advance := func(to int) {
		for cur < to && judge {
			adv, seg, _ := textseg.ScanGraphemeClusters(src[cur:], true)
			if adv <= 0 {
				adv = 1
			}
			if cur+adv > to {
				judge = false
				return
			}
			switch nl := bytes.Count(seg, []byte{'\n'}); {
			case nl > 0 && seg[len(seg)-1] == '\n' && (len(seg) == 1 || (len(seg) == 2 && seg[0] == '\r')):
				line++
				col = 1
			case nl > 0 || bytes.IndexByte(seg, '\r') >= 0:
				judge = false
				return
			default:
				col++
			}
			cur += adv
		}
	}
	pos, n := 0, 0
	var covered int
	for sc.Scan() {
		c.Evals(1)
		rng, tok := sc.Range(), sc.Bytes()
		s, e := rng.Start.Byte-base, rng.End.Byte-base
		if s < 0 || e < s || e > len(src) {
			c.Violation("scanner/range-out-of-bounds/"+splitName, fmt.Sprintf("token %d has bytes [%d,%d) relative to the start, the buffer has %d", n, s, e, len(src)), meta)
			return
		}
		if s < pos {
			c.Violation("scanner/overlap/"+splitName, fmt.Sprintf("token %d starts at %d, before the end %d of its predecessor", n, s, pos), meta)
			return
		}
		if !bytes.Equal(tok, src[s:e]) {
			c.Violation("scanner/bytes-mismatch/"+splitName, fmt.Sprintf("token %d: Bytes() = %q but the buffer at its range [%d,%d) holds %q", n, trunc(string(tok), 80), s, e, trunc(string(src[s:e]), 80)), meta)
			return
		}
		advance(s)
		if judge && (rng.Start.Line != line || rng.Start.Column != col) {
			c.Violation("scanner/start-pos/"+splitName, fmt.Sprintf("token %d start reported as line %d col %d, independent count gives line %d col %d (byte %d)", n, rng.Start.Line, rng.Start.Column, line, col, s), meta)
			return
		}
		advance(e)
		if judge && (rng.End.Line != line || rng.End.Column != col) {
			c.Violation("scanner/end-pos/"+splitName, fmt.Sprintf("token %d end reported as line %d col %d, independent count gives line %d col %d (byte %d)", n, rng.End.Line, rng.End.Column, line, col, e), meta)
			return
		}
		pos = e
		covered += e - s
		n++
		if n > len(src)+2 {
			c.Violation("scanner/does-not-terminate/"+splitName, fmt.Sprintf("more than %d tokens from %d bytes", n, len(src)), meta)
			return
		}
	}
	if err := sc.Err(); err != nil {
		c.Violation("scanner/error/"+splitName, "Err() = "+err.Error(), meta)
		return
	}
	// everything is visited: with these split functions the tokens (plus, for
	// lines, their terminators; for chunks, the skipped clusters) exhaust the buffer
	want := 0
	switch splitName {
	case "ScanLines":
		for _, ln := range bytes.SplitAfter(src, []byte("\n")) {
			l := bytes.TrimSuffix(ln, []byte("\n"))
			l = bytes.TrimSuffix(l, []byte("\r"))
			want += len(l)
		}
		if covered != want {
			c.Violation("scanner/coverage/"+splitName, fmt.Sprintf("the line tokens cover %d bytes, the lines of the buffer hold %d (the scan stopped at byte %d of %d after %d tokens)", covered, want, pos, len(src), n), meta)
			return
		}
	case "ScanGraphemeClusters":
		if covered != len(src) {
			c.Violation("scanner/coverage/"+splitName, fmt.Sprintf("the cluster tokens cover %d of %d bytes (%d tokens)", covered, len(src), n), meta)
			return
		}
	}
	c.CountN("scanner-tokens", n)
	if judge {
		c.Count("scanner:positions-judged-to-the-end")
	}
	if n >= 3 {
		c.NonTrivial("scanner:" + splitName + ":" + string(src))
	}
}
