package mon

import (
	"bytes"
	"fmt"
	"sort"
	"strings"

	"github.com/hashicorp/hcl/v2"
	"github.com/hashicorp/hcl/v2/hclsyntax"
	"github.com/hashicorp/hcl/v2/hclwrite"

	"verifharness/core"
	"verifharness/gen"
)

func init() {
	Register(&Spec{
		ID:        "C10",
		Technique: "runtime monitoring: load/save round-trip monitor (token identity, byte identity with Format, structural agreement with the hclsyntax view) around hclwrite.ParseConfig on generated configurations",
		Rule: "each case is an error-free configuration (generated body tree with full expressions in noisy layout, a traversal-shape micro-case placed in a random expression position, or a comment-placement micro-case); hclwrite.ParseConfig(src).Bytes() is compared token-by-token with src and byte-by-byte with Format(src), and the tree's attributes/blocks/labels/variable references are compared with hclsyntax's parse of the same source; 1 case in 3 loads the same source again as a fragment at a non-initial start position (same token sequence, same tree view); " +
			"non-trivial = the file has >= 2 items and >= 1 traversal; distinct by source hash",
		Assumptions: []string{"hclsyntax.ParseConfig/LexConfig define what the source says (C02/C14 are their monitors)"},
		Quick:       Plan{Batches: 16, PerBatch: 1500, MinNonTrivial: 8000},
		Thorough:    Plan{Batches: 64, PerBatch: 30000, MinNonTrivial: 150000},
		Case:        c10Case,
	})
}

var c10Traversals = []string{
	"foo", "foo.bar", "foo.bar.baz", "foo[0]", "foo[\"a\"]", "foo[true]", "foo[false]", "foo[null]", "foo[1.5]", "foo[-1]", "foo[\"a$b\"]", "foo[\"100%\"]", "foo[\"$${x}\"]",
	"foo.0", "foo.0.bar", "foo[0][1]", "foo[0].bar[\"k\"]", "foo.*", "foo.*.bar", "foo[*]", "foo[*].bar", "foo[*].bar[0]", "foo.*.bar.baz", "foo[bar]", "foo[bar.baz]", "foo[bar[0]]",
	"foo[\"a\"][\"b\"]", "foo . bar", "foo [ 0 ]", "foo[ \"a\" ]", "foo[<<EOT\nk\nEOT\n]", "true.foo", "null", "foo[0 + 1]", "foo[\"${x}\"]", "foo.bar[*].baz.qux", "foo[\"\"]", "foo[\"é\"]", "foo[1e2]", "foo[00]",
}

var c10Positions = []string{
	"a = %s\n", "a = f(%s)\n", "a = f(1, %s, 2)\n", "a = [%s]\n", "a = [1, %s]\n", "a = {k = %s}\n", "a = {(%s) = 1}\n", "a = \"${%s}\"\n", "a = \"x${%s}y\"\n", "a = [for v in %s: v]\n",
	"a = [for v in x: %s]\n", "a = [for v in x: v if %s]\n", "a = {for k, v in %s: k => v}\n", "a = %s + 1\n", "a = -%s\n", "a = !%s\n", "a = %s ? 1 : 2\n", "a = c ? %s : 2\n", "a = c ? 1 : %s\n", "a = (%s)\n",
	"a = \"%%{ if %s }x%%{ endif }\"\n", "a = \"%%{ for v in %s }x%%{ endfor }\"\n", "b {\n  a = %s\n}\n", "b { a = %s }\n", "a = %s # c\n", "a = /* c */ %s\n", "a = %s == %s\n", "a = f(%s...)\n", "a = x[%s]\n", "a = <<EOT\n${%s}\nEOT\n",
}

var c10Comments = []string{
	"# lead\na = 1\n", "a = 1 # trail\n", "a = 1 // trail\n", "a = 1 /* trail */\n", "/* lead */\na = 1\n", "a = [ # in\n 1,\n]\n", "a = [\n 1, # in\n]\n", "b { # in\n  a = 1\n}\n", "b {\n  a = 1\n} # after\n",
	"b {\n  a = 1\n} // after\n", "b {} /* after */\nc = 2\n", "b {\n}\n/* after */\n", "b /* c */ \"l\" {\n}\n", "b \"l\" /* c */ {\n}\n", "b \"l\" { /* c */ }\n", "b { a = 1 /* c */ }\n", "b { a = 1 } # c\n",
	"# only a comment\n", "a = 1\n# end", "a = 1\n# end\n", "a = f( # c\n 1)\n", "a = { # c\n k = 1 # d\n}\n", "# c1\n# c2\n\n# c3\na = 1\n", "a = 1\n\n\nb = 2\n", "a = 1 // c1\nbb = 2 // c2\n", "a /* c */ = 1\n", "a = /* c */ 1\n",
	"b \"a$b\" \"c\" {}\n", "b \"100%\" {}\n", "b \"$${x}\" {}\n", "b \"%%{x}\" {}\n", "b \"\" {}\n", "b a \"b\" c {}\n", "b \"l\\\"q\" {}\n", "b \"\\u00e9\" {}\n",
}

// c10Abstract is the abstract tree of the current case's source when it was
// generated (nil for micro cases or re-spaced text whose layout changed only).
var c10Abstract *gen.Body

func c10Source(c *core.Case) []byte {
	r := c.Rng
	c10Abstract = nil
	switch r.Intn(6) {
	case 0:
		pos := gen.Pick(r, c10Positions)
		n := strings.Count(pos, "%s")
		args := make([]any, n)
		for i := range args {
			args[i] = gen.Pick(r, c10Traversals)
		}
		src := fmt.Sprintf(pos, args...)
		if strings.Contains(src, "EOT\n]") && !strings.HasPrefix(pos, "a = x[") && !strings.HasPrefix(pos, "a = %s\n") {
			// heredoc index keys only where a newline-insensitive context follows
		}
		c.Count("source:traversal-micro")
		if gen.Chance(r, 0.5) {
			if rs, ok := respace(r, []byte(src), gen.Chance(r, 0.2)); ok {
				c.Count("source:traversal-micro+respaced")
				return rs
			}
		}
		return []byte(src)
	case 1:
		src := gen.Pick(r, c10Comments)
		if gen.Chance(r, 0.4) {
			src = gen.Pick(r, c10Comments) + src
		}
		c.Count("source:comment-micro")
		return []byte(src)
	}
	body, _ := exprConfig(r, 3, 2, 0.1)
	c.Count("source:generated")
	c10Abstract = body
	src := []byte(gen.RenderNative(body, gen.RandomFileLayout(r)))
	if gen.Chance(r, 0.4) {
		// every pair of adjacent tokens with every kind of gap
		if rs, ok := respace(r, src, gen.Chance(r, 0.2)); ok {
			c.Count("source:generated+respaced")
			return rs
		}
	}
	return src
}

// c10FreeVars compares, attribute by attribute, the variable references the
// hclwrite tree exposes with the free variables of the harness AST the source
// was rendered from (an oracle that does not go through hclsyntax's own
// variable analysis).
func c10FreeVars(ab *gen.Body, wb *hclwrite.Body, path string) string {
	for _, a := range ab.Attrs() {
		wa := wb.GetAttribute(a.Name)
		if wa == nil {
			return fmt.Sprintf("%s: attribute %q is not exposed by the hclwrite tree", path, a.Name)
		}
		var got []string
		for _, t := range wa.Expr().Variables() {
			for _, tk := range t.BuildTokens(nil) {
				if tk.Type == hclsyntax.TokenIdent {
					got = append(got, string(tk.Bytes))
					break
				}
			}
		}
		sort.Strings(got)
		want := a.Expr.FreeVars()
		if strings.Join(got, ",") != strings.Join(want, ",") {
			return fmt.Sprintf("%s.%s: the expression refers to variables %v (free variables of the generated AST), the hclwrite tree exposes %v\nexpression: %s", path, a.Name, want, got, gen.RenderExpr(a.Expr, &gen.Layout{}))
		}
	}
	ablks, wblks := ab.Blocks(), wb.Blocks()
	if len(ablks) != len(wblks) {
		return fmt.Sprintf("%s: %d blocks written, hclwrite tree exposes %d", path, len(ablks), len(wblks))
	}
	for i, blk := range ablks {
		if msg := c10FreeVars(blk.Body, wblks[i].Body(), fmt.Sprintf("%s/%s[%d]", path, blk.Type, i)); msg != "" {
			return msg
		}
	}
	return ""
}

func c10Case(c *core.Case) {
	src := c10Source(c)
	c.SetInput(string(src))
	sf, diags := hclsyntax.ParseConfig(src, "t.hcl", hcl.InitialPos)
	c.Evals(1)
	if diags.HasErrors() {
		c.Count("skipped:source-has-parse-errors")
		return
	}
	wf, wd := hclwrite.ParseConfig(src, "t.hcl", hcl.InitialPos)
	c.Evals(1)
	if wd.HasErrors() || wf == nil {
		c.Violation("load-error", "hclwrite.ParseConfig reports errors for a source hclsyntax accepts: "+diagStr(wd), nil)
		return
	}
	out := wf.Bytes()
	srcToks, _ := lexPairs(src)
	outToks, _ := lexPairs(out)
	if d := firstTokDiff(srcToks, outToks); d != "" {
		c.Violation("tokens-lost/"+tokDiffShape(srcToks, outToks), "ParseConfig(src).Bytes() has a different token sequence: "+d, map[string]any{"out": string(out)})
		return
	}
	c.Count("token-identity-held")
	if fm := hclwrite.Format(src); !bytes.Equal(fm, out) {
		c.Violation("bytes-differ-from-format", fmt.Sprintf("Bytes() of the unmodified tree differs from Format(src):\nbytes:  %q\nformat: %q", trunc(string(out), 500), trunc(string(fm), 500)), nil)
		return
	}
	c.Count("format-identity-held")
	trav := 0
	if msg, cls := c10Compare(c, src, sf.Body.(*hclsyntax.Body), wf.Body(), "root", &trav); msg != "" {
		c.Violation("tree-view/"+cls, msg, nil)
		return
	}
	if c10Abstract != nil {
		if msg := c10FreeVars(c10Abstract, wf.Body(), "root"); msg != "" {
			c.Violation("tree-view/variables-vs-generated-ast", msg, nil)
			return
		}
		c.Count("variables-agree-with-generated-ast")
	}
	if c.Index%3 == 1 {
		// the same source as a fragment of a larger document: a start position
		// other than the beginning of a file changes reported ranges, nothing else
		r := c.Rng
		off := 1 + r.Intn(40)
		if gen.Chance(r, 0.3) {
			off = len(src) + r.Intn(5000)
		}
		start := hcl.Pos{Line: 1 + r.Intn(90), Column: 1 + r.Intn(70), Byte: off}
		sf2, sd2 := hclsyntax.ParseConfig(src, "t.hcl", start)
		wf2, wd2 := hclwrite.ParseConfig(src, "t.hcl", start)
		c.Evals(2)
		if sd2.HasErrors() {
			c.Violation("fragment/hclsyntax-errors-at-start-position", fmt.Sprintf("hclsyntax.ParseConfig at start %#v reports errors for a source that parses at the initial position: %s", start, diagStr(sd2)), nil)
			return
		}
		if wd2.HasErrors() || wf2 == nil {
			c.Violation("fragment/load-error", fmt.Sprintf("hclwrite.ParseConfig at start %#v reports errors: %s", start, diagStr(wd2)), nil)
			return
		}
		// (token sequence, as the property says: the loader counts the start offset as
		// spaces before the first token, which the formatter then mostly removes again)
		out2 := wf2.Bytes()
		out2Toks, _ := lexPairs(out2)
		if d := firstTokDiff(srcToks, out2Toks); d != "" {
			c.Violation("fragment/tokens-lost/"+tokDiffShape(srcToks, out2Toks), fmt.Sprintf("the tree loaded at start %#v serialises to a different token sequence: %s", start, d), map[string]any{"out": string(out2)})
			return
		}
		padded := append(bytes.Repeat([]byte(" "), off), src...)
		t2 := 0
		if msg, cls := c10Compare(c, padded, sf2.Body.(*hclsyntax.Body), wf2.Body(), "root", &t2); msg != "" {
			c.Violation("fragment/tree-view/"+cls, fmt.Sprintf("loaded at start %#v: %s", start, msg), nil)
			return
		}
		c.Count("fragment-start-positions-agreed")
	}
	items := len(sf.Body.(*hclsyntax.Body).Attributes) + len(sf.Body.(*hclsyntax.Body).Blocks)
	if items >= 2 && trav >= 1 {
		c.NonTrivial(string(src))
	} else if items >= 1 && trav >= 1 && len(src) < 80 {
		c.NonTrivial(string(src))
	}
	if c.WantSample() {
		c.Sample(map[string]any{"src": trunc(string(src), 300), "traversals": trav})
	}
}

func travSig(t hcl.Traversal) string {
	var sb strings.Builder
	for i, s := range t {
		switch st := s.(type) {
		case hcl.TraverseRoot:
			sb.WriteString(st.Name)
		case hcl.TraverseAttr:
			sb.WriteString("." + st.Name)
		case hcl.TraverseIndex:
			sb.WriteString("[" + st.Key.GoString() + "]")
		case hcl.TraverseSplat:
			sb.WriteString("[*]")
		default:
			fmt.Fprintf(&sb, "?%d", i)
		}
	}
	return sb.String()
}

func c10Compare(c *core.Case, src []byte, sb *hclsyntax.Body, wb *hclwrite.Body, path string, trav *int) (string, string) {
	wattrs := wb.Attributes()
	if len(wattrs) != len(sb.Attributes) {
		return fmt.Sprintf("%s: hclsyntax sees %d attributes, hclwrite tree exposes %d", path, len(sb.Attributes), len(wattrs)), "attribute-count"
	}
	names := make([]string, 0, len(sb.Attributes))
	for n := range sb.Attributes {
		names = append(names, n)
	}
	sort.Strings(names)
	for _, n := range names {
		wa := wattrs[n]
		if wa == nil || wb.GetAttribute(n) == nil {
			return fmt.Sprintf("%s: attribute %q is not exposed by the hclwrite tree", path, n), "attribute-missing"
		}
		// variable references: same root names, in source order (hclwrite exposes no step accessor;
		// the steps' tokens are covered by the token-identity check above)
		sv := sb.Attributes[n].Expr.Variables()
		wv := wa.Expr().Variables()
		var ss, ws []string
		for _, t := range sv {
			// the source text of the traversal, spacing removed
			txt, _ := slice(src, t.SourceRange())
			ss = append(ss, t.RootName()+"|"+stripBlank([]byte(txt)))
		}
		for _, t := range wv {
			toks := t.BuildTokens(nil)
			root := ""
			for _, tk := range toks {
				if tk.Type == hclsyntax.TokenIdent {
					root = string(tk.Bytes)
					break
				}
			}
			ws = append(ws, root+"|"+stripBlank(toks.Bytes()))
		}
		*trav += len(ss)
		if strings.Join(ss, ",") != strings.Join(ws, ",") {
			return fmt.Sprintf("%s.%s: hclsyntax reports variables %v, the hclwrite tree reports %v", path, n, ss, ws), "variables"
		}
		c.Count("attr-variables-compared")
	}
	wblocks := wb.Blocks()
	if len(wblocks) != len(sb.Blocks) {
		return fmt.Sprintf("%s: hclsyntax sees %d blocks, hclwrite tree exposes %d", path, len(sb.Blocks), len(wblocks)), "block-count"
	}
	for i, blk := range sb.Blocks {
		w := wblocks[i]
		if w.Type() != blk.Type {
			return fmt.Sprintf("%s: block %d type %q vs %q", path, i, blk.Type, w.Type()), "block-type"
		}
		wl := w.Labels()
		if len(wl) != len(blk.Labels) {
			return fmt.Sprintf("%s: block %d (%s) has labels %q in the source but the hclwrite tree exposes %q", path, i, blk.Type, blk.Labels, wl), "labels"
		}
		for j := range wl {
			if wl[j] != blk.Labels[j] {
				return fmt.Sprintf("%s: block %d (%s) has labels %q in the source but the hclwrite tree exposes %q", path, i, blk.Type, blk.Labels, wl), "labels"
			}
		}
		c.Count("blocks-compared")
		if m, cl := c10Compare(c, src, blk.Body, w.Body(), fmt.Sprintf("%s/%s[%d]", path, blk.Type, i), trav); m != "" {
			return m, cl
		}
	}
	return "", ""
}
