package mon

import (
	"fmt"
	"sort"
	"strings"

	"github.com/hashicorp/hcl/v2"
	"github.com/hashicorp/hcl/v2/ext/dynblock"
	"github.com/hashicorp/hcl/v2/hcldec"
	"github.com/hashicorp/hcl/v2/hclsyntax"
	hcljson "github.com/hashicorp/hcl/v2/json"
	"github.com/zclconf/go-cty/cty"

	"verifharness/core"
	"verifharness/gen"
)

func init() {
	Register(&Spec{
		ID:        "C08",
		Technique: "runtime monitoring: type-conformance and reference-interpreter monitors around hcldec.Decode / PartialDecode over generated spec trees and conforming/perturbed bodies, panic-guarded",
		Rule: "each case is an abstract body tree, an hcldec spec tree generated for it within the documented preconditions of every spec kind (Object, Attr incl. dynamic type, Literal, Block, BlockList, BlockTuple, BlockSet, BlockMap/BlockObject with 1-3 labels, BlockAttrs, BlockLabel, Default, Validate, Refine, TransformFunc, Min/MaxItems) and, in 60% of the cases, one perturbation of the body (missing required item, extra attribute/block, wrong literal type, wrong label count, duplicated or removed block); decoded natively and from a JSON encoding; the value's type must conform to ImpliedType(spec), and when no error is reported the value must equal the independent interpreter's; an interpreter-predicted violation must be reported as an error; the leftover body of a PartialDecode with half the specification is decoded twice with the other half and compared with the whole decode; directed bodies give dynamic blocks too few, the right number of and too many labels under every label-reading spec (map, object, label spec, label as the default of an argument); " +
			"non-trivial = the spec has >= 2 block specs or the body was perturbed; distinct by source + spec kinds",
		Assumptions: []string{"cty conversion defines attribute type conversion; hcldec.ImpliedType is used as the statement of the implied type"},
		Quick:       Plan{Batches: 16, PerBatch: 5000, MinNonTrivial: 25000},
		Thorough:    Plan{Batches: 64, PerBatch: 200000, MinNonTrivial: 300000},
		Case:        c08Case,
	})
}

func specKinds(sg *specGen) string {
	var ks []string
	for k := range sg.kindsUsed {
		ks = append(ks, k)
	}
	sort.Strings(ks)
	return strings.Join(ks, ",")
}

// perturbBody applies one random perturbation to the abstract tree.
func perturbBody(c *core.Case, body *gen.Body, want map[*gen.Attr]cty.Value, labelCounts map[string]int) string {
	r := c.Rng
	var bodies []*gen.Body
	body.Walk(func(b *gen.Body, d int) { bodies = append(bodies, b) })
	b := gen.Pick(r, bodies)
	switch r.Intn(10) {
	case 9: // an attribute set to null (a value of no particular type)
		for _, a := range b.Attrs() {
			na := &gen.Attr{Name: a.Name, Expr: gen.Null()}
			want[na] = cty.NullVal(cty.DynamicPseudoType)
			for i, it := range b.Items {
				if it.Attr == a {
					b.Items[i] = &gen.Item{Attr: na}
				}
			}
			return "null-literal"
		}
	case 8: // an attribute whose expression fails at evaluation time
		for _, a := range b.Attrs() {
			na := &gen.Attr{Name: a.Name, Expr: gen.Var("nosuchvar", cty.DynamicPseudoType)}
			want[na] = cty.NilVal
			for i, it := range b.Items {
				if it.Attr == a {
					b.Items[i] = &gen.Item{Attr: na}
				}
			}
			return "failing-expression"
		}
	case 0: // drop an attribute
		for i, it := range b.Items {
			if it.Attr != nil {
				b.Items = append(b.Items[:i:i], b.Items[i+1:]...)
				return "drop-attribute"
			}
		}
	case 1: // extra attribute
		n, v := litExpr(r, 1, 1)
		a := &gen.Attr{Name: "zz_extra", Expr: n}
		want[a] = v
		b.Items = append(b.Items, &gen.Item{Attr: a})
		return "extra-attribute"
	case 2: // change a literal's type
		for _, a := range b.Attrs() {
			var n *gen.Node
			var v cty.Value
			if want[a].Type() == cty.String || want[a].IsNull() {
				n, v = &gen.Node{Kind: gen.KTuple, Kids: []*gen.Node{gen.Num("1")}}, cty.TupleVal([]cty.Value{cty.NumberIntVal(1)})
			} else {
				n, v = gen.StrLit("not-a-"+want[a].Type().FriendlyName()), cty.StringVal("not-a-"+want[a].Type().FriendlyName())
			}
			na := &gen.Attr{Name: a.Name, Expr: n}
			want[na] = v
			for i, it := range b.Items {
				if it.Attr == a {
					b.Items[i] = &gen.Item{Attr: na}
				}
			}
			return "wrong-literal-type"
		}
	case 3: // duplicate a block
		for _, blk := range b.Blocks() {
			cp := &gen.Block{Type: blk.Type, Labels: append([]string(nil), blk.Labels...), Body: blk.Body}
			b.Items = append(b.Items, &gen.Item{Block: cp})
			return "duplicate-block"
		}
	case 4: // remove a block
		for i, it := range b.Items {
			if it.Block != nil {
				b.Items = append(b.Items[:i:i], b.Items[i+1:]...)
				return "remove-block"
			}
		}
	case 5: // wrong label count
		for _, blk := range b.Blocks() {
			if len(blk.Labels) > 0 && gen.Chance(r, 0.5) {
				blk.Labels = blk.Labels[:len(blk.Labels)-1]
			} else {
				blk.Labels = append(blk.Labels, "extra")
			}
			return "wrong-label-count"
		}
	case 6: // block of an unknown type
		b.Items = append(b.Items, &gen.Item{Block: &gen.Block{Type: "zz_unknown", Body: &gen.Body{}}})
		return "unknown-block-type"
	default: // remove all blocks of one type
		blks := b.Blocks()
		if len(blks) > 0 {
			ty := blks[0].Type
			var keep []*gen.Item
			for _, it := range b.Items {
				if it.Block == nil || it.Block.Type != ty {
					keep = append(keep, it)
				}
			}
			b.Items = keep
			return "remove-all-blocks-of-type"
		}
	}
	return "none"
}

// litJSON renders a literal AST as a JSON value for expression mode.
func litJSON(n *gen.Node) string {
	switch n.Kind {
	case gen.KNum:
		return n.Num
	case gen.KBool:
		if n.Bool {
			return "true"
		}
		return "false"
	case gen.KNull:
		return "null"
	case gen.KVar:
		return gen.JSONQuote(nil, "${"+n.Name+"}")
	case gen.KStr:
		s := strings.ReplaceAll(strings.ReplaceAll(n.Str, "${", "$${"), "%{", "%%{")
		return gen.JSONQuote(nil, s)
	case gen.KTuple:
		var parts []string
		for _, k := range n.Kids {
			parts = append(parts, litJSON(k))
		}
		return "[" + strings.Join(parts, ", ") + "]"
	case gen.KObject:
		var parts []string
		for i, k := range n.Keys {
			name := k.Name
			if k.Form != gen.KeyIdent {
				name = k.Expr.Str
			}
			parts = append(parts, gen.JSONQuote(nil, strings.ReplaceAll(strings.ReplaceAll(name, "${", "$${"), "%{", "%%{"))+": "+litJSON(n.Kids[i]))
		}
		return "{" + strings.Join(parts, ", ") + "}"
	}
	return "null"
}

func c08Case(c *core.Case) {
	r := c.Rng
	if c.Batch == 0 && c.Index == 0 {
		// directed: adjudicated finding (known_findings.json)
		spec := &hcldec.BlockMapSpec{TypeName: "b", LabelNames: []string{"k1", "k2"}, Nested: hcldec.ObjectSpec{"a": &hcldec.AttrSpec{Name: "a", Type: cty.String}}}
		f, _ := hclsyntax.ParseConfig([]byte(""), "e.hcl", hcl.InitialPos)
		c.SetInput("(empty body) decoded with BlockMapSpec{LabelNames: [k1, k2]}")
		val, _ := hcldec.Decode(f.Body, spec, nil)
		if errs := val.Type().TestConformance(hcldec.ImpliedType(spec)); len(errs) > 0 {
			c.Violation("type-nonconformance/BlockMapSpec-multi-label-empty", fmt.Sprintf("decoding an empty body with a two-label BlockMapSpec gives %s, implied type is %s", valStr(val), hcldec.ImpliedType(spec).FriendlyName()), nil)
		}
		c.NonTrivial("directed:blockmap-empty")
		return
	}
	if c.Index%50 == 1 {
		// directed: collection-of-blocks specs over an attribute of no particular
		// type. Blocks whose results cannot be unified must be answered with an
		// error (the implementation says "Unconsistent argument types"), never a panic.
		vals := []string{"null", "{ x = 1 }", "\"s\"", "1", "[1]", "{}", "true", "[]", "{ x = \"s\" }", "{ y = 1 }"}
		n := 2 + r.Intn(2)
		src := ""
		for i := 0; i < n; i++ {
			src += "b {\n  a = " + gen.Pick(r, vals) + "\n}\n"
		}
		nested := hcldec.ObjectSpec{"a": &hcldec.AttrSpec{Name: "a", Type: cty.DynamicPseudoType}}
		var spec hcldec.Spec
		kind := gen.Pick(r, []string{"list", "set", "tuple", "object"}) // (BlockMapSpec documents that it does not take attributes of type any: it panics by design)
		switch kind {
		case "list":
			spec = &hcldec.BlockListSpec{TypeName: "b", Nested: nested}
		case "set":
			spec = &hcldec.BlockSetSpec{TypeName: "b", Nested: nested}
		case "tuple":
			spec = &hcldec.BlockTupleSpec{TypeName: "b", Nested: nested}
		default:
			// labelled
			src = ""
			for i := 0; i < n; i++ {
				src += fmt.Sprintf("b \"l%d\" {\n  a = %s\n}\n", i, gen.Pick(r, vals))
			}
			if kind == "map" {
				spec = &hcldec.BlockMapSpec{TypeName: "b", LabelNames: []string{"k"}, Nested: nested}
			} else {
				spec = &hcldec.BlockObjectSpec{TypeName: "b", LabelNames: []string{"k"}, Nested: nested}
			}
		}
		c.SetInput(fmt.Sprintf("%s\nSPEC: Block%sSpec over AttrSpec{a, any}", src, kind))
		f, pd := hclsyntax.ParseConfig([]byte(src), "d.hcl", hcl.InitialPos)
		if pd.HasErrors() {
			panic("C08 directed body does not parse: " + src)
		}
		val, diags := hcldec.Decode(f.Body, spec, nil)
		c.Evals(1)
		c.Count("directed:dynamic-attribute-under-Block" + kind + "Spec")
		if errs := val.Type().TestConformance(hcldec.ImpliedType(spec)); len(errs) > 0 {
			cls := "type-nonconformance/dynamic-attribute-under-Block" + kind + "Spec"
			if val.RawEquals(cty.DynamicVal) && strings.Contains(diagStr(diags), "Unconsistent argument types") {
				// the adjudicated shape: the error is reported, the value is cty.DynamicVal
				cls = "type-nonconformance/Block" + kind + "Spec-unconsistent-types-answered-with-DynamicVal"
			}
			c.Violation(cls, fmt.Sprintf("%v\nvalue %s\ndiagnostics: %s", errs, valStr(val), diagStr(diags)), nil)
			return
		}
		c.NonTrivial("directed:" + src + kind)
		return
	}
	if c.Index%50 == 3 {
		// directed: one attribute read by two specs, one of which requires it (in
		// either order, at the top or inside a block, in both syntaxes): a body
		// without the attribute is in error, a body with it decodes to it twice
		req := &hcldec.AttrSpec{Name: "a", Type: cty.Number, Required: true}
		opt := &hcldec.AttrSpec{Name: "a", Type: cty.Number}
		var inner hcldec.Spec
		shape := gen.Pick(r, []string{"tuple(opt,req)", "tuple(req,opt)", "default(opt,req)", "object", "tuple(opt,opt,req)", "tuple(default(opt,literal),req)"})
		switch shape {
		case "tuple(opt,req)":
			inner = hcldec.TupleSpec{opt, req}
		case "tuple(req,opt)":
			inner = hcldec.TupleSpec{req, opt}
		case "default(opt,req)":
			inner = &hcldec.DefaultSpec{Primary: opt, Default: req}
		case "object":
			inner = hcldec.ObjectSpec{"x": opt, "y": req, "z": opt}
		case "tuple(opt,opt,req)":
			inner = hcldec.TupleSpec{opt, opt, req}
		default:
			inner = hcldec.TupleSpec{&hcldec.DefaultSpec{Primary: opt, Default: &hcldec.LiteralSpec{Value: cty.NumberIntVal(7)}}, req}
		}
		present := gen.Chance(r, 0.5)
		inBlock := gen.Chance(r, 0.5)
		asJSON := gen.Chance(r, 0.4)
		spec := inner
		if inBlock {
			spec = &hcldec.BlockSpec{TypeName: "b", Nested: inner, Required: true}
		}
		var src string
		switch {
		case asJSON && inBlock && present:
			src = `{"b": {"a": 5}}`
		case asJSON && inBlock:
			src = `{"b": {}}`
		case asJSON && present:
			src = `{"a": 5}`
		case asJSON:
			src = `{}`
		case inBlock && present:
			src = "b {\n  a = 5\n}\n"
		case inBlock:
			src = "b {\n}\n"
		case present:
			src = "a = 5\n"
		}
		c.SetInput(fmt.Sprintf("%s\nSPEC: %s, in a block: %v", src, shape, inBlock))
		var body hcl.Body
		if asJSON {
			jf, jd := hcljson.Parse([]byte(src), "d.json")
			if jd.HasErrors() {
				panic("C08 directed JSON body does not parse: " + src)
			}
			body = jf.Body
		} else {
			f, pd := hclsyntax.ParseConfig([]byte(src), "d.hcl", hcl.InitialPos)
			if pd.HasErrors() {
				panic("C08 directed body does not parse: " + src)
			}
			body = f.Body
		}
		val, diags := hcldec.Decode(body, spec, nil)
		c.Evals(1)
		c.Count("directed:attribute-read-by-two-specs/" + shape)
		if errs := val.Type().TestConformance(hcldec.ImpliedType(spec)); len(errs) > 0 {
			c.Violation("type-nonconformance/attribute-read-by-two-specs", fmt.Sprintf("%v\nvalue %s\ndiagnostics: %s", errs, valStr(val), diagStr(diags)), nil)
			return
		}
		if !present && !diags.HasErrors() {
			c.Violation("violation-not-reported/required-attribute-read-by-two-specs/"+shape, fmt.Sprintf("the body has no argument a, one of the specs that read it requires it, and decoding reports no error; value %s", valStr(val)), nil)
			return
		}
		if present {
			if diags.HasErrors() {
				c.Violation("spurious-error/attribute-read-by-two-specs/"+shape, fmt.Sprintf("the argument is present but decoding reports: %s", diagStr(diags)), nil)
				return
			}
			five := 0
			cty.Walk(val, func(p cty.Path, v cty.Value) (bool, error) {
				if v.Type() == cty.Number && v.IsKnown() && !v.IsNull() && v.RawEquals(cty.NumberIntVal(5)) {
					five++
				}
				return true, nil
			})
			wantFive := map[string]int{"tuple(opt,req)": 2, "tuple(req,opt)": 2, "default(opt,req)": 1, "object": 3, "tuple(opt,opt,req)": 3, "tuple(default(opt,literal),req)": 2}[shape]
			if five != wantFive {
				c.Violation("value-differs/attribute-read-by-two-specs/"+shape, fmt.Sprintf("a = 5 read by %s gives %s", shape, valStr(val)), nil)
				return
			}
		}
		c.NonTrivial("directed:" + src + shape + fmt.Sprint(inBlock))
		return
	}
	if c.Index%50 == 2 {
		// directed: blocks generated by a dynamic block with too few, the right number of, or too
		// many labels, under every spec that reads labels: an error (or the value), never a panic
		want := 1 + r.Intn(2)
		have := r.Intn(4)
		var ls []string
		for i := 0; i < have; i++ {
			ls = append(ls, fmt.Sprintf("\"l%d\"", i))
		}
		labelsArg := "  labels = [" + strings.Join(ls, ", ") + "]\n"
		if have == 0 && gen.Chance(r, 0.5) {
			labelsArg = ""
		}
		coll := gen.Pick(r, []string{"[1]", "[1, 2]", "unk", "{a = 1}"})
		src := "dynamic \"b\" {\n  for_each = " + coll + "\n" + labelsArg + "  content {\n    a = 1\n  }\n}\n"
		names := []string{"k1", "k2"}[:want]
		nested := hcldec.ObjectSpec{"a": &hcldec.AttrSpec{Name: "a", Type: cty.Number}}
		var spec hcldec.Spec
		kind := gen.Pick(r, []string{"map", "object", "list-with-label-spec", "single-with-label-default"})
		switch kind {
		case "map":
			spec = &hcldec.BlockMapSpec{TypeName: "b", LabelNames: names, Nested: nested}
		case "object":
			spec = &hcldec.BlockObjectSpec{TypeName: "b", LabelNames: names, Nested: nested}
		case "list-with-label-spec":
			n := hcldec.ObjectSpec{"a": nested["a"]}
			for i := 0; i < want; i++ {
				n[fmt.Sprintf("l%d", i)] = &hcldec.BlockLabelSpec{Index: i, Name: names[i]}
			}
			spec = &hcldec.BlockListSpec{TypeName: "b", Nested: n}
		default:
			n := hcldec.ObjectSpec{"a": nested["a"], "name": &hcldec.DefaultSpec{Primary: &hcldec.AttrSpec{Name: "name", Type: cty.String}, Default: &hcldec.BlockLabelSpec{Index: want - 1, Name: names[want-1]}}}
			spec = &hcldec.BlockTupleSpec{TypeName: "b", Nested: n}
		}
		c.SetInput(fmt.Sprintf("%s\nSPEC: %s asking for %d label(s)", src, kind, want))
		f, pd := hclsyntax.ParseConfig([]byte(src), "d.hcl", hcl.InitialPos)
		if pd.HasErrors() {
			panic("C08 directed dynamic body does not parse: " + src)
		}
		ctx := &hcl.EvalContext{Variables: map[string]cty.Value{"unk": cty.UnknownVal(cty.List(cty.String))}}
		val, diags := hcldec.Decode(dynblock.Expand(f.Body, ctx), spec, ctx)
		c.Evals(1)
		c.Count("directed:dynamic-block-label-count/" + kind)
		if errs := val.Type().TestConformance(hcldec.ImpliedType(spec)); len(errs) > 0 {
			if kind == "map" && want == 2 && val.Type().IsMapType() && val.IsKnown() && val.LengthInt() == 0 {
				// the adjudicated shape: no block survives, and a two-label map spec answers with the one-level empty map
				c.Violation("type-nonconformance/BlockMapSpec-multi-label-empty", fmt.Sprintf("decoding a body without usable b blocks with a two-label BlockMapSpec gives %s, implied type is %s", valStr(val), hcldec.ImpliedType(spec).FriendlyName()), nil)
				return
			}
			c.Violation("type-nonconformance/dynamic-block-label-count/"+kind, fmt.Sprintf("%v\nvalue %s\ndiagnostics: %s", errs, valStr(val), diagStr(diags)), nil)
			return
		}
		if have != want && !diags.HasErrors() {
			c.Violation("violation-not-reported/dynamic-block-label-count/"+kind, fmt.Sprintf("the dynamic block gives %d label(s), the specification asks for %d, and no error is reported; value %s", have, want, valStr(val)), nil)
			return
		}
		if have == want && diags.HasErrors() && coll == "[1]" {
			c.Violation("spurious-error/dynamic-block-label-count/"+kind, fmt.Sprintf("the dynamic block gives the %d label(s) asked for but decoding reports: %s", want, diagStr(diags)), nil)
			return
		}
		c.NonTrivial("directed:" + src + kind)
		return
	}
	labelCounts := map[string]int{}
	body, want := litBodyLevel(r, 1, gen.BodyOpts{MaxDepth: 3, MaxItems: 4, MaxLabels: 3, LabelLevel: 1, FixedLabels: labelCounts,
		AttrNames: []string{"a", "b", "c", "name", "id", "count"}, BlockTypes: []string{"blk", "svc", "nested", "x-y"}})
	if gen.Chance(r, 0.15) {
		// sibling blocks whose label sequences differ but contain the separator
		// characters an implementation might join them with
		var bodies []*gen.Body
		body.Walk(func(b *gen.Body, d int) { bodies = append(bodies, b) })
		b := gen.Pick(r, bodies)
		for _, blk := range b.Blocks() {
			if len(blk.Labels) >= 2 {
				sep := gen.Pick(r, []string{".", "/", ",", " ", ":", "\x00"})
				rest := blk.Labels[2:]
				l1 := append([]string{"a" + sep + "b", "c"}, rest...)
				l2 := append([]string{"a", "b" + sep + "c"}, rest...)
				b.Items = append(b.Items, &gen.Item{Block: &gen.Block{Type: blk.Type, Labels: l1, Body: &gen.Body{}}}, &gen.Item{Block: &gen.Block{Type: blk.Type, Labels: l2, Body: &gen.Body{}}})
				c.Count("sibling-blocks-with-separator-labels")
				break
			}
		}
	}
	sg := &specGen{r: r, labelCounts: labelCounts, want: want, kindsUsed: map[string]int{}}
	spec := sg.bodySpec([]*gen.Body{body}, false, 0)
	pert := "none"
	if gen.Chance(r, 0.6) {
		pert = perturbBody(c, body, want, labelCounts)
	}
	c.Count("perturbation:" + pert)
	expVal, expOK := sg.expectTop(spec, body)
	implied := hcldec.ImpliedType(spec)
	native := gen.RenderNative(body, gen.CanonicalFileLayout())
	enc := &gen.JSONEnc{R: r, ExprJSON: litJSON, LabelCounts: labelCounts, OrderPreserving: true, Comments: gen.Chance(r, 0.3)}
	jsonSrc := enc.Body(body, true)
	for route, src := range map[string]string{"native": native, "json": jsonSrc} {
		var hb hcl.Body
		if route == "native" {
			f, d := hclsyntax.ParseConfig([]byte(src), "b.hcl", hcl.InitialPos)
			if d.HasErrors() {
				c.Count("skipped:native-rendering-does-not-parse")
				continue
			}
			hb = f.Body
		} else {
			if pert == "wrong-label-count" || pert == "wrong-literal-type" {
				// the JSON reading of a document is schema-directed (json/spec.md):
				// with a label-count mismatch the documents are not "the same" (DESIGN §4.8)
				if pert == "wrong-label-count" {
					continue
				}
			}
			f, d := hcljson.Parse([]byte(src), "b.json")
			if d.HasErrors() {
				c.SetInput(src)
				c.Violation("json-rendering-rejected", fmt.Sprintf("the JSON encoding of a body does not parse: %s\n%s", diagStr(d), trunc(src, 500)), nil)
				return
			}
			hb = f.Body
		}
		c.SetInput(fmt.Sprintf("%s\nSPEC KINDS: %s\nPERTURBATION: %s", src, specKinds(sg), pert))
		ctx := &hcl.EvalContext{}
		val, diags := hcldec.Decode(hb, spec, ctx)
		c.Evals(1)
		c.Count("route:" + route)
		if val == cty.NilVal {
			c.Violation("nil-value/"+route, "Decode returned cty.NilVal", nil)
			return
		}
		if errs := val.Type().TestConformance(implied); len(errs) > 0 {
			c.Violation("type-nonconformance/"+route+"/"+pert, fmt.Sprintf("decoded value of type %s does not conform to the implied type %s: %v\nvalue %s\ndiagnostics: %s", val.Type().FriendlyName(), implied.FriendlyName(), errs, valStr(val), trunc(diagStr(diags), 300)), nil)
			return
		}
		c.Count("type-conformance-held")
		if !expOK {
			if !diags.HasErrors() {
				c.Violation("violation-not-reported/"+route+"/"+pert, fmt.Sprintf("the body violates the specification (perturbation %s) but Decode reports no error; value %s", pert, valStr(val)), nil)
				return
			}
			c.Count("violations-reported")
		} else {
			if diags.HasErrors() {
				c.Violation("spurious-error/"+route+"/"+firstSummary(diags), fmt.Sprintf("the body conforms to the specification but Decode reports: %s", trunc(diagStr(diags), 400)), nil)
				return
			}
			if !val.RawEquals(expVal) {
				c.Violation("value-differs/"+route, fmt.Sprintf("decoded value differs from the specification's meaning\n expected %s\n got      %s", valStr(expVal), valStr(val)), nil)
				return
			}
			c.Count("values-agreed")
		}
		// PartialDecode must agree on the value when nothing is left over
		pv, _, pd := hcldec.PartialDecode(hb, spec, ctx)
		c.Evals(1)
		if errs := pv.Type().TestConformance(implied); len(errs) > 0 {
			c.Violation("type-nonconformance/partial-"+route+"/"+pert, fmt.Sprintf("PartialDecode value of type %s does not conform to %s: %v", pv.Type().FriendlyName(), implied.FriendlyName(), errs), nil)
			return
		}
		if expOK && !pd.HasErrors() && !pv.RawEquals(expVal) {
			c.Violation("value-differs/partial-"+route, fmt.Sprintf("PartialDecode value differs\n expected %s\n got      %s", valStr(expVal), valStr(pv)), nil)
			return
		}
		// a leftover body is a value: decoding it twice gives the same result, and
		// what it gives are the corresponding parts of the whole decode
		if obj := spec; len(obj) >= 2 && expOK {
			first, second := hcldec.ObjectSpec{}, hcldec.ObjectSpec{}
			for i, k := range gen.SortedKeys(obj) {
				if i%2 == 0 {
					first[k] = obj[k]
				} else {
					second[k] = obj[k]
				}
			}
			_, left, ld := hcldec.PartialDecode(hb, first, ctx)
			if !ld.HasErrors() && left != nil {
				r1, e1 := hcldec.Decode(left, second, ctx)
				r2, e2 := hcldec.Decode(left, second, ctx)
				c.Evals(3)
				if e1.HasErrors() != e2.HasErrors() || !r1.RawEquals(r2) {
					c.Violation("leftover-decodes-differently-twice/"+route, fmt.Sprintf("the leftover of a PartialDecode decodes to %s (errors=%v) the first time and to %s (errors=%v) the second time", valStr(r1), e1.HasErrors(), valStr(r2), e2.HasErrors()), nil)
					return
				}
				if !e1.HasErrors() && r1.Type().IsObjectType() && val.Type().IsObjectType() {
					for k := range second {
						if r1.Type().HasAttribute(k) && val.Type().HasAttribute(k) && !r1.GetAttr(k).RawEquals(val.GetAttr(k)) {
							c.Violation("leftover-value-differs/"+route, fmt.Sprintf("decoding the leftover gives %s for %q, decoding the whole body gives %s", valStr(r1.GetAttr(k)), k, valStr(val.GetAttr(k))), nil)
							return
						}
					}
				}
				c.Count("leftovers-decoded-twice-alike")
			}
		}
	}
	nblk := 0
	for k, v := range sg.kindsUsed {
		if strings.HasPrefix(k, "Block") && k != "BlockLabelSpec" {
			nblk += v
		}
		c.CountN("spec:"+k, v)
	}
	if nblk >= 2 || pert != "none" {
		c.NonTrivial(native + specKinds(sg) + pert)
	}
	if c.WantSample() {
		c.Sample(map[string]any{"native": trunc(native, 250), "json": trunc(jsonSrc, 200), "spec_kinds": specKinds(sg), "perturbation": pert, "conforms": expOK})
	}
}
