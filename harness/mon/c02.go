package mon

import (
	"fmt"
	"math/rand"
	"sort"
	"strings"

	"github.com/hashicorp/hcl/v2"
	"github.com/hashicorp/hcl/v2/hclsyntax"
	"github.com/zclconf/go-cty/cty"

	"verifharness/core"
	"verifharness/gen"
)

func init() {
	Register(&Spec{
		ID:        "C02",
		Technique: "runtime monitoring: render-then-parse monitor — abstract body trees are rendered in many layouts, parsed, and read back through Content / PartialContent / JustAttributes and compared with the tree that was rendered",
		Rule: "each case is an abstract body tree (attributes with literal/constant values incl. keyword-like, dashed and non-ASCII names; blocks with 0-3 labels over the full label alphabet, nesting to depth 4, one-line and empty blocks) rendered canonically and in 3 random layouts (indentation, blank lines, #, // and /* */ comments before/after/inside items and inside block headers, bare vs quoted labels with every escape form, LF/CRLF, missing final newline, BOM); every rendering must parse without errors to exactly the tree; 1 case in 6 duplicates an attribute name in one body and must be rejected in every rendering; 1 case in 150 adds 150-450 sibling one-line blocks to one body (wide rather than deep); " +
			"non-trivial = the tree has >= 3 items and >= 1 block; distinct by canonical rendering",
		Assumptions: []string{"attribute values are literals and constant constructors whose expected value is built alongside the AST", "label strings are compared after NFC normalisation"},
		Quick:       Plan{Batches: 16, PerBatch: 1200, MinNonTrivial: 6000},
		Thorough:    Plan{Batches: 64, PerBatch: 60000, MinNonTrivial: 300000},
		Case:        c02Case,
	})
}

// litExpr builds a literal/constant expression AST together with its value.
func litExpr(r *rand.Rand, depth int, strLevel int) (*gen.Node, cty.Value) {
	k := r.Intn(9)
	if depth <= 0 && k >= 6 {
		k = r.Intn(6)
	}
	switch k {
	case 0, 1:
		t := gen.NumText(r)
		return gen.Num(t), gen.NumVal(t)
	case 2, 3:
		s := gen.Str(r, strLevel)
		if gen.Chance(r, 0.2) {
			// template introducers and their escapes as literal text
			s += gen.Pick(r, []string{"%{", "${", "%%{x}", "$${y}", "%", "$", "90%{z}", "%{ if }"})
		}
		return gen.StrLit(s), cty.StringVal(s)
	case 4:
		b := gen.Chance(r, 0.5)
		return gen.Bool(b), cty.BoolVal(b)
	case 5:
		return gen.Null(), cty.NullVal(cty.DynamicPseudoType)
	case 6, 7:
		n := r.Intn(4)
		node := &gen.Node{Kind: gen.KTuple}
		var vals []cty.Value
		for i := 0; i < n; i++ {
			kn, kv := litExpr(r, depth-1, strLevel)
			node.Kids = append(node.Kids, kn)
			vals = append(vals, kv)
		}
		if n == 0 {
			return node, cty.EmptyTupleVal
		}
		return node, cty.TupleVal(vals)
	default:
		n := r.Intn(4)
		node := &gen.Node{Kind: gen.KObject}
		m := map[string]cty.Value{}
		for i := 0; i < n; i++ {
			name := gen.Pick(r, []string{"a", "b", "c", "id", "name", "in", "if", "x-y", "é", "//", "#", "a b"})
			if _, dup := m[name]; dup {
				continue
			}
			kn, kv := litExpr(r, depth-1, strLevel)
			key := gen.ObjKey{Form: gen.KeyIdent, Name: name}
			if name == "//" || name == "#" || name == "a b" || gen.Chance(r, 0.3) {
				key = gen.ObjKey{Form: gen.KeyQuoted, Expr: gen.StrLit(name)}
			}
			node.Keys = append(node.Keys, key)
			node.Kids = append(node.Kids, kn)
			m[name] = kv
		}
		if len(m) == 0 {
			return node, cty.EmptyObjectVal
		}
		return node, cty.ObjectVal(m)
	}
}

// litBody generates an abstract body with literal attribute values; the
// expected values are recorded per attribute node.
func litBody(r *rand.Rand, opts gen.BodyOpts) (*gen.Body, map[*gen.Attr]cty.Value) {
	return litBodyLevel(r, 2, opts)
}

// litBodyLevel is litBody with a chosen string alphabet level.
// litHeredocs makes litBodyLevel produce heredoc-valued attributes too (C02 only).
var litHeredocs bool

func litBodyLevel(r *rand.Rand, strLevel int, opts gen.BodyOpts) (*gen.Body, map[*gen.Attr]cty.Value) {
	want := map[*gen.Attr]cty.Value{}
	vals := map[*gen.Node]cty.Value{}
	opts.ExprFn = func(rr *rand.Rand) *gen.Node {
		if litHeredocs && gen.Chance(rr, 0.08) {
			// a heredoc value (plain or flush): what follows it must still be read
			// as structure, in every line-ending style
			nl := 1 + rr.Intn(3)
			var lines []string
			for i := 0; i < nl; i++ {
				lines = append(lines, gen.Pick(rr, []string{"text", "two words", "x = 1", "}", "b {", "EOT2", "a  b"}))
			}
			marker := gen.Pick(rr, []string{"EOT", "END", "E_1"})
			var sb strings.Builder
			val := ""
			if gen.Chance(rr, 0.5) {
				sb.WriteString("<<" + marker + "\n")
				for _, l := range lines {
					sb.WriteString(l + "\n")
					val += l + "\n"
				}
				sb.WriteString(gen.Pick(rr, []string{"", "  "}) + marker + "\n")
			} else {
				sb.WriteString("<<-" + marker + "\n")
				for _, l := range lines {
					sb.WriteString("    " + l + "\n")
					val += l + "\n"
				}
				sb.WriteString(gen.Pick(rr, []string{"", "  ", "    "}) + marker + "\n")
			}
			n := &gen.Node{Kind: gen.KRaw, Bool: true, Str: sb.String(), Ty: cty.String}
			vals[n] = cty.StringVal(val)
			return n
		}
		n, v := litExpr(rr, 2, strLevel)
		vals[n] = v
		return n
	}
	b := gen.GenBody(r, opts, 0)
	b.Walk(func(bb *gen.Body, d int) {
		for _, a := range bb.Attrs() {
			want[a] = vals[a.Expr]
		}
	})
	return b, want
}

func schemaFor(b *gen.Body, labelCounts map[string]int) *hcl.BodySchema {
	s := &hcl.BodySchema{}
	for _, a := range b.Attrs() {
		s.Attributes = append(s.Attributes, hcl.AttributeSchema{Name: a.Name})
	}
	seen := map[string]bool{}
	for _, blk := range b.Blocks() {
		if seen[blk.Type] {
			continue
		}
		seen[blk.Type] = true
		var names []string
		for i := 0; i < labelCounts[blk.Type]; i++ {
			names = append(names, fmt.Sprintf("l%d", i))
		}
		s.Blocks = append(s.Blocks, hcl.BlockHeaderSchema{Type: blk.Type, LabelNames: names})
	}
	return s
}

// compareTree reads a parsed body back and compares it with the abstract tree.
func compareTree(c *core.Case, hb hcl.Body, b *gen.Body, want map[*gen.Attr]cty.Value, labelCounts map[string]int, path string) (string, string) {
	schema := schemaFor(b, labelCounts)
	cont, d := hb.Content(schema)
	c.Evals(1)
	if d.HasErrors() {
		return "content-error", fmt.Sprintf("%s: Content with the schema of the written tree reports: %s", path, diagStr(d))
	}
	pc, rem, d2 := hb.PartialContent(schema)
	c.Evals(1)
	if d2.HasErrors() {
		return "partial-content-error", fmt.Sprintf("%s: PartialContent reports: %s", path, diagStr(d2))
	}
	if len(pc.Attributes) != len(cont.Attributes) || len(pc.Blocks) != len(cont.Blocks) {
		return "partial-vs-content", fmt.Sprintf("%s: PartialContent returned %d attributes/%d blocks, Content %d/%d", path, len(pc.Attributes), len(pc.Blocks), len(cont.Attributes), len(cont.Blocks))
	}
	if ra, rd := rem.JustAttributes(); rd.HasErrors() || len(ra) != 0 {
		if len(b.Blocks()) == 0 {
			return "remain-not-empty", fmt.Sprintf("%s: the remaining body after consuming everything still has %d attributes (errors: %s)", path, len(ra), diagStr(rd))
		}
	}
	attrs := b.Attrs()
	if len(cont.Attributes) != len(attrs) {
		return "attribute-count", fmt.Sprintf("%s: wrote %d attributes, read %d", path, len(attrs), len(cont.Attributes))
	}
	for _, a := range attrs {
		got, ok := cont.Attributes[a.Name]
		if !ok {
			return "attribute-missing", fmt.Sprintf("%s: attribute %q was written but is not exposed", path, a.Name)
		}
		v, vd := got.Expr.Value(nil)
		c.Evals(1)
		if vd.HasErrors() {
			return "attribute-value-error", fmt.Sprintf("%s.%s: evaluating the literal fails: %s", path, a.Name, diagStr(vd))
		}
		if a.Expr.Kind == gen.KRaw && v.Type() == cty.String && v.IsKnown() && !v.IsNull() {
			// heredoc text in a CRLF file keeps its carriage returns
			v = cty.StringVal(strings.ReplaceAll(v.AsString(), "\r\n", "\n"))
		}
		if !v.RawEquals(want[a]) {
			return "attribute-value", fmt.Sprintf("%s.%s: wrote %s, read %s", path, a.Name, valStr(want[a]), valStr(v))
		}
		c.Count("attributes-read-back")
	}
	if len(b.Blocks()) == 0 {
		ja, jd := hb.JustAttributes()
		if jd.HasErrors() || len(ja) != len(attrs) {
			return "just-attributes", fmt.Sprintf("%s: JustAttributes on a block-free body gives %d attributes (errors: %s), wrote %d", path, len(ja), diagStr(jd), len(attrs))
		}
	}
	blocks := b.Blocks()
	if len(cont.Blocks) != len(blocks) {
		return "block-count", fmt.Sprintf("%s: wrote %d blocks, read %d", path, len(blocks), len(cont.Blocks))
	}
	for i, blk := range blocks {
		got := cont.Blocks[i]
		if got.Type != blk.Type {
			return "block-order-or-type", fmt.Sprintf("%s: block %d written as %s, read as %s", path, i, blk.Type, got.Type)
		}
		if len(got.Labels) != len(blk.Labels) {
			return "label-count", fmt.Sprintf("%s: block %d (%s) written with labels %q, read %q", path, i, blk.Type, blk.Labels, got.Labels)
		}
		for j := range blk.Labels {
			if nfc(got.Labels[j]) != nfc(blk.Labels[j]) {
				return "label-value", fmt.Sprintf("%s: block %d (%s) label %d written as %q, read as %q", path, i, blk.Type, j, blk.Labels[j], got.Labels[j])
			}
		}
		c.Count("blocks-read-back")
		if rule, msg := compareTree(c, got.Body, blk.Body, want, labelCounts, fmt.Sprintf("%s/%s[%d]", path, blk.Type, i)); rule != "" {
			return rule, msg
		}
	}
	return "", ""
}

func c02Case(c *core.Case) {
	r := c.Rng
	labelCounts := map[string]int{}
	opts := gen.BodyOpts{MaxDepth: 4, MaxItems: 5, MaxLabels: 3, LabelLevel: 2, FixedLabels: labelCounts}
	litHeredocs = true
	body, want := litBody(r, opts)
	litHeredocs = false
	wide := c.Index%150 == 10
	if wide {
		// wide rather than deep: some hundreds of sibling blocks in one body
		var bodies []*gen.Body
		body.Walk(func(b *gen.Body, d int) { bodies = append(bodies, b) })
		b := gen.Pick(r, bodies)
		n := 150 + r.Intn(300)
		typ := gen.Pick(r, []string{"wide", "w", "blk"})
		if _, used := labelCounts[typ]; used {
			typ = "wide_" + typ // (label counts are per block type across the tree)
		}
		labelCounts[typ] = 0
		for i := 0; i < n; i++ {
			e, v := litExpr(r, 0, 1)
			a := &gen.Attr{Name: "a", Expr: e}
			want[a] = v
			b.Items = append(b.Items, &gen.Item{Block: &gen.Block{Type: typ, Body: &gen.Body{Items: []*gen.Item{{Attr: a}}}}})
		}
		c.Count("wide-bodies")
	}
	dup := c.Index%6 == 5
	if dup {
		// duplicate one attribute name in a random body that has an attribute
		var cands []*gen.Body
		body.Walk(func(b *gen.Body, d int) {
			if len(b.Attrs()) > 0 {
				cands = append(cands, b)
			}
		})
		if len(cands) == 0 {
			dup = false
		} else {
			b := gen.Pick(r, cands)
			a := gen.Pick(r, b.Attrs())
			n, _ := litExpr(r, 1, 1)
			item := &gen.Item{Attr: &gen.Attr{Name: a.Name, Expr: n}}
			pos := r.Intn(len(b.Items) + 1)
			b.Items = append(b.Items[:pos:pos], append([]*gen.Item{item}, b.Items[pos:]...)...)
		}
	}
	canon := gen.RenderNative(body, gen.CanonicalFileLayout())
	c.SetInput(canon)
	items, blocks := 0, 0
	body.Walk(func(b *gen.Body, d int) {
		items += len(b.Items)
		blocks += len(b.Blocks())
	})
	var sigs []string
	for li := 0; li < 4; li++ {
		fl := gen.CanonicalFileLayout()
		desc := "canonical"
		if li > 0 {
			fl = gen.RandomFileLayout(r)
			if wide && li == 1 {
				fl.OneLine = true
			}
			desc = fmt.Sprintf("layout(indent=%q,comments=%v,crlf=%v,nofinalnl=%v,bom=%v,oneline=%v,bare=%.1f)", fl.Indent, fl.Comments, fl.CRLF, fl.NoFinalNL, fl.BOM, fl.OneLine, fl.BareLabel)
			for k, on := range map[string]bool{"comments": fl.Comments, "crlf": fl.CRLF, "no-final-newline": fl.NoFinalNL, "bom": fl.BOM, "one-line-blocks": fl.OneLine} {
				if on {
					c.Count("layout:" + k)
				}
			}
		}
		src := gen.RenderNative(body, fl)
		f, d := hclsyntax.ParseConfig([]byte(src), "t.hcl", hcl.InitialPos)
		c.Evals(1)
		if dup {
			if !d.HasErrors() {
				c.SetInput(src)
				c.Violation("duplicate-attribute-accepted", fmt.Sprintf("a body that defines an attribute twice parses without error in %s:\n%s", desc, trunc(src, 600)), nil)
				return
			}
			c.Count("duplicate-attribute-rejected")
			continue
		}
		if d.HasErrors() {
			c.SetInput(src)
			c.Violation("valid-structure-rejected/"+firstSummary(d), fmt.Sprintf("%s of a grammatical tree is rejected: %s\n%s", desc, diagStr(d), trunc(src, 800)), nil)
			return
		}
		if rule, msg := compareTree(c, f.Body, body, want, labelCounts, "root"); rule != "" {
			c.SetInput(src)
			c.Violation("read-back/"+rule, fmt.Sprintf("%s: %s\nsource:\n%s", desc, msg, trunc(src, 800)), nil)
			return
		}
		sigs = append(sigs, desc)
		c.Count("renderings-read-back")
	}
	if !dup && items >= 3 && blocks >= 1 {
		c.NonTrivial(canon)
	}
	if dup {
		c.NonTrivial("dup:" + canon)
	}
	if c.WantSample() {
		c.Sample(map[string]any{"canonical": trunc(canon, 300), "items": items, "blocks": blocks, "duplicate_case": dup})
	}
	_ = sort.Strings
	_ = strings.Join
}
