package mon

import (
	"fmt"
	"math/rand"
	"strings"

	"github.com/hashicorp/hcl/v2"
	"github.com/hashicorp/hcl/v2/ext/dynblock"
	"github.com/hashicorp/hcl/v2/hcldec"
	"github.com/hashicorp/hcl/v2/hclsyntax"
	"github.com/zclconf/go-cty/cty"

	"verifharness/core"
	"verifharness/gen"
)

func init() {
	Register(&Spec{
		ID:        "C18",
		Technique: "runtime monitoring: differential monitor between a body written with dynamic blocks and the same body written out by the harness (iterator references substituted on the harness AST), decoded under generated specifications; conformance and partial-equality monitors for unknown for_each; expansion-variable pruning",
		Rule: "each case is a body tree with repetition groups (block type, labels computed from the iterator, content with attributes referring to the iterator's key/value, to outer iterators and to scope variables, nested static blocks and nested groups to depth 3, default and custom iterator names incl. names that shadow scope variables or an enclosing iterator) over collections of every iterable kind (tuple, list, set, map, object; literal or from the scope; sizes 0-4; primitive and object elements), rendered once with dynamic blocks and once written out, both decoded with hcldec under a spec generated over all block spec kinds (incl. BlockAttrs and single Block), natively; 1 case in 5 makes one for_each unknown (typed, refined or dynamic); every specification is also applied piecewise (PartialDecode, PartialDecode of the remainder, Decode of the rest) to both forms; " +
			"non-trivial = at least one group has >= 2 elements or is nested; distinct by dynamic source + spec kinds",
		Assumptions: []string{"cty's element iteration order defines 'iteration order' for sets", "element values are primitives or objects of primitives so that substituting them as literals preserves their type"},
		Quick:       Plan{Batches: 16, PerBatch: 1200, MinNonTrivial: 5000},
		Thorough:    Plan{Batches: 64, PerBatch: 20000, MinNonTrivial: 250000},
		Case:        c18Case,
	})
}

// ---------------------------------------------------------------- abstract tree with groups

type dElem struct{ k, v cty.Value }

type dGroup struct {
	Type      string
	Iter      string // effective iterator name
	Custom    bool   // written with `iterator = ...`
	CollSrc   string // source text of for_each
	CollExpr  *gen.Node
	Elems     []dElem
	Labels    []*gen.Node // label expressions (may reference the iterator)
	Content   *dBody
	Unknown   bool // for_each made unknown in the dynamic rendering
	UnknownAs cty.Value
	ObjElems  bool
}

type dItem struct {
	Attr  *gen.Attr
	Block *dBlock
	Group *dGroup
}

type dBlock struct {
	Type   string
	Labels []string
	Body   *dBody
}

type dBody struct{ Items []*dItem }

type c18Gen struct {
	r            *rand.Rand
	sc           *gen.Scope
	labelCounts  map[string]int
	iters        []string // iterator names in scope (outermost first)
	itersObj     []bool   // whether the iterator's values are objects {id, name}
	nGroups      int
	bigGroup     bool
	nested       bool
	marked       bool
	unknownElems bool
}

func iterRef(iter, field string) *gen.Node {
	return &gen.Node{Kind: gen.KAttr, Name: field, Kids: []*gen.Node{gen.Var(iter, cty.DynamicPseudoType)}, Ty: cty.DynamicPseudoType}
}

// contentExpr builds an attribute expression inside a group's content.
func (g *c18Gen) contentExpr() *gen.Node {
	r := g.r
	if len(g.iters) == 0 || gen.Chance(r, 0.25) {
		n, _ := litExpr(r, 1, 1)
		return n
	}
	idx := len(g.iters) - 1
	if len(g.iters) > 1 && gen.Chance(r, 0.35) {
		idx = r.Intn(len(g.iters) - 1) // an outer iterator
	}
	it := g.iters[idx]
	obj := g.itersObj[idx]
	val := iterRef(it, "value")
	if obj {
		val = &gen.Node{Kind: gen.KAttr, Name: gen.Pick(r, []string{"id", "name"}), Kids: []*gen.Node{val}, Ty: cty.DynamicPseudoType}
	}
	switch r.Intn(7) {
	case 0:
		return val
	case 1:
		return iterRef(it, "key")
	case 2:
		return &gen.Node{Kind: gen.KTuple, Kids: []*gen.Node{iterRef(it, "key"), val}}
	case 3:
		return &gen.Node{Kind: gen.KTemplate, Parts: []gen.TPart{{Kind: gen.TInterp, Expr: iterRef(it, "key")}, {Kind: gen.TLit, Lit: "-"}, {Kind: gen.TInterp, Expr: val}}, Ty: cty.String}
	case 4:
		return &gen.Node{Kind: gen.KObject, Keys: []gen.ObjKey{{Form: gen.KeyIdent, Name: "k"}, {Form: gen.KeyIdent, Name: "v"}}, Kids: []*gen.Node{iterRef(it, "key"), val}}
	case 5:
		return &gen.Node{Kind: gen.KBinary, Op: "==", Kids: []*gen.Node{iterRef(it, "key"), iterRef(it, "key")}}
	default:
		return &gen.Node{Kind: gen.KCond, Kids: []*gen.Node{gen.Var("f", cty.Bool), val, val}}
	}
}

func (g *c18Gen) collection(iter string) (string, *gen.Node, []dElem, bool) {
	r := g.r
	n := r.Intn(5)
	objElems := gen.Chance(r, 0.3)
	mk := func(i int) cty.Value {
		if objElems {
			return cty.ObjectVal(map[string]cty.Value{"id": cty.NumberIntVal(int64(10 + i)), "name": cty.StringVal(gen.Pick(r, []string{"web", "db", "x y", "a.b", ""}))})
		}
		switch r.Intn(3) {
		case 0:
			return cty.NumberIntVal(int64(r.Intn(50)))
		case 1:
			return cty.BoolVal(gen.Chance(r, 0.5))
		}
		return cty.StringVal(gen.Pick(r, []string{"a", "b", "web", "db", "x y", "", "é", "k1", "a.b"}))
	}
	var v cty.Value
	kind := r.Intn(5)
	if objElems && kind == 2 {
		kind = 1
	}
	switch kind {
	case 0: // tuple
		if n == 0 {
			v = cty.EmptyTupleVal
		} else {
			vs := make([]cty.Value, n)
			for i := range vs {
				vs[i] = mk(i)
			}
			v = cty.TupleVal(vs)
		}
	case 1: // list
		ety := mk(0).Type()
		if n == 0 {
			v = cty.ListValEmpty(ety)
		} else {
			vs := make([]cty.Value, n)
			first := mk(0)
			for i := range vs {
				for {
					vs[i] = mk(i)
					if vs[i].Type().Equals(first.Type()) {
						break
					}
				}
			}
			v = cty.ListVal(vs)
		}
	case 2: // set of strings
		if n == 0 {
			v = cty.SetValEmpty(cty.String)
		} else {
			vs := make([]cty.Value, n)
			for i := range vs {
				vs[i] = cty.StringVal(gen.Pick(r, []string{"a", "b", "web", "db", "x y", "é", "k1"}))
			}
			v = cty.SetVal(vs)
		}
	case 3: // map
		ety := mk(0).Type()
		if n == 0 {
			v = cty.MapValEmpty(ety)
		} else {
			m := map[string]cty.Value{}
			first := mk(0)
			for i := 0; i < n; i++ {
				var ev cty.Value
				for {
					ev = mk(i)
					if ev.Type().Equals(first.Type()) {
						break
					}
				}
				m[gen.Pick(r, []string{"a", "b", "k1", "web", "x y", "", "é", "0"})] = ev
			}
			v = cty.MapVal(m)
		}
	default: // object
		if n == 0 {
			v = cty.EmptyObjectVal
		} else {
			m := map[string]cty.Value{}
			for i := 0; i < n; i++ {
				m[gen.Pick(r, []string{"a", "b", "k1", "web", "name", "id"})] = mk(i)
			}
			v = cty.ObjectVal(m)
		}
	}
	if !objElems && n > 0 && (kind == 0 || kind == 1 || kind == 3 || kind == 4) && gen.Chance(r, 0.12) {
		// a known collection one of whose elements is unknown: still one block per element
		g.unknownElems = true
		switch kind {
		case 0:
			vs := v.AsValueSlice()
			i := r.Intn(len(vs))
			vs[i] = cty.UnknownVal(vs[i].Type())
			v = cty.TupleVal(vs)
		case 1:
			vs := v.AsValueSlice()
			vs[r.Intn(len(vs))] = cty.UnknownVal(v.Type().ElementType())
			v = cty.ListVal(vs)
		case 3:
			m := v.AsValueMap()
			ks := gen.SortedKeys(m)
			m[gen.Pick(r, ks)] = cty.UnknownVal(v.Type().ElementType())
			v = cty.MapVal(m)
		default:
			m := v.AsValueMap()
			ks := gen.SortedKeys(m)
			k := gen.Pick(r, ks)
			m[k] = cty.UnknownVal(m[k].Type())
			v = cty.ObjectVal(m)
		}
	}
	var elems []dElem
	for it := v.ElementIterator(); it.Next(); {
		k, ev := it.Element()
		elems = append(elems, dElem{k, ev})
	}
	// literal in the source, or through a scope variable (lists, sets and maps exist only that way)
	ty := v.Type()
	viaVar := ty.IsListType() || ty.IsSetType() || ty.IsMapType() || !v.IsWhollyKnown() || gen.Chance(r, 0.3)
	if viaVar {
		name := fmt.Sprintf("coll%d", g.nGroups)
		if gen.Chance(r, 0.3) {
			// a scope variable with the iterator's own name: for_each is evaluated
			// outside the iterator's scope, so this is the scope variable
			_, taken := g.sc.Vars[iter]
			for _, en := range g.iters {
				taken = taken || en == iter
			}
			if !taken {
				name = iter
			}
		}
		if gen.Chance(r, 0.15) {
			v = v.Mark("m")
			g.marked = true
		}
		g.sc.Set(name, v)
		return name, gen.Var(name, ty), elems, objElems
	}
	node := gen.LitNode(v)
	return gen.RenderExpr(node, &gen.Layout{}), node, elems, objElems
}

func (g *c18Gen) body(depth int) *dBody {
	r := g.r
	b := &dBody{}
	n := 1 + r.Intn(4)
	used := map[string]bool{}
	for i := 0; i < n; i++ {
		switch c := r.Intn(10); {
		case c < 4:
			name := gen.Pick(r, []string{"a", "b", "c", "name", "id"})
			if used[name] {
				continue
			}
			used[name] = true
			b.Items = append(b.Items, &dItem{Attr: &gen.Attr{Name: name, Expr: g.contentExpr()}})
		case c < 6 && depth > 0:
			ty := gen.Pick(r, []string{"blk", "svc", "rule"})
			nl, ok := g.labelCounts[ty]
			if !ok {
				nl = r.Intn(3)
				g.labelCounts[ty] = nl
			}
			var labels []string
			for j := 0; j < nl; j++ {
				labels = append(labels, gen.Label(r, 0))
			}
			b.Items = append(b.Items, &dItem{Block: &dBlock{Type: ty, Labels: labels, Body: g.body(depth - 1)}})
		case depth > 0:
			b.Items = append(b.Items, &dItem{Group: g.group(depth - 1)})
		}
	}
	return b
}

func (g *c18Gen) group(depth int) *dGroup {
	r := g.r
	g.nGroups++
	ty := gen.Pick(r, []string{"blk", "svc", "rule"})
	nl, ok := g.labelCounts[ty]
	if !ok {
		nl = r.Intn(3)
		g.labelCounts[ty] = nl
	}
	grp := &dGroup{Type: ty, Iter: ty}
	if gen.Chance(r, 0.45) {
		grp.Custom = true
		grp.Iter = gen.Pick(r, []string{"it", "each", "n", "f", "rule", "blk", "svc", "x"}) // some shadow scope variables or other block types
	}
	var objElems bool
	grp.CollSrc, grp.CollExpr, grp.Elems, objElems = g.collection(grp.Iter)
	if len(g.iters) > 0 && gen.Chance(r, 0.25) {
		// inner for_each built from the outer iterator
		outer := g.iters[len(g.iters)-1]
		if !g.itersObj[len(g.itersObj)-1] {
			grp.CollExpr = &gen.Node{Kind: gen.KTuple, Kids: []*gen.Node{iterRef(outer, "value"), gen.StrLit("x")}}
			grp.CollSrc = gen.RenderExpr(grp.CollExpr, &gen.Layout{})
			grp.Elems = nil // depends on the outer element: computed at expansion time
			objElems = false
		}
	}
	if len(grp.Elems) >= 2 {
		g.bigGroup = true
	}
	if len(g.iters) > 0 {
		g.nested = true
	}
	grp.ObjElems = objElems
	g.iters = append(g.iters, grp.Iter)
	g.itersObj = append(g.itersObj, objElems)
	for j := 0; j < nl; j++ {
		switch r.Intn(3) {
		case 0:
			grp.Labels = append(grp.Labels, gen.StrLit(gen.Label(r, 0)))
		case 1:
			grp.Labels = append(grp.Labels, &gen.Node{Kind: gen.KTemplate, Parts: []gen.TPart{{Kind: gen.TLit, Lit: "l"}, {Kind: gen.TInterp, Expr: iterRef(grp.Iter, "key")}}, Ty: cty.String})
		default:
			grp.Labels = append(grp.Labels, &gen.Node{Kind: gen.KTemplate, Parts: []gen.TPart{{Kind: gen.TInterp, Expr: iterRef(grp.Iter, "key")}, {Kind: gen.TLit, Lit: "_"}}, Ty: cty.String})
		}
	}
	grp.Content = g.body(depth)
	g.iters = g.iters[:len(g.iters)-1]
	g.itersObj = g.itersObj[:len(g.itersObj)-1]
	return grp
}

// ---------------------------------------------------------------- rendering D (dynamic)

func renderD(b *dBody, indent string, sb *strings.Builder) {
	for _, it := range b.Items {
		switch {
		case it.Attr != nil:
			fmt.Fprintf(sb, "%s%s = %s\n", indent, it.Attr.Name, gen.RenderExpr(it.Attr.Expr, &gen.Layout{}))
		case it.Block != nil:
			sb.WriteString(indent + it.Block.Type)
			for _, l := range it.Block.Labels {
				fmt.Fprintf(sb, " %q", l)
			}
			sb.WriteString(" {\n")
			renderD(it.Block.Body, indent+"  ", sb)
			sb.WriteString(indent + "}\n")
		default:
			g := it.Group
			fmt.Fprintf(sb, "%sdynamic %q {\n", indent, g.Type)
			src := g.CollSrc
			if g.Unknown {
				src = "unk"
			}
			fmt.Fprintf(sb, "%s  for_each = %s\n", indent, src)
			if g.Custom {
				fmt.Fprintf(sb, "%s  iterator = %s\n", indent, g.Iter)
			}
			if len(g.Labels) > 0 {
				var ls []string
				for _, l := range g.Labels {
					ls = append(ls, gen.RenderExpr(l, &gen.Layout{}))
				}
				fmt.Fprintf(sb, "%s  labels = [%s]\n", indent, strings.Join(ls, ", "))
			}
			fmt.Fprintf(sb, "%s  content {\n", indent)
			renderD(g.Content, indent+"    ", sb)
			fmt.Fprintf(sb, "%s  }\n%s}\n", indent, indent)
		}
	}
}

// ---------------------------------------------------------------- writing out W

type iterEnv struct {
	name string
	k, v cty.Value
	// ref names a scope variable holding v when v cannot be spelled as a literal
	ref  string
	next *iterEnv
}

// valNode spells the bound element's value.
func (e *iterEnv) valNode() *gen.Node {
	if e.ref != "" {
		return gen.Var(e.ref, e.v.Type())
	}
	return gen.LitNode(e.v)
}

var c18RefCounter int

func (e *iterEnv) lookup(name string) *iterEnv {
	for x := e; x != nil; x = x.next {
		if x.name == name {
			return x
		}
	}
	return nil
}

// subst replaces iterator references by literals of the bound element.
func subst(n *gen.Node, env *iterEnv) *gen.Node {
	if n == nil {
		return nil
	}
	if n.Kind == gen.KAttr && len(n.Kids) == 1 && n.Kids[0].Kind == gen.KVar && (n.Name == "key" || n.Name == "value") {
		if b := env.lookup(n.Kids[0].Name); b != nil {
			if n.Name == "key" {
				return gen.LitNode(b.k)
			}
			return b.valNode()
		}
	}
	if n.Kind == gen.KVar {
		// a bare reference to a name that an iterator shadows is the iterator object
		if b := env.lookup(n.Name); b != nil {
			if b.ref != "" {
				return &gen.Node{Kind: gen.KObject, Keys: []gen.ObjKey{{Form: gen.KeyIdent, Name: "key"}, {Form: gen.KeyIdent, Name: "value"}}, Kids: []*gen.Node{gen.LitNode(b.k), b.valNode()}}
			}
			return gen.LitNode(cty.ObjectVal(map[string]cty.Value{"key": b.k, "value": b.v}))
		}
	}
	c := *n
	c.Kids = make([]*gen.Node, len(n.Kids))
	for i, k := range n.Kids {
		c.Kids[i] = subst(k, env)
	}
	c.Keys = make([]gen.ObjKey, len(n.Keys))
	for i, k := range n.Keys {
		c.Keys[i] = k
		c.Keys[i].Expr = subst(k.Expr, env)
	}
	c.Parts = make([]gen.TPart, len(n.Parts))
	for i, p := range n.Parts {
		c.Parts[i] = p
		c.Parts[i].Expr = subst(p.Expr, env)
	}
	return &c
}

// writeOut expands the groups on the harness AST. skipGroups lists groups to
// leave out entirely (used for the unknown for_each comparison).
// shapeMode gives every group without elements one synthetic element, so that
// a spec can be derived that covers every block type at every position.
var shapeMode bool

// hasAttrs reports whether the body holds an attribute directly.
func (b *dBody) hasAttrs() bool {
	for _, it := range b.Items {
		if it.Attr != nil {
			return true
		}
	}
	return false
}

// topLevelOnly reports whether g is a top-level item of the tree and the only
// top-level item of its block type.
func topLevelOnly(tree *dBody, g *dGroup) bool {
	found := false
	for _, it := range tree.Items {
		switch {
		case it.Group == g:
			found = true
		case it.Group != nil && it.Group.Type == g.Type:
			return false
		case it.Block != nil && it.Block.Type == g.Type:
			return false
		}
	}
	return found
}

// c18Visited counts how often writeOut reached each group (also skipped ones).
var c18Visited map[*dGroup]int

func writeOut(b *dBody, env *iterEnv, ctx *hcl.EvalContext, skip map[*dGroup]bool) (*gen.Body, string) {
	out := &gen.Body{}
	for _, it := range b.Items {
		switch {
		case it.Attr != nil:
			out.Items = append(out.Items, &gen.Item{Attr: &gen.Attr{Name: it.Attr.Name, Expr: subst(it.Attr.Expr, env)}})
		case it.Block != nil:
			nb, msg := writeOut(it.Block.Body, env, ctx, skip)
			if msg != "" {
				return nil, msg
			}
			out.Items = append(out.Items, &gen.Item{Block: &gen.Block{Type: it.Block.Type, Labels: it.Block.Labels, Body: nb}})
		default:
			g := it.Group
			if c18Visited != nil {
				c18Visited[g]++
			}
			if skip[g] {
				continue
			}
			elems := g.Elems
			if elems == nil && g.CollExpr.Kind != gen.KVar {
				// collection depends on outer iterators: evaluate the substituted expression
				src := gen.RenderExpr(subst(g.CollExpr, env), &gen.Layout{})
				e, d := hclsyntax.ParseExpression([]byte(src), "coll.hcl", hcl.InitialPos)
				if d.HasErrors() {
					return nil, "harness: substituted collection does not parse: " + src
				}
				v, vd := e.Value(ctx)
				if vd.HasErrors() {
					return nil, "harness: substituted collection does not evaluate: " + src
				}
				for ei := v.ElementIterator(); ei.Next(); {
					k, ev := ei.Element()
					elems = append(elems, dElem{k, ev})
				}
			}
			if shapeMode && len(elems) == 0 {
				sv := cty.StringVal("x")
				if g.ObjElems {
					sv = cty.ObjectVal(map[string]cty.Value{"id": cty.NumberIntVal(1), "name": cty.StringVal("x")})
				}
				elems = []dElem{{cty.StringVal("k"), sv}}
			}
			for _, el := range elems {
				inner := &iterEnv{name: g.Iter, k: el.k, v: el.v, next: env}
				if !el.v.IsWhollyKnown() {
					// not spellable as a literal: the written-out form refers to a
					// scope variable that holds exactly this value
					c18RefCounter++
					inner.ref = fmt.Sprintf("unkel%d", c18RefCounter)
					ctx.Variables[inner.ref] = el.v
				}
				var labels []string
				for _, l := range g.Labels {
					src := gen.RenderExpr(subst(l, inner), &gen.Layout{})
					e, d := hclsyntax.ParseExpression([]byte(src), "label.hcl", hcl.InitialPos)
					if d.HasErrors() {
						return nil, "harness: substituted label does not parse: " + src
					}
					v, vd := e.Value(ctx)
					if vd.HasErrors() || v.Type() != cty.String {
						return nil, "harness: substituted label does not evaluate to a string: " + src
					}
					labels = append(labels, v.AsString())
				}
				nb, msg := writeOut(g.Content, inner, ctx, skip)
				if msg != "" {
					return nil, msg
				}
				out.Items = append(out.Items, &gen.Item{Block: &gen.Block{Type: g.Type, Labels: labels, Body: nb}})
			}
		}
	}
	return out, ""
}

// specForW builds a spec over the written-out body: every attribute dynamic,
// block kinds chosen at random among those the written-out body satisfies.
func (g *c18Gen) specForW(bodies []*gen.Body, kinds map[string]int) hcldec.Spec {
	r := g.r
	obj := hcldec.ObjectSpec{}
	seenA := map[string]bool{}
	for _, b := range bodies {
		for _, a := range b.Attrs() {
			if !seenA[a.Name] {
				seenA[a.Name] = true
				obj[a.Name] = &hcldec.AttrSpec{Name: a.Name, Type: cty.DynamicPseudoType}
			}
		}
	}
	byType := map[string][]*gen.Body{}
	maxPer := map[string]int{}
	onlyAttrs := map[string]bool{}
	var order []string
	for _, b := range bodies {
		per := map[string]int{}
		for _, blk := range b.Blocks() {
			if _, ok := byType[blk.Type]; !ok {
				order = append(order, blk.Type)
				onlyAttrs[blk.Type] = true
			}
			byType[blk.Type] = append(byType[blk.Type], blk.Body)
			per[blk.Type]++
			if len(blk.Body.Blocks()) > 0 {
				onlyAttrs[blk.Type] = false
			}
		}
		for t, n := range per {
			if n > maxPer[t] {
				maxPer[t] = n
			}
		}
	}
	// every block type that can occur here (also when expansion yields none)
	for _, ty := range order {
		nl := g.labelCounts[ty]
		nested := g.specForW(byType[ty], kinds)
		withLabels := func() hcldec.Spec {
			o := nested.(hcldec.ObjectSpec)
			for i := 0; i < nl; i++ {
				o[fmt.Sprintf("label%d", i)] = &hcldec.BlockLabelSpec{Index: i, Name: fmt.Sprintf("l%d", i)}
			}
			return o
		}
		opts := []string{"tuple", "tuple"}
		if nl >= 1 {
			opts = append(opts, "object")
		}
		if maxPer[ty] <= 1 {
			opts = append(opts, "single")
			if nl == 0 && onlyAttrs[ty] && !c18NoAttrsKind {
				opts = append(opts, "attrs")
			}
		}
		k := gen.Pick(r, opts)
		kinds[k]++
		name := "blk_" + ty
		switch k {
		case "tuple":
			obj[name] = &hcldec.BlockTupleSpec{TypeName: ty, Nested: withLabels()}
		case "object":
			obj[name] = &hcldec.BlockObjectSpec{TypeName: ty, LabelNames: labelNames(nl), Nested: nested}
		case "single":
			obj[name] = &hcldec.BlockSpec{TypeName: ty, Nested: withLabels()}
		case "attrs":
			obj[name] = &hcldec.BlockAttrsSpec{TypeName: ty, ElementType: cty.String}
		}
	}
	return obj
}

// c18NoAttrsKind keeps BlockAttrsSpec out of generated specs (set by C07, which
// pins that kind with a directed case: adjudicated finding).
var c18NoAttrsKind bool

type c18Prog struct {
	dsrc  string
	spec  hcldec.Spec
	sc    *gen.Scope
	kinds map[string]int
}

// c18Build generates one body with dynamic blocks and a spec for it (used by C17).
func c18Build(r *rand.Rand) *c18Prog {
	c18RefCounter = 0
	shapeMode = false
	sc := gen.NewScope(r, gen.ValOpts{StrLevel: 1})
	sc.Set("f", cty.BoolVal(gen.Chance(r, 0.5)))
	g := &c18Gen{r: r, sc: sc, labelCounts: map[string]int{}}
	tree := g.body(3)
	if g.nGroups == 0 {
		return nil
	}
	ctx := evalCtx(sc)
	var dsb strings.Builder
	renderD(tree, "", &dsb)
	wbody, msg := writeOut(tree, nil, ctx, nil)
	if msg != "" {
		return nil
	}
	shapeMode = true
	shape, smsg := writeOut(tree, nil, ctx, nil)
	shapeMode = false
	if smsg != "" {
		return nil
	}
	kinds := map[string]int{}
	return &c18Prog{dsrc: dsb.String(), spec: g.specForW([]*gen.Body{wbody, shape}, kinds), sc: sc, kinds: kinds}
}

// knownLeaf finds a known, non-null primitive under v that does not come from a
// block label (label attributes are named label<i>).
func knownLeaf(v cty.Value, path string) string {
	v, _ = v.Unmark()
	if !v.IsKnown() || v.IsNull() {
		return ""
	}
	ty := v.Type()
	switch {
	case ty.IsPrimitiveType():
		return path + " = " + valStr(v)
	case ty.IsObjectType():
		for _, name := range gen.SortedKeys(ty.AttributeTypes()) {
			if strings.HasPrefix(name, "label") {
				continue
			}
			if m := knownLeaf(v.GetAttr(name), path+"."+name); m != "" {
				return m
			}
		}
	case ty.IsTupleType() || ty.IsListType() || ty.IsSetType() || ty.IsMapType():
		for it := v.ElementIterator(); it.Next(); {
			k, ev := it.Element()
			if m := knownLeaf(ev, path+"["+valStr(k)+"]"); m != "" {
				return m
			}
		}
	}
	return ""
}

func partKeys(parts []hcldec.ObjectSpec) [][]string {
	var out [][]string
	for _, p := range parts {
		out = append(out, gen.SortedKeys(p))
	}
	return out
}

func c18Case(c *core.Case) {
	c18RefCounter = 0
	shapeMode = false
	c18Visited = nil
	r := c.Rng
	sc := gen.NewScope(r, gen.ValOpts{StrLevel: 1})
	sc.Set("f", cty.BoolVal(gen.Chance(r, 0.5)))
	g := &c18Gen{r: r, sc: sc, labelCounts: map[string]int{}}
	tree := g.body(3)
	if g.nGroups == 0 {
		c.Count("skipped:no-group-generated")
		return
	}
	ctx := evalCtx(sc)
	if g.marked {
		c.Count("collections:some-marked")
	}
	// choose a group to make unknown in 1 case of 5
	var unkGroup *dGroup
	affectedTop := ""
	if c.Index%5 == 4 {
		type cand struct {
			g   *dGroup
			top string
		}
		var all []cand
		var walk func(b *dBody, top string)
		walk = func(b *dBody, top string) {
			for _, it := range b.Items {
				t := top
				switch {
				case it.Group != nil:
					if t == "" {
						t = it.Group.Type
					}
					all = append(all, cand{it.Group, t})
					walk(it.Group.Content, t)
				case it.Block != nil:
					if t == "" {
						t = it.Block.Type
					}
					walk(it.Block.Body, t)
				}
			}
		}
		walk(tree, "")
		if len(all) > 0 {
			ch := gen.Pick(r, all)
			unkGroup, affectedTop = ch.g, ch.top
			unkGroup.Unknown = true
			unkGroup.UnknownAs = gen.Pick(r, []cty.Value{cty.DynamicVal, cty.UnknownVal(cty.List(cty.String)), cty.UnknownVal(cty.Map(cty.Number)), cty.UnknownVal(cty.Set(cty.String)).RefineNotNull(), cty.UnknownVal(cty.List(cty.Bool)).Refine().CollectionLengthLowerBound(1).NewValue()})
		}
	}
	var dsb strings.Builder
	renderD(tree, "", &dsb)
	dsrc := dsb.String()
	wbody, msg := writeOut(tree, nil, ctx, nil)
	if msg != "" {
		c.Count("skipped:" + trunc(msg, 40))
		return
	}
	wsrc := gen.RenderNative(wbody, gen.CanonicalFileLayout())
	kinds := map[string]int{}
	shapeMode = true
	shape, smsg := writeOut(tree, nil, ctx, nil)
	shapeMode = false
	if smsg != "" {
		c.Count("skipped:" + trunc(smsg, 40))
		return
	}
	spec := g.specForW([]*gen.Body{wbody, shape}, kinds)
	if unkGroup != nil && topLevelOnly(tree, unkGroup) && g.labelCounts[unkGroup.Type] >= 1 && gen.Chance(r, 0.6) {
		// a map-of-blocks spec (one map level per label) for the block type whose
		// for_each is unknown; it only takes attributes of concrete types
		onlyAttrs := true
		for _, l := range unkGroup.Labels {
			// (labels computed from the unknown iterator are an error; the block is
			// then absent, and an absent multi-label block type is C08's known finding)
			if l.Kind != gen.KStr {
				onlyAttrs = false
			}
		}
		nested := hcldec.ObjectSpec{}
		for _, it := range unkGroup.Content.Items {
			if it.Attr == nil {
				onlyAttrs = false
				break
			}
			nested[it.Attr.Name] = &hcldec.AttrSpec{Name: it.Attr.Name, Type: cty.String}
		}
		if onlyAttrs {
			spec.(hcldec.ObjectSpec)["blk_"+unkGroup.Type] = &hcldec.BlockMapSpec{TypeName: unkGroup.Type, LabelNames: labelNames(g.labelCounts[unkGroup.Type]), Nested: nested}
			kinds["map"]++
		}
	}
	c.SetInput(fmt.Sprintf("DYNAMIC:\n%s\nWRITTEN OUT:\n%s\nSPEC BLOCK KINDS: %v\nSCOPE: %s", dsrc, wsrc, kinds, scopeStr(sc)))
	df, dd := hclsyntax.ParseConfig([]byte(dsrc), "d.hcl", hcl.InitialPos)
	wf, wd := hclsyntax.ParseConfig([]byte(wsrc), "w.hcl", hcl.InitialPos)
	if dd.HasErrors() || wd.HasErrors() {
		c.Count("skipped:rendering-does-not-parse")
		return
	}
	wval, wdiags := hcldec.Decode(wf.Body, spec, ctx)
	c.Evals(1)
	for k, v := range kinds {
		c.CountN("spec:"+k, v)
	}
	if unkGroup != nil {
		uctx := ctx.NewChild()
		uctx.Variables = map[string]cty.Value{"unk": unkGroup.UnknownAs}
		dval, ddiags := hcldec.Decode(dynblock.Expand(df.Body, uctx), spec, uctx)
		c.Evals(1)
		c.Count("route:unknown-for_each")
		implied := hcldec.ImpliedType(spec)
		if errs := dval.Type().TestConformance(implied); len(errs) > 0 {
			c.Violation("unknown-for_each/type-nonconformance", fmt.Sprintf("with an unknown for_each (%s) the decoded value of type %s does not conform to the implied type %s: %v\nvalue %s", valStr(unkGroup.UnknownAs), dval.Type().FriendlyName(), implied.FriendlyName(), errs, valStr(dval)), nil)
			return
		}
		// everything outside the affected block type equals the written-out body without that group
		c18Visited = map[*dGroup]int{}
		w2, msg2 := writeOut(tree, nil, ctx, map[*dGroup]bool{unkGroup: true})
		reached := c18Visited[unkGroup]
		c18Visited = nil
		if msg2 == "" && !ddiags.HasErrors() {
			w2f, w2d := hclsyntax.ParseConfig([]byte(gen.RenderNative(w2, gen.CanonicalFileLayout())), "w2.hcl", hcl.InitialPos)
			if !w2d.HasErrors() {
				w2val, w2diags := hcldec.Decode(w2f.Body, spec, ctx)
				c.Evals(1)
				if !w2diags.HasErrors() && dval.Type().IsObjectType() && w2val.Type().IsObjectType() {
					for name := range dval.Type().AttributeTypes() {
						if name == "blk_"+affectedTop {
							// (decided only when the content holds an attribute directly: single-block
							// and block-attributes specs decode an unknown body attribute by attribute,
							// so content without attributes has nothing that could be unknown; labels must be known
							// can decode, under single-block specs, to a value with
							// nothing in it that could be unknown)
							if reached > 0 && dval.GetAttr(name).IsWhollyKnown() && unkGroup.Content.hasAttrs() {
								c.Violation("unknown-for_each/affected-part-known", fmt.Sprintf("with an unknown for_each for %q (reached %d times), the affected part %q decodes to the wholly known value %s", unkGroup.Type, reached, name, valStr(dval.GetAttr(name))), nil)
								return
							}
							// with the unknown group at the top level and no static block of its
							// type beside it, nothing inside the affected part can be asserted:
							// every attribute value in it (at any depth) must be unknown
							if topLevelOnly(tree, unkGroup) {
								if leaf := knownLeaf(dval.GetAttr(name), name); leaf != "" {
									c.Violation("unknown-for_each/known-value-inside-affected-part", fmt.Sprintf("with an unknown for_each for %q, the affected part asserts a value although the number of blocks (possibly none) is unknown: %s\nwhole part: %s", unkGroup.Type, leaf, valStr(dval.GetAttr(name))), nil)
									return
								}
								c.Count("unknown-for_each:no-known-value-inside")
							}
							if reached > 0 && unkGroup.Content.hasAttrs() {
								c.Count("unknown-for_each:affected-part-unknown")
							}
							continue
						}
						if !w2val.Type().HasAttribute(name) {
							continue
						}
						if !sameVal(unmarked(dval.GetAttr(name)), unmarked(w2val.GetAttr(name))) {
							c.Violation("unknown-for_each/unaffected-part-differs", fmt.Sprintf("with an unknown for_each for %q, the unaffected part %q decodes to %s but to %s when written out", unkGroup.Type, name, valStr(dval.GetAttr(name)), valStr(w2val.GetAttr(name))), nil)
							return
						}
					}
					c.Count("unknown-for_each:unaffected-parts-agreed")
				}
			}
		}
		if g.bigGroup || g.nested {
			c.NonTrivial(dsrc + fmt.Sprint(kinds))
		}
		return
	}
	dval, ddiags := hcldec.Decode(dynblock.Expand(df.Body, ctx), spec, ctx)
	c.Evals(1)
	c.Count("route:known-for_each")
	if wdiags.HasErrors() != ddiags.HasErrors() {
		c.Violation("error-ness-differs", fmt.Sprintf("dynamic form errors=%v (%s), written-out form errors=%v (%s)", ddiags.HasErrors(), trunc(diagStr(ddiags), 400), wdiags.HasErrors(), trunc(diagStr(wdiags), 400)), nil)
		return
	}
	if !wdiags.HasErrors() && !sameVal(unmarked(dval), unmarked(wval)) {
		c.Violation("value-differs", fmt.Sprintf("the dynamic form decodes to\n %s\nthe written-out form to\n %s", valStr(dval), valStr(wval)), nil)
		return
	}
	if wdiags.HasErrors() {
		c.Count("forms-agreed:both-report-errors")
	} else {
		c.Count("forms-agreed:equal-values")
	}
	// "under any specification" includes one applied piecewise: two partial
	// decodes and a strict decode of what is left, on both forms
	if obj, ok := spec.(hcldec.ObjectSpec); ok && len(obj) >= 2 {
		parts := []hcldec.ObjectSpec{{}, {}, {}}
		for _, k := range gen.SortedKeys(obj) {
			parts[r.Intn(3)][k] = obj[k]
		}
		chain := func(b hcl.Body) ([]cty.Value, bool) {
			var vals []cty.Value
			errs := false
			for i, p := range parts {
				var v cty.Value
				var d hcl.Diagnostics
				if i < 2 {
					v, b, d = hcldec.PartialDecode(b, p, ctx)
				} else {
					v, d = hcldec.Decode(b, p, ctx)
				}
				c.Evals(1)
				vals = append(vals, v)
				errs = errs || d.HasErrors()
			}
			return vals, errs
		}
		dv, de := chain(dynblock.Expand(df.Body, ctx))
		wv, we := chain(wf.Body)
		if de != we {
			c.Violation("piecewise/error-ness-differs", fmt.Sprintf("decoding in three pieces (partial, partial, strict on the rest; spec split %v): dynamic form errors=%v, written-out form errors=%v", partKeys(parts), de, we), nil)
			return
		}
		if !we {
			for i := range dv {
				if !sameVal(unmarked(dv[i]), unmarked(wv[i])) {
					c.Violation("piecewise/value-differs", fmt.Sprintf("decoding in three pieces (spec split %v): piece %d of the dynamic form is %s, of the written-out form %s", partKeys(parts), i, valStr(dv[i]), valStr(wv[i])), nil)
					return
				}
			}
		}
		if !we && wdiags.HasErrors() || we && !wdiags.HasErrors() {
			c.Count("piecewise:error-ness-differs-from-one-step(both forms alike)")
		}
		c.Count("piecewise-decodes-agreed")
	}
	// expansion under a context pruned to the reported expansion variables
	roots := rootsOf(dynblock.ExpandVariablesHCLDec(df.Body, spec))
	pruned := map[string]cty.Value{}
	for _, n := range roots {
		if v, ok := sc.Vars[n]; ok {
			pruned[n] = v
		}
	}
	pval, pdiags := hcldec.Decode(dynblock.Expand(df.Body, ctxWith(pruned)), spec, ctx)
	c.Evals(1)
	if pdiags.HasErrors() != ddiags.HasErrors() || (!ddiags.HasErrors() && !sameVal(pval, dval)) {
		c.Violation("expand-variables-insufficient", fmt.Sprintf("expanding with only the reported expansion variables %v gives %s (errors=%v: %s), with the full scope %s (errors=%v)", roots, valStr(pval), pdiags.HasErrors(), trunc(diagStr(pdiags), 300), valStr(dval), ddiags.HasErrors()), nil)
		return
	}
	c.Count("expand-variables-sufficient")
	if g.bigGroup || g.nested {
		c.NonTrivial(dsrc + fmt.Sprint(kinds))
	}
	if c.WantSample() {
		c.Sample(map[string]any{"dynamic": trunc(dsrc, 300), "written_out": trunc(wsrc, 300), "spec_block_kinds": fmt.Sprint(kinds)})
	}
}
