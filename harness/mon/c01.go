package mon

import (
	"fmt"
	"strings"

	"github.com/hashicorp/hcl/v2"
	"github.com/hashicorp/hcl/v2/hclsyntax"
	"github.com/zclconf/go-cty/cty"

	"verifharness/core"
	"verifharness/gen"
	"verifharness/refeval"
)

func init() {
	Register(&Spec{
		ID:        "C01",
		Technique: "runtime monitoring: reference-model monitor (independent evaluator written from the specification) plus a model-free layout-invariance relation over every concrete layout of each generated AST",
		Rule: "each case is a generated expression/template AST (type-directed with a 15% error rate, depth <= 5, whole grammar: literals, all operators, conditionals, tuple/object constructors with every key form, index, attribute, legacy index, both splats with tails, for expressions incl. grouping and filtering, calls with conversion/variadic/expansion, templates with interpolation, unwrapping, strip markers, if/for directives) rendered in 1 canonical + 3 random layouts (spacing, newlines and comments inside brackets, redundant parentheses, quoted vs heredoc vs flush-heredoc templates, number spellings, string escapes, '='/':' and comma/newline in objects; stand-alone, as a body attribute, and as a bare template) and evaluated in 2 scopes of known values of every cty kind; judged against refeval and by equality of outcomes across layouts; " +
			"non-trivial = AST depth >= 2 and the reference evaluator decided the case (value or error); distinct by AST rendering + scope hash",
		Assumptions: []string{"go-cty conversion and unification (convert.Convert, UnifyUnsafe), number-to-string formatting and structural equality are the definition of the value domain", "arithmetic is carried out on 512-bit big.Float as the value domain does; the harness function bodies are shared with the reference evaluator, which does its own argument mapping"},
		Quick:       Plan{Batches: 16, PerBatch: 4000, MinNonTrivial: 30000},
		Thorough:    Plan{Batches: 64, PerBatch: 48000, MinNonTrivial: 300000},
		Case:        c01Case,
	})
}

// tupleize converts every list inside v to a tuple (splat results: the
// specification leaves the sequence kind open).
func tupleize(v cty.Value) cty.Value {
	if v == cty.NilVal || v.IsNull() || !v.IsKnown() {
		return v
	}
	ty := v.Type()
	switch {
	case ty.IsListType() || ty.IsTupleType():
		if v.LengthInt() == 0 {
			return cty.EmptyTupleVal
		}
		var elems []cty.Value
		for it := v.ElementIterator(); it.Next(); {
			_, ev := it.Element()
			elems = append(elems, tupleize(ev))
		}
		return cty.TupleVal(elems)
	case ty.IsMapType() || ty.IsObjectType():
		if v.LengthInt() == 0 {
			return v
		}
		m := map[string]cty.Value{}
		for it := v.ElementIterator(); it.Next(); {
			kv, ev := it.Element()
			m[kv.AsString()] = tupleize(ev)
		}
		if ty.IsMapType() {
			// element types may now differ
			return cty.ObjectVal(m)
		}
		return cty.ObjectVal(m)
	}
	return v
}

type c01Outcome struct {
	parseErr bool
	errs     bool
	val      cty.Value
	diags    string
}

func (o c01Outcome) key(loose bool) string {
	if o.parseErr {
		return "PARSE-ERROR"
	}
	if o.errs {
		return "ERROR"
	}
	v := o.val
	if loose {
		v = tupleize(v)
	}
	return v.GoString()
}

func c01Run(src string, mode int, ctx *hcl.EvalContext) c01Outcome {
	var e hcl.Expression
	switch mode {
	case 0:
		he, d := hclsyntax.ParseExpression([]byte(src), "p.hcl", hcl.InitialPos)
		if d.HasErrors() {
			return c01Outcome{parseErr: true, diags: diagStr(d)}
		}
		e = he
	case 1:
		f, d := hclsyntax.ParseConfig([]byte("a = "+src+"\n"), "p.hcl", hcl.InitialPos)
		if d.HasErrors() {
			return c01Outcome{parseErr: true, diags: diagStr(d)}
		}
		attrs, _ := f.Body.JustAttributes()
		a := attrs["a"]
		if a == nil {
			return c01Outcome{parseErr: true, diags: "attribute a missing"}
		}
		e = a.Expr
	default:
		he, d := hclsyntax.ParseTemplate([]byte(src), "p.tmpl", hcl.InitialPos)
		if d.HasErrors() {
			return c01Outcome{parseErr: true, diags: diagStr(d)}
		}
		e = he
	}
	v, d := e.Value(ctx)
	return c01Outcome{errs: d.HasErrors(), val: v, diags: diagStr(d)}
}

// judgeRef compares an implementation outcome with the reference result.
func judgeRef(o c01Outcome, ref refeval.Result) (string, string) {
	switch ref.Status {
	case refeval.Unspecified:
		return "", ""
	case refeval.Err:
		if !o.errs {
			return "error-expected", fmt.Sprintf("the specification makes this erroneous (%s) but evaluation returned %s without error", ref.Why, valStr(o.val))
		}
	case refeval.OK, refeval.ErrOrVal:
		if o.errs {
			if ref.Status == refeval.ErrOrVal {
				return "", ""
			}
			return "spurious-error", fmt.Sprintf("the specification assigns %s but evaluation failed: %s", valStr(ref.Val), trunc(o.diags, 400))
		}
		got, want := o.val, ref.Val
		if ref.LooseSeq {
			got, want = tupleize(got), tupleize(want)
		}
		if !sameVal(got, want) {
			return "value-differs", fmt.Sprintf("the specification assigns %s but evaluation returned %s", valStr(ref.Val), valStr(o.val))
		}
	}
	return "", ""
}

func toRefScope(sc *gen.Scope) *refeval.Scope {
	m := map[string]cty.Value{}
	for k, v := range sc.Vars {
		m[k] = v
	}
	return &refeval.Scope{Vars: m}
}

func c01Case(c *core.Case) {
	r := c.Rng
	if c.Batch == 0 && c.Index < len(c01Directed) {
		c01DirectedCase(c, c01Directed[c.Index])
		return
	}
	sc := gen.NewScope(r, gen.ValOpts{StrLevel: 1})
	g := gen.NewG(r, sc, 0.15)
	g.StrLevel = 1
	var ast *gen.Node
	bare := false
	if gen.Chance(r, 0.15) {
		ast = g.Template(1 + r.Intn(4))
		bare = gen.Chance(r, 0.5)
	} else {
		ast = g.Expr(gen.WAny, 1+r.Intn(5))
	}
	gen.FixTemplates(ast)
	gen.FixDollar(ast)
	canon := gen.RenderExpr(ast, &gen.Layout{})
	ev := &refeval.Evaluator{Funcs: stdFuncSpecs}
	scopes := []*gen.Scope{sc, gen.NewScope(r, gen.ValOpts{StrLevel: 1, NullProb: 0.1, EmptyProb: 0.2})}
	type lay struct {
		src  string
		mode int
		desc string
	}
	var layouts []lay
	layouts = append(layouts, lay{canon, 0, "canonical"})
	for i := 0; i < 3; i++ {
		l := gen.RandomLayout(r)
		mode := 0
		if gen.Chance(r, 0.35) {
			mode = 1
			l.Body = true
		}
		src := gen.RenderExpr(ast, l)
		desc := fmt.Sprintf("noise=%.1f", l.Noise)
		if l.UsedHeredoc {
			desc += ",heredoc"
			c.Count("layout:heredoc")
		}
		if l.UsedFlush {
			desc += ",flush"
			c.Count("layout:flush-heredoc")
		}
		if mode == 1 {
			desc += ",body-attribute"
			c.Count("layout:body-attribute")
		}
		if l.Parens > 0 {
			c.Count("layout:redundant-parens")
		}
		if l.Comments {
			c.Count("layout:comments")
		}
		if l.Newlines {
			c.Count("layout:newlines")
		}
		layouts = append(layouts, lay{src, mode, desc})
	}
	if bare && ast.Kind == gen.KTemplate && gen.BareTemplateEligible(ast) {
		layouts = append(layouts, lay{gen.RenderTemplateBody(ast, &gen.Layout{}), 2, "bare-template"})
		c.Count("layout:bare-template")
	}
	c.SetInput(canon + "\nSCOPE: " + scopeStr(sc))
	decided := false
	firsts := make([]c01Outcome, len(scopes))
	looses := make([]bool, len(scopes))
	for si, s := range scopes {
		ctx := evalCtx(s)
		ref := ev.Eval(ast, toRefScope(s))
		looses[si] = ref.LooseSeq
		c.Count("ref:" + []string{"value", "error", "unspecified", "error-or-value"}[ref.Status])
		if ref.Status == refeval.Unspecified {
			c.Count("unspecified:" + trunc(ref.Why, 60))
		} else {
			decided = true
		}
		var first c01Outcome
		for li, l := range layouts {
			o := c01Run(l.src, l.mode, ctx)
			c.Evals(1)
			if o.parseErr {
				c.Violation("layout-rejected/"+strings.SplitN(l.desc, ",", 2)[0], fmt.Sprintf("a grammatical layout (%s) of %s is rejected by the parser: %s\nlayout source: %q", l.desc, trunc(canon, 200), trunc(o.diags, 300), trunc(l.src, 600)), nil)
				return
			}
			if !o.errs && !unmarked(o.val).IsWhollyKnown() {
				c.Violation("unknown-from-known-scope/"+ast.Shape(), fmt.Sprintf("%s evaluated in a scope without unknown values produced %s", trunc(canon, 300), valStr(o.val)), nil)
				return
			}
			if li == 0 {
				first = o
				firsts[si] = o
				if rule, msg := judgeRef(o, ref); rule != "" {
					small := gen.Shrink(ast, func(n *gen.Node) bool {
						s2 := gen.RenderExpr(n, &gen.Layout{})
						o2 := c01Run(s2, 0, ctx)
						if o2.parseErr {
							return false
						}
						rl, _ := judgeRef(o2, ev.Eval(n, toRefScope(s)))
						return rl != ""
					})
					c.SetInput(canon + "\nSCOPE: " + scopeStr(s))
					c.Violation("spec/"+rule+"/"+small.Shape(), fmt.Sprintf("%s in scope %d (minimal sub-expression: %s)\n%s", trunc(canon, 300), si, gen.RenderExpr(small, &gen.Layout{}), msg), nil)
					return
				}
				continue
			}
			if o.key(ref.LooseSeq) != first.key(ref.LooseSeq) {
				c.SetInput(canon + "\nLAYOUT: " + l.src + "\nSCOPE: " + scopeStr(s))
				c.Violation("layout-dependent/"+c01LayoutShape(l.desc), fmt.Sprintf("two layouts of the same expression evaluate differently in the same scope\n canonical %q => %s\n %s %q => %s", trunc(canon, 300), trunc(first.key(false), 300), l.desc, trunc(l.src, 500), trunc(o.key(false), 300)), nil)
				return
			}
			c.Count("layouts-agreed")
		}
	}
	// the same scope spread over a chain of evaluation contexts (variables and
	// functions divided between a root and a leaf context, names of the leaf
	// shadowing decoys in the root, an empty context in between): names resolve
	// through the chain, so the outcome is that of the flat context
	for si, s := range scopes {
		ctx := chainCtx(r, s)
		o := c01Run(canon, 0, ctx)
		c.Evals(1)
		if o.parseErr {
			break
		}
		if o.key(looses[si]) != firsts[si].key(looses[si]) {
			c.SetInput(canon + "\nSCOPE: " + scopeStr(s))
			c.Violation("context-chain-differs/"+ast.Shape(), fmt.Sprintf("%s evaluated in a chain of contexts that together define the scope gives %s (%s), in one flat context %s", trunc(canon, 300), trunc(o.key(false), 300), trunc(o.diags, 200), trunc(firsts[si].key(false), 300)), nil)
			return
		}
		c.Count("context-chains-agreed")
	}
	// one parsed expression evaluated repeatedly (scope 0, scope 1, scope 0
	// again): an evaluation leaves nothing behind in the syntax tree, so each
	// result equals that of a freshly parsed expression in the same scope
	if he, pd := hclsyntax.ParseExpression([]byte(canon), "p.hcl", hcl.InitialPos); !pd.HasErrors() {
		for step, si := range []int{0, 1, 0} {
			v, d := he.Value(evalCtx(scopes[si]))
			c.Evals(1)
			o := c01Outcome{errs: d.HasErrors(), val: v, diags: diagStr(d)}
			if o.key(looses[si]) != firsts[si].key(looses[si]) {
				c.SetInput(canon + "\nSCOPE 0: " + scopeStr(scopes[0]) + "\nSCOPE 1: " + scopeStr(scopes[1]))
				c.Violation("re-evaluation-differs/"+ast.Shape(), fmt.Sprintf("%s parsed once and evaluated in scope 0, scope 1, scope 0: evaluation %d (scope %d) gives %s (%s), a freshly parsed expression gives %s in that scope", trunc(canon, 300), step+1, si, trunc(o.key(false), 300), trunc(o.diags, 200), trunc(firsts[si].key(false), 300)), nil)
				return
			}
		}
		c.Count("re-evaluations-agreed")
	}
	if decided && ast.Depth() >= 2 {
		c.NonTrivial(canon + scopeStr(sc))
		for _, k := range ast.KindsUsed() {
			c.Count("decided:" + k)
		}
	}
	if c.WantSample() {
		c.Sample(map[string]any{"expr": trunc(canon, 200), "a_layout": trunc(layouts[1].src, 200), "depth": ast.Depth()})
	}
}

func c01LayoutShape(desc string) string {
	var tags []string
	for _, t := range []string{"heredoc", "flush", "body-attribute", "bare-template"} {
		if strings.Contains(desc, t) {
			tags = append(tags, t)
		}
	}
	if len(tags) == 0 {
		return "quoted"
	}
	return strings.Join(tags, "+")
}

// ---------------------------------------------------------------- directed programs

type c01Dir struct {
	Src  string
	Want string // GoString of the expected value, or "ERR"
	Mode int
}

// c01Directed pins spec rules on concrete programs (expected values are
// written out from the specification text, not computed).
var c01Directed = []c01Dir{
	{`1 + 2 * 3`, `cty.NumberIntVal(7)`, 0}, {`(1 + 2) * 3`, `cty.NumberIntVal(9)`, 0}, {`10 - 4 - 3`, `cty.NumberIntVal(3)`, 0}, {`2 * 3 % 4`, `cty.NumberIntVal(2)`, 0},
	{`8 / 4 / 2`, `cty.NumberIntVal(1)`, 0}, {`1 < 2 == true`, `cty.True`, 0}, {`true || false && false`, `cty.True`, 0}, {`!true == false`, `cty.True`, 0}, {`-2 * -3`, `cty.NumberIntVal(6)`, 0},
	{`1 == 1 ? "a" : "b"`, `cty.StringVal("a")`, 0}, {`false ? 1 : true ? 2 : 3`, `cty.NumberIntVal(2)`, 0}, {`true ? 1 : "x"`, `cty.StringVal("1")`, 0}, {`true ? null : 5`, `cty.NullVal(cty.Number)`, 0},
	{`"1" == 1`, `cty.False`, 0}, {`[1] == [1]`, `cty.True`, 0}, {`null == null`, `cty.True`, 0}, {`"5" + 1`, `cty.NumberIntVal(6)`, 0}, {`"a" + 1`, `ERR`, 0}, {`true + 1`, `ERR`, 0}, {`1 + null`, `ERR`, 0}, {`!null`, `ERR`, 0},
	{`true && null`, `ERR`, 0}, {`null && true`, `ERR`, 0}, {`null && null`, `ERR`, 0}, {`null || false`, `ERR`, 0}, {`false || null`, `ERR`, 0}, {`null || null`, `ERR`, 0},
	{`[1, "a", true][1]`, `cty.StringVal("a")`, 0}, {`[1, 2]["1"]`, `cty.NumberIntVal(2)`, 0}, {`[1, 2][2]`, `ERR`, 0}, {`[1, 2][-1]`, `ERR`, 0}, {`[1, 2][0.5]`, `ERR`, 0}, {`{a = 1}["a"]`, `cty.NumberIntVal(1)`, 0}, {`{a = 1}.b`, `ERR`, 0},
	{`{a = 1, b = 2}.b`, `cty.NumberIntVal(2)`, 0}, {`{"a" = 1}.a`, `cty.NumberIntVal(1)`, 0}, {`{(true ? "k" : "j") = 1}.k`, `cty.NumberIntVal(1)`, 0}, {`{1 = "x"}["1"]`, `cty.StringVal("x")`, 0}, {`{a = 1, for = 2}.for`, `cty.NumberIntVal(2)`, 0},
	{`[for v in ["a", "b"]: v]`, `cty.TupleVal([]cty.Value{cty.StringVal("a"), cty.StringVal("b")})`, 0}, {`[for i, v in ["a", "b"]: i]`, `cty.TupleVal([]cty.Value{cty.NumberIntVal(0), cty.NumberIntVal(1)})`, 0},
	{`{for i, v in ["a", "b"]: v => i}`, `cty.ObjectVal(map[string]cty.Value{"a":cty.NumberIntVal(0), "b":cty.NumberIntVal(1)})`, 0}, {`{for i, v in ["a", "a", "b"]: v => i}`, `ERR`, 0},
	{`{for i, v in ["a", "a", "b"]: v => i...}`, `cty.ObjectVal(map[string]cty.Value{"a":cty.TupleVal([]cty.Value{cty.NumberIntVal(0), cty.NumberIntVal(1)}), "b":cty.TupleVal([]cty.Value{cty.NumberIntVal(2)})})`, 0},
	{`[for i, v in ["a", "b", "c"]: v if i < 2]`, `cty.TupleVal([]cty.Value{cty.StringVal("a"), cty.StringVal("b")})`, 0}, {`[for k, v in {b = 1, a = 2}: k]`, `cty.TupleVal([]cty.Value{cty.StringVal("a"), cty.StringVal("b")})`, 0},
	{`[for v in 5: v]`, `ERR`, 0}, {`[for v in null: v]`, `ERR`, 0}, {`[for v in [1]: v if null]`, `ERR`, 0}, {`{for v in [1]: null => v}`, `ERR`, 0},
	{`"hello ${~ "world" }"`, `cty.StringVal("helloworld")`, 0}, {`"%{ if true ~} hello %{~ endif }"`, `cty.StringVal("hello")`, 0}, {`"${"hello" ~}${" world"}"`, `cty.StringVal("hello world")`, 0},
	{`"${true}"`, `cty.True`, 0}, {`"${"${true}"}"`, `cty.True`, 0}, {`"hello ${true}"`, `cty.StringVal("hello true")`, 0}, {`"${""}${true}"`, `cty.StringVal("true")`, 0}, {`"%{ for v in [true] }${v}%{ endfor }"`, `cty.StringVal("true")`, 0},
	{`"%{ if false }a%{ else }b%{ endif }"`, `cty.StringVal("b")`, 0}, {`"%{ if false }a%{ endif }"`, `cty.StringVal("")`, 0}, {`"x${1 + 1}y"`, `cty.StringVal("x2y")`, 0}, {`"${null}x"`, `ERR`, 0}, {`"${[1]}x"`, `ERR`, 0}, {`"$${a} %%{b}"`, `cty.StringVal("${a} %{b}")`, 0},
	{`"a\tb\n\"\\é"`, `cty.StringVal("a\tb\n\"\\é")`, 0}, {`"\U0001F600"`, `cty.StringVal("😀")`, 0},
	{"<<EOT\nhello\nEOT\n", `cty.StringVal("hello\n")`, 0}, {"<<-EOT\n    a\n      b\n    EOT\n", `cty.StringVal("a\n  b\n")`, 0}, {"<<EOT\n${1}x\nEOT\n", `cty.StringVal("1x\n")`, 0}, {"<<EOT\n  ${~ 1 ~}  \nEOT\n", `cty.StringVal("1")`, 0},
	{"<<EOT\nfoo\n  \n  ${~ \"x\" ~}  \n\n  bar\nEOT\n", `cty.StringVal("fooxbar\n")`, 0},
	{"foo\n  \n  ${~ \"x\" ~}  \n\n  bar\n", `cty.StringVal("fooxbar\n")`, 2},
	{"hello ${1}", `cty.StringVal("hello 1")`, 2}, {"${[1]}", `cty.TupleVal([]cty.Value{cty.NumberIntVal(1)})`, 2}, {"a\r${1}", `cty.StringVal("a\r1")`, 2}, {"a\r\n${1}", `cty.StringVal("a\r\n1")`, 2}, {"\r%{ if true }x%{ endif }", `cty.StringVal("\rx")`, 2},
	{`upper("a")`, `cty.StringVal("A")`, 0}, {`upper(1)`, `cty.StringVal("1")`, 0}, {`upper()`, `ERR`, 0}, {`upper("a", "b")`, `ERR`, 0}, {`upper(null)`, `ERR`, 0}, {`add(1, "2")`, `cty.NumberIntVal(3)`, 0}, {`join("-", ["a", "b"]...)`, `cty.StringVal("a-b")`, 0},
	{`join("-", "a", "b")`, `cty.StringVal("a-b")`, 0}, {`join("-", null...)`, `ERR`, 0}, {`join("-", "a"...)`, `ERR`, 0}, {`nosuch(1)`, `ERR`, 0}, {`ns::inc(1)`, `cty.NumberIntVal(2)`, 0}, {`fail()`, `ERR`, 0},
	{`[1, 2][*]`, `cty.TupleVal([]cty.Value{cty.NumberIntVal(1), cty.NumberIntVal(2)})`, 0}, {`5[*]`, `cty.TupleVal([]cty.Value{cty.NumberIntVal(5)})`, 0}, {`null[*]`, `cty.EmptyTupleVal`, 0}, {`{a = 1}.*.a`, `cty.TupleVal([]cty.Value{cty.NumberIntVal(1)})`, 0},
	{`[{a = [1, 2]}, {a = [3, 4]}][*].a[0]`, `cty.TupleVal([]cty.Value{cty.NumberIntVal(1), cty.NumberIntVal(3)})`, 0}, {`[{a = [1, 2]}, {a = [3, 4]}].*.a[0]`, `cty.TupleVal([]cty.Value{cty.NumberIntVal(1), cty.NumberIntVal(2)})`, 0},
	{`-[1][0]`, `cty.NumberIntVal(-1)`, 0}, {`!{a = true}.a`, `cty.False`, 0}, {`[1, 2].1`, `cty.NumberIntVal(2)`, 0}, {`1e3`, `cty.NumberIntVal(1000)`, 0}, {`0.5 + 0.25`, `cty.NumberFloatVal(0.75)`, 0}, {`1.0 == 1`, `cty.True`, 0},
	// an object indexed with a number: the key is converted to the attribute name
	{`{"0" = "zero", "1" = true}[0]`, `cty.StringVal("zero")`, 0}, {`{"0" = "zero", "1" = true}.1`, `cty.True`, 0}, {`{7 = "seven"}[7]`, `cty.StringVal("seven")`, 0}, {`{"7" = "seven"}[3 + 4]`, `cty.StringVal("seven")`, 0},
	{`[for k in [0, 1]: {"0" = "a", "1" = "b"}[k]]`, `cty.TupleVal([]cty.Value{cty.StringVal("a"), cty.StringVal("b")})`, 0}, {`{"0" = "zero"}[1]`, `ERR`, 0}, {`{a = 1}[0]`, `ERR`, 0}, {`{"true" = 1}[true]`, `cty.NumberIntVal(1)`, 0},
	{`[{"0" = "x"}][*][0]`, `cty.TupleVal([]cty.Value{cty.StringVal("x")})`, 0}, {`{"10" = "ten"}[10.0]`, `cty.StringVal("ten")`, 0}, {`{"0.5" = "half"}[0.5]`, `cty.StringVal("half")`, 0},
	{`123456789012345678901234567890 + 1`, `cty.NumberIntVal(1.23456789012345678901234567891e+29)`, 0}, {`7 % 3`, `cty.NumberIntVal(1)`, 0}, {`2 < 1 || 3 >= 3`, `cty.True`, 0},
}

func c01DirectedCase(c *core.Case, d c01Dir) {
	c.SetInput(d.Src)
	ctx := ctxWith(map[string]cty.Value{})
	o := c01Run(d.Src, d.Mode, ctx)
	c.Evals(1)
	c.Count("directed-programs")
	if o.parseErr {
		c.Violation("directed/parse-error/"+d.Src, fmt.Sprintf("directed program %q does not parse: %s", d.Src, o.diags), nil)
		return
	}
	if d.Want == "ERR" {
		if !o.errs {
			c.Violation("directed/error-expected/"+d.Src, fmt.Sprintf("the specification makes %q erroneous but it evaluated to %s", d.Src, valStr(o.val)), nil)
			return
		}
	} else {
		if o.errs {
			c.Violation("directed/spurious-error/"+d.Src, fmt.Sprintf("%q should evaluate to %s but failed: %s", d.Src, d.Want, o.diags), nil)
			return
		}
		got := tupleize(o.val).GoString()
		if got != d.Want && o.val.GoString() != d.Want {
			switch {
			case strings.Contains(strings.ReplaceAll(d.Src, "\r\n", ""), "\r"):
				c.Violation("template/lone-CR-hides-following-sequence", fmt.Sprintf("%q should evaluate to %s but gave %s", d.Src, d.Want, o.val.GoString()), nil)
				return
			case strings.Contains(d.Src, "foo\n  \n  ${~"):
				c.Violation("template/strip-marker-stops-at-line-boundary", fmt.Sprintf("%q should evaluate to %s but gave %s", d.Src, d.Want, o.val.GoString()), nil)
				return
			}
			c.Violation("directed/value-differs/"+d.Src, fmt.Sprintf("%q should evaluate to %s but gave %s", d.Src, d.Want, o.val.GoString()), nil)
			return
		}
	}
	c.NonTrivial("directed:" + d.Src)
}
