package mon

import (
	"bytes"
	"encoding/json"
	"fmt"
	"strings"

	"github.com/hashicorp/hcl/v2"
	"github.com/hashicorp/hcl/v2/hclsyntax"
	hcljson "github.com/hashicorp/hcl/v2/json"
	"github.com/zclconf/go-cty/cty"

	"verifharness/core"
	"verifharness/gen"
	"verifharness/model"
)

func init() {
	Register(&Spec{
		ID:        "C13",
		Technique: "runtime monitoring: differential monitor of the JSON front end against an independent RFC 8259 recogniser (cross-checked with encoding/json), an exact-decimal literal-value model, and the native template parser for expression mode",
		Rule: "cases are (a) grammar-generated RFC 8259 texts (every escape form, surrogate pairs, all whitespace bytes, numbers up to 150 digits / exponents to 6e3 (1e99999 in the fixed list), nesting, duplicate names), and wide documents of 10001-16000 sibling arrays/objects, (b) near-miss mutants (trailing commas, bare words, +1 .5 1. 01, unterminated strings, raw control characters, comments, BOM, form feed, trailing garbage, NaN/Infinity, mismatched brackets, byte-level edits) and (c) JSON documents whose strings and property names are rendered HCL templates over a generated scope; acceptance by json.ParseExpression / json.Parse, literal-mode values and expression-mode values are compared with the models; " +
			"non-trivial = the text has >= 3 JSON tokens and (for mutants) differs from its seed; distinct by text hash",
		Assumptions: []string{"encoding/json is used only to cross-check the recogniser and to tokenise valid texts", "math/big decimal parsing at 512 bits defines 'full decimal precision' (the precision of the HCL information model as implemented by cty)", "hclsyntax.ParseTemplate defines what a template denotes (C01 monitors it)"},
		Quick:       Plan{Batches: 16, PerBatch: 1500, MinNonTrivial: 9000},
		Thorough:    Plan{Batches: 64, PerBatch: 20000, MinNonTrivial: 400000},
		Case:        c13Case,
	})
}

var c13NearMiss = []string{
	"[1,]", "{\"a\":1,}", "[,1]", "[1 2]", "{\"a\" 1}", "{\"a\":}", "{a:1}", "{'a':1}", "['a']", "tru", "True", "nul", "NULL", "+1", ".5", "1.", "01", "-", "-01", "1e", "1e+", "0x10", "1.e5", "--1", "1.5.5",
	"\"abc", "\"a\\\"", "\"a\\x\"", "\"a\\u12\"", "\"a\\u12G4\"", "\"a\nb\"", "\"a\tb\"", "\"a\x00b\"", "\"a\x1fb\"", "// c\n1", "/* c */ 1", "1 // c", "# c\n1", "\xef\xbb\xbf1", "\xef\xbb\xbf{}", "1\f", "\f1", "1\v", "\u00a01", "1 2", "{} {}", "[] x", "{}x", "1x",
	"NaN", "Infinity", "-Infinity", "undefined", "[1}", "{\"a\":1]", "[", "{", "]", "}", "[[]", "{\"a\":{}", "", " ", "\n", "\"\\ud800\"", "\"\\udc00\"", "\"\\ud800\\u0041\"", "\"\\ud83d\\ude00\"", "\"\\uD83D\"", ":", ",", "{\"a\"}", "{\"a\":1 \"b\":2}", "{1:2}", "{null:1}", "[1,,2]", "{\"a\":1,,\"b\":2}",
	"1E400", "-0", "0e0", "0.0e-0", "1e99999", "-1E-99999", "123456789012345678901234567890123456789012345678901234567890.123456789012345678901234567890", "[\"\\/\"]", "\"\\b\\f\\n\\r\\t\\\\\\/\\\"\"", "\"\x7f\"", "\"\xc3\xa9\"", "\"\xff\"", "\"\xc0\xaf\"", "\"\xed\xa0\x80\"",
	"{\"a\":1,\"a\":2}", "{\"\":1}", "{\"//\":\"c\",\"a\":1}", "[{\"a\":1},{\"b\":2}]", "[[[[[[]]]]]]", "{\"a\":{\"b\":{\"c\":[]}}}",
}

// jnode is a decoded JSON value that keeps duplicate object members.
type jnode struct {
	kind  byte // 's','n','t','f','0','[','{'
	str   string
	items []*jnode
	names []string
}

func decodeJSON(b []byte) (*jnode, error) {
	dec := json.NewDecoder(bytes.NewReader(b))
	dec.UseNumber()
	n, err := decodeValue(dec)
	if err != nil {
		return nil, err
	}
	return n, nil
}

func decodeValue(dec *json.Decoder) (*jnode, error) {
	tok, err := dec.Token()
	if err != nil {
		return nil, err
	}
	switch t := tok.(type) {
	case json.Delim:
		switch t {
		case '[':
			n := &jnode{kind: '['}
			for dec.More() {
				c, err := decodeValue(dec)
				if err != nil {
					return nil, err
				}
				n.items = append(n.items, c)
			}
			if _, err := dec.Token(); err != nil {
				return nil, err
			}
			return n, nil
		case '{':
			n := &jnode{kind: '{'}
			for dec.More() {
				kt, err := dec.Token()
				if err != nil {
					return nil, err
				}
				ks, ok := kt.(string)
				if !ok {
					return nil, fmt.Errorf("non-string key")
				}
				c, err := decodeValue(dec)
				if err != nil {
					return nil, err
				}
				n.names = append(n.names, ks)
				n.items = append(n.items, c)
			}
			if _, err := dec.Token(); err != nil {
				return nil, err
			}
			return n, nil
		}
		return nil, fmt.Errorf("unexpected delimiter")
	case string:
		return &jnode{kind: 's', str: t}, nil
	case json.Number:
		return &jnode{kind: 'n', str: string(t)}, nil
	case bool:
		if t {
			return &jnode{kind: 't'}, nil
		}
		return &jnode{kind: 'f'}, nil
	case nil:
		return &jnode{kind: '0'}, nil
	}
	return nil, fmt.Errorf("unexpected token %T", tok)
}

// literalValue is the value json/spec.md prescribes in literal-only mode;
// ok=false means evaluation must report an error (duplicate names).
func literalValue(n *jnode) (cty.Value, bool) {
	switch n.kind {
	case 's':
		return cty.StringVal(n.str), true
	case 'n':
		return gen.NumVal(n.str), true
	case 't':
		return cty.True, true
	case 'f':
		return cty.False, true
	case '0':
		return cty.NullVal(cty.DynamicPseudoType), true
	case '[':
		if len(n.items) == 0 {
			return cty.EmptyTupleVal, true
		}
		vs := make([]cty.Value, len(n.items))
		for i, it := range n.items {
			v, ok := literalValue(it)
			if !ok {
				return cty.NilVal, false
			}
			vs[i] = v
		}
		return cty.TupleVal(vs), true
	case '{':
		if len(n.items) == 0 {
			return cty.EmptyObjectVal, true
		}
		m := map[string]cty.Value{}
		for i, it := range n.items {
			v, ok := literalValue(it)
			if !ok {
				return cty.NilVal, false
			}
			name := nfc(n.names[i])
			if _, dup := m[name]; dup {
				return cty.NilVal, false
			}
			m[name] = v
		}
		return cty.ObjectVal(m), true
	}
	return cty.NilVal, false
}

// templateOutcome is what the native template parser assigns to a string.
func templateOutcome(s string, ctx *hcl.EvalContext) (cty.Value, bool) {
	e, d := hclsyntax.ParseTemplate([]byte(s), "tpl", hcl.InitialPos)
	if d.HasErrors() {
		return cty.NilVal, false
	}
	v, d := e.Value(ctx)
	if d.HasErrors() {
		return cty.NilVal, false
	}
	return v, true
}

func exprModeValue(n *jnode, ctx *hcl.EvalContext) (cty.Value, bool) {
	switch n.kind {
	case 's':
		return templateOutcome(n.str, ctx)
	case 'n', 't', 'f', '0':
		return literalValue(n)
	case '[':
		if len(n.items) == 0 {
			return cty.EmptyTupleVal, true
		}
		vs := make([]cty.Value, len(n.items))
		for i, it := range n.items {
			v, ok := exprModeValue(it, ctx)
			if !ok {
				return cty.NilVal, false
			}
			vs[i] = v
		}
		return cty.TupleVal(vs), true
	case '{':
		if len(n.items) == 0 {
			return cty.EmptyObjectVal, true
		}
		m := map[string]cty.Value{}
		for i, it := range n.items {
			kv, ok := templateOutcome(n.names[i], ctx)
			if !ok || kv.IsNull() || !kv.IsKnown() {
				return cty.NilVal, false
			}
			ks, err := ctyToString(kv)
			if err != nil {
				return cty.NilVal, false
			}
			v, ok := exprModeValue(it, ctx)
			if !ok {
				return cty.NilVal, false
			}
			if _, dup := m[ks]; dup {
				return cty.NilVal, false
			}
			m[ks] = v
		}
		return cty.ObjectVal(m), true
	}
	return cty.NilVal, false
}

func ctyToString(v cty.Value) (string, error) {
	switch v.Type() {
	case cty.String:
		return v.AsString(), nil
	case cty.Number:
		return v.AsBigFloat().Text('f', -1), nil
	case cty.Bool:
		if v.True() {
			return "true", nil
		}
		return "false", nil
	}
	return "", fmt.Errorf("not convertible to string")
}

func c13Case(c *core.Case) {
	r := c.Rng
	if c.Index%3 == 2 {
		c13Expr(c)
		return
	}
	var text []byte
	mutant := false
	switch r.Intn(5) {
	case 0:
		text = []byte(gen.Pick(r, c13NearMiss))
		if gen.Chance(r, 0.3) {
			text = []byte("[" + string(text) + "]")
		}
		mutant = true
		c.Count("source:near-miss-list")
	case 1, 2:
		seed := []byte(gen.RandomJSON(r, 3))
		text = gen.Mutate(r, seed, 2)
		mutant = !bytes.Equal(seed, text)
		c.Count("source:mutant")
	default:
		text = []byte(gen.RandomJSON(r, 4))
		if gen.Chance(r, 0.03) {
			d := 100 + r.Intn(1900)
			text = []byte(strings.Repeat("[", d) + strings.Repeat("]", d))
		}
		if c.Index%400 == 7 {
			// wide rather than deep: many thousands of sibling arrays and objects
			n := 10001 + r.Intn(6000)
			el := gen.Pick(r, []string{"[]", "{}", "[1]", `{"a":[]}`, `["x",[]]`})
			if gen.Chance(r, 0.5) {
				text = []byte("[" + strings.Repeat(el+",", n-1) + el + "]")
			} else {
				var sb strings.Builder
				sb.WriteString("{")
				for i := 0; i < n; i++ {
					if i > 0 {
						sb.WriteString(",")
					}
					fmt.Fprintf(&sb, `"k%d":%s`, i, el)
				}
				sb.WriteString("}")
				text = []byte(sb.String())
			}
			c.Count("source:wide-document")
		}
		c.Count("source:grammar")
	}
	if hugeExp.Match(text) {
		text = hugeExp.ReplaceAll(text, []byte("1e5"))
	}
	c.SetInput(string(text))
	info := model.RFC8259(text)
	goValid := json.Valid(text)
	c.Evals(1)
	exempt := info.InvalidUTF8 || info.LoneSurrogate || info.HugeNumber || bytes.HasPrefix(text, utf8BOM) || !utf8Valid(text)
	if info.Valid != goValid && !exempt {
		c.Inconclusive("oracle dispute: RFC 8259 recogniser and encoding/json.Valid disagree")
		c.Count("oracle-disputes")
		return
	}
	e, d := hcljson.ParseExpression(text, "t.json")
	c.Evals(1)
	accepted := !d.HasErrors()
	switch {
	case exempt:
		c.Count("acceptance-exempt(ill-formed utf8 / lone surrogate / BOM / >6-digit exponent)")
	case accepted && !info.Valid:
		c.Violation("accepts-invalid-json/"+c13Shape(text), fmt.Sprintf("json.ParseExpression accepted %q, which is not a valid JSON text", trunc(string(text), 300)), nil)
		return
	case !accepted && info.Valid:
		c.Violation("rejects-valid-json/"+c13Shape(text), fmt.Sprintf("json.ParseExpression rejected valid JSON %q: %s", trunc(string(text), 300), diagStr(d)), nil)
		return
	default:
		c.Count("acceptance-agreed:expression")
	}
	// json.Parse: a file must be a valid JSON text whose root is an object or an array
	_, fd := hcljson.Parse(text, "t.json")
	c.Evals(1)
	fileOK := !fd.HasErrors()
	if !exempt {
		want := info.Valid && (info.RootKind == '{' || info.RootKind == '[')
		if fileOK && !info.Valid {
			c.Violation("file-accepts-invalid-json/"+c13Shape(text), fmt.Sprintf("json.Parse accepted %q, which is not a valid JSON text", trunc(string(text), 300)), nil)
			return
		}
		if !fileOK && want {
			c.Violation("file-rejects-valid-json/"+c13Shape(text), fmt.Sprintf("json.Parse rejected valid JSON object/array %q: %s", trunc(string(text), 300), diagStr(fd)), nil)
			return
		}
		c.Count("acceptance-agreed:file")
	}
	// literal-only mode
	if info.Valid && accepted && !exempt {
		tree, err := decodeJSON(text)
		if err != nil {
			c.Inconclusive("encoding/json could not tokenise a text both oracles call valid")
			return
		}
		want, ok := literalValue(tree)
		got, vd := e.Value(nil)
		c.Evals(1)
		switch {
		case !ok && !vd.HasErrors():
			c.Violation("literal/duplicate-names-not-rejected", fmt.Sprintf("%q has duplicate member names but literal-mode evaluation returned %s without error", trunc(string(text), 300), valStr(got)), nil)
			return
		case ok && vd.HasErrors():
			c.Violation("literal/evaluation-error", fmt.Sprintf("literal-mode evaluation of %q failed: %s", trunc(string(text), 300), diagStr(vd)), nil)
			return
		case ok && !got.RawEquals(want):
			c.Violation("literal/value-differs/"+valueDiffKind(want, got), fmt.Sprintf("literal-mode value of %q\n expected %s\n got      %s", trunc(string(text), 300), valStr(want), valStr(got)), nil)
			return
		}
		c.Count("literal-values-agreed")
	}
	if len(text) >= 5 && (!mutant || true) {
		c.NonTrivial(string(text))
	}
	if c.WantSample() {
		c.Sample(map[string]any{"text": trunc(fmt.Sprintf("%q", text), 200), "valid": info.Valid, "accepted": accepted})
	}
}

func utf8Valid(b []byte) bool {
	return bytes.ToValidUTF8(b, nil) != nil && len(bytes.ToValidUTF8(b, []byte{})) == len(b)
}

// c13Shape is a coarse signature of a text for classing: its first
// non-space byte class and last non-space byte class.
func c13Shape(text []byte) string {
	t := bytes.TrimSpace(text)
	if len(t) == 0 {
		return "empty"
	}
	cls := func(c byte) string {
		switch {
		case c == '{' || c == '}' || c == '[' || c == ']' || c == '"' || c == ',' || c == ':':
			return string(c)
		case c >= '0' && c <= '9' || c == '-':
			return "num"
		case c >= 'a' && c <= 'z' || c >= 'A' && c <= 'Z':
			return "word"
		case c < 0x20:
			return "ctl"
		case c >= 0x80:
			return "hi"
		}
		return "punct"
	}
	return cls(t[0]) + ".." + cls(t[len(t)-1])
}

// ---------------------------------------------------------------- expression mode

func c13Expr(c *core.Case) {
	r := c.Rng
	sc := gen.NewScope(r, gen.ValOpts{StrLevel: 1})
	g := gen.NewG(r, sc, 0.15)
	g.StrLevel = 2
	tpl := func() string {
		switch r.Intn(6) {
		case 0:
			return gen.Str(r, 2)
		case 1:
			return gen.Pick(r, []string{"${n}", "${s}", "${lst}", "x${n}y", "$${n}", "%%{if}", "${", "%{ if f }a%{ endif }", "${nul}", "${f}", "${1 + }", "%{ for v in lst }${v}%{ endfor }", "${upper(t)}", "${undefined_var}", ""})
		}
		t := g.Template(2)
		gen.FixTemplates(t)
		gen.FixDollar(t)
		return gen.RenderTemplateBody(t, &gen.Layout{})
	}
	var build func(depth int) string
	build = func(depth int) string {
		k := r.Intn(8)
		if depth <= 0 && k >= 5 {
			k = r.Intn(5)
		}
		switch k {
		case 0, 1, 2:
			return gen.JSONQuote(r, tpl())
		case 3:
			return gen.JSONNumber(r)
		case 4:
			return gen.Pick(r, []string{"true", "false", "null"})
		case 5:
			var parts []string
			for i := r.Intn(4); i > 0; i-- {
				parts = append(parts, build(depth-1))
			}
			return "[" + strings.Join(parts, ", ") + "]"
		default:
			var parts []string
			for i := r.Intn(4); i > 0; i-- {
				key := gen.Pick(r, []string{"a", "b", "c", "k"})
				if gen.Chance(r, 0.4) {
					key = tpl()
				}
				parts = append(parts, gen.JSONQuote(r, key)+": "+build(depth-1))
			}
			return "{" + strings.Join(parts, ", ") + "}"
		}
	}
	text := []byte(build(3))
	if hugeExp.Match(text) {
		text = hugeExp.ReplaceAll(text, []byte("1e5"))
	}
	c.SetInput(string(text) + "\nSCOPE: " + scopeStr(sc))
	e, d := hcljson.ParseExpression(text, "t.json")
	c.Evals(1)
	if d.HasErrors() {
		c.Violation("expr/rejects-valid-json", fmt.Sprintf("json.ParseExpression rejected generated JSON %q: %s", trunc(string(text), 300), diagStr(d)), nil)
		return
	}
	tree, err := decodeJSON(text)
	if err != nil {
		c.Inconclusive("encoding/json could not tokenise generated JSON")
		return
	}
	ctx := evalCtx(sc)
	want, ok := exprModeValue(tree, ctx)
	got, vd := e.Value(ctx)
	c.Evals(2)
	switch {
	case !ok && !vd.HasErrors():
		c.Violation("expr/error-not-reported", fmt.Sprintf("%q: the native template parser/evaluator (or duplicate/null key rule) makes this erroneous, but JSON expression-mode evaluation returned %s without error", trunc(string(text), 300), valStr(got)), nil)
		return
	case ok && vd.HasErrors():
		c.Violation("expr/spurious-error", fmt.Sprintf("%q: expected %s but JSON expression-mode evaluation failed: %s", trunc(string(text), 300), valStr(want), diagStr(vd)), nil)
		return
	case ok && !got.RawEquals(want):
		c.Violation("expr/value-differs/"+valueDiffKind(want, got), fmt.Sprintf("%q in scope\n expected (native template semantics) %s\n got %s", trunc(string(text), 300), valStr(want), valStr(got)), nil)
		return
	}
	if ok {
		c.Count("expression-mode-values-agreed")
	} else {
		c.Count("expression-mode-errors-agreed")
	}
	// the same parsed node afterwards in literal-only mode, then in expression
	// mode again: the mode of an earlier evaluation must not show
	if lwant, lok := literalValue(tree); lok {
		lgot, ld := e.Value(nil)
		c.Evals(1)
		if ld.HasErrors() {
			c.Violation("literal-after-expression/evaluation-error", fmt.Sprintf("%q evaluated with a context and then in literal-only mode: %s", trunc(string(text), 300), diagStr(ld)), nil)
			return
		}
		if !lgot.RawEquals(lwant) {
			c.Violation("literal-after-expression/value-differs/"+valueDiffKind(lwant, lgot), fmt.Sprintf("%q evaluated with a context and then in literal-only mode\n expected %s\n got      %s", trunc(string(text), 300), valStr(lwant), valStr(lgot)), nil)
			return
		}
		again, ad := e.Value(ctx)
		c.Evals(1)
		if ad.HasErrors() != vd.HasErrors() || (!vd.HasErrors() && !again.RawEquals(got)) {
			c.Violation("expression-after-literal/value-differs", fmt.Sprintf("%q: expression-mode value %s changed to %s after a literal-only evaluation of the same node", trunc(string(text), 300), valStr(got), valStr(again)), nil)
			return
		}
		c.Count("mode-order-independence-held")
	}
	c.NonTrivial(string(text))
	if c.WantSample() {
		c.Sample(map[string]any{"text": trunc(string(text), 200), "mode": "expression", "ok": ok})
	}
}
