package core

import "syscall"

func cpuSeconds() float64 {
	var ru syscall.Rusage
	if err := syscall.Getrusage(syscall.RUSAGE_SELF, &ru); err != nil {
		return 0
	}
	return float64(ru.Utime.Sec) + float64(ru.Utime.Usec)/1e6 + float64(ru.Stime.Sec) + float64(ru.Stime.Usec)/1e6
}
