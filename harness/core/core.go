// Package core is the shared runtime of the monitors: deterministic per-case
// PRNGs, the per-case recorder, batch results and crash bookkeeping.
package core

import (
	"encoding/json"
	"fmt"
	"hash/fnv"
	"math/rand"
	"os"
	"runtime"
	"runtime/debug"
	"sort"
	"strconv"
	"strings"
	"sync"
	"time"
)

// Violation is one observed refutation of a property.
type Violation struct {
	Class  string `json:"class"`
	Msg    string `json:"msg"`
	Batch  int    `json:"batch"`
	Index  int    `json:"index"`
	Input  string `json:"input,omitempty"`
	Detail any    `json:"detail,omitempty"`
}

// BatchResult is what one worker process reports for one batch.
type BatchResult struct {
	Prop         string         `json:"prop"`
	Batch        int            `json:"batch"`
	Evaluations  int            `json:"evaluations"`
	NonTrivial   []uint64       `json:"nontrivial"`
	Counts       map[string]int `json:"counts"`
	// ClassCounts: occurrences per violation class (all of them; Violations keeps the first 3 of each)
	ClassCounts map[string]int `json:"class_counts,omitempty"`
	Violations   []Violation    `json:"violations"`
	Inconclusive map[string]int `json:"inconclusive"`
	Samples      []any          `json:"samples"`
	HarnessErr   []string       `json:"harness_err,omitempty"`
	Extra        map[string]any `json:"extra,omitempty"`
	Done         bool           `json:"done"`
}

// Case is the recorder handed to a monitor for one generated case.
type Case struct {
	Prop  string
	Tier  string
	Seed  int64
	Batch int
	Index int
	Rng   *rand.Rand

	w      *Worker
	input  string
	evals  int
	viols  int
	closed bool
}

// Worker runs the cases of one batch.
type Worker struct {
	Prop    string
	Tier    string
	Seed    int64
	Batch   int
	Res     BatchResult
	nt      map[uint64]struct{}
	curFile *os.File
	MaxViol int
	// Replay, when >= 0, restricts the run to that single index.
	Replay int

	// per-case watchdog state (see watchdog)
	wdMu      sync.Mutex
	wdIndex   int
	wdWall    time.Time
	wdCPU     float64
	wdRunning bool
}

// Exit codes of a worker stopped by its own per-case watchdog.
const (
	ExitCPUHang  = 7 // one case burned more than CPUHangLimit CPU-seconds
	ExitWallOnly = 8 // one case exceeded the wall limit without burning CPU (loaded machine): inconclusive
)

// CPUHangLimit is the CPU-time budget of a single case (inputs are <= 64 KiB).
var CPUHangLimit = func() float64 {
	// VERIF_CPU_LIMIT overrides the budget (used to exercise the watchdog itself)
	if v, err := strconv.ParseFloat(os.Getenv("VERIF_CPU_LIMIT"), 64); err == nil && v > 0 {
		return v
	}
	return 20.0
}()

func (w *Worker) watchdog() {
	for {
		time.Sleep(500 * time.Millisecond)
		w.wdMu.Lock()
		running, idx, wall, cpu := w.wdRunning, w.wdIndex, w.wdWall, w.wdCPU
		w.wdMu.Unlock()
		if !running {
			continue
		}
		dcpu := CPUSeconds() - cpu
		if dcpu > CPUHangLimit {
			fmt.Fprintf(os.Stderr, "WATCHDOG cpu-hang batch=%d index=%d cpu_s=%.1f wall_s=%.1f\n", w.Batch, idx, dcpu, time.Since(wall).Seconds())
			os.Exit(ExitCPUHang)
		}
		if time.Since(wall) > 10*time.Minute {
			fmt.Fprintf(os.Stderr, "WATCHDOG wall-only batch=%d index=%d cpu_s=%.1f\n", w.Batch, idx, dcpu)
			os.Exit(ExitWallOnly)
		}
	}
}

func Hash64(parts ...string) uint64 {
	h := fnv.New64a()
	for _, p := range parts {
		h.Write([]byte(p))
		h.Write([]byte{0})
	}
	return h.Sum64()
}

// CaseSeed derives the PRNG seed of one case from (seed, property, batch, index)
// so that any single case can be regenerated without running its predecessors.
func CaseSeed(seed int64, prop string, batch, index int) int64 {
	return int64(Hash64(fmt.Sprint(seed), prop, fmt.Sprint(batch), fmt.Sprint(index)) & 0x7fffffffffffffff)
}

func NewWorker(prop, tier string, seed int64, batch int, curPath string) *Worker {
	w := &Worker{Prop: prop, Tier: tier, Seed: seed, Batch: batch, nt: map[uint64]struct{}{}, MaxViol: 400, Replay: -1}
	w.Res = BatchResult{Prop: prop, Batch: batch, Counts: map[string]int{}, Inconclusive: map[string]int{}, Extra: map[string]any{}}
	if curPath != "" {
		go w.watchdog()
		f, err := os.OpenFile(curPath, os.O_CREATE|os.O_RDWR|os.O_TRUNC, 0o644)
		if err == nil {
			w.curFile = f
		}
	}
	return w
}

// Run executes fn for indexes [0,n) (or only the replay index), each under its
// own PRNG and a panic guard.
func (w *Worker) Run(n int, fn func(c *Case)) {
	for i := 0; i < n; i++ {
		if w.Replay >= 0 && i != w.Replay {
			continue
		}
		before := len(w.Res.Violations)
		w.RunOne(i, fn)
		if len(w.Res.Violations) > before && w.Replay < 0 {
			// re-run the case in a shadow worker: a violation that does not
			// recur from the same PRNG state is flagged (generator or
			// implementation nondeterminism).
			sh := NewWorker(w.Prop, w.Tier, w.Seed, w.Batch, "")
			sh.RunOne(i, fn)
			recur := map[string]bool{}
			for _, v := range sh.Res.Violations {
				recur[v.Class] = true
			}
			for k := before; k < len(w.Res.Violations); k++ {
				if !recur[w.Res.Violations[k].Class] {
					w.Res.Violations[k].Msg += " [NOT REPRODUCED on immediate re-run of the same case]"
				}
			}
		}
		if len(w.Res.ClassCounts) >= 100 {
			break // a hundred distinct classes in one batch: enough to look at
		}
	}
}

func (w *Worker) RunOne(i int, fn func(c *Case)) {
	c := &Case{Prop: w.Prop, Tier: w.Tier, Seed: w.Seed, Batch: w.Batch, Index: i, w: w}
	c.Rng = rand.New(rand.NewSource(CaseSeed(w.Seed, w.Prop, w.Batch, i)))
	w.noteCurrent(c, "")
	w.wdMu.Lock()
	w.wdIndex, w.wdWall, w.wdCPU, w.wdRunning = i, time.Now(), CPUSeconds(), true
	w.wdMu.Unlock()
	defer func() {
		w.wdMu.Lock()
		w.wdRunning = false
		w.wdMu.Unlock()
	}()
	defer func() {
		if r := recover(); r != nil {
			stack := string(debug.Stack())
			origin, inHCL := PanicOrigin(stack)
			if inHCL {
				c.Violation("panic/"+origin, fmt.Sprintf("panic: %v", r), map[string]any{"stack": TrimStack(stack)})
			} else {
				w.Res.HarnessErr = append(w.Res.HarnessErr, fmt.Sprintf("case %d/%d: harness panic: %v\n%s", w.Batch, i, r, TrimStack(stack)))
			}
		}
		if c.evals == 0 {
			c.evals = 1
		}
		w.Res.Evaluations += c.evals
	}()
	fn(c)
}

func (w *Worker) noteCurrent(c *Case, input string) {
	if w.curFile == nil {
		return
	}
	b := fmt.Sprintf("{\"prop\":%q,\"tier\":%q,\"seed\":%d,\"batch\":%d,\"index\":%d,\"input\":%s}\n", w.Prop, w.Tier, w.Seed, w.Batch, c.Index, jsonString(input))
	w.curFile.Truncate(0)
	w.curFile.WriteAt([]byte(b), 0)
}

func jsonString(s string) string {
	b, _ := json.Marshal(s)
	return string(b)
}

// SetInput records the concrete input of the case (source bytes, or a
// rendering of the case) before it is executed, so that a process-fatal
// failure leaves the culprit on disk.
func (c *Case) SetInput(s string) {
	c.input = s
	c.w.noteCurrent(c, s)
}

func (c *Case) Input() string { return c.input }

// Evals adds n to the number of executions this case performed.
func (c *Case) Evals(n int) { c.evals += n }

// Count adds to a named histogram bucket (what the monitors actually saw).
func (c *Case) Count(key string) { c.w.Res.Counts[key]++ }
func (c *Case) CountN(key string, n int) {
	if n != 0 {
		c.w.Res.Counts[key] += n
	}
}

// NonTrivial records that this case was non-trivial by the property's rule;
// key identifies the case for distinctness.
func (c *Case) NonTrivial(key string) {
	c.w.nt[Hash64(key)] = struct{}{}
}

// HarnessError reports a fault of the machinery itself (the check is then broken, not the property).
func (c *Case) HarnessError(msg string) {
	c.w.Res.HarnessErr = append(c.w.Res.HarnessErr, fmt.Sprintf("case %d/%d: %s", c.Batch, c.Index, msg))
}

func (c *Case) Inconclusive(reason string) { c.w.Res.Inconclusive[reason]++ }

// Sample keeps up to 6 sample cases per batch (the driver keeps a few overall).
func (c *Case) Sample(v any) {
	if len(c.w.Res.Samples) < 6 {
		c.w.Res.Samples = append(c.w.Res.Samples, v)
	}
}

func (c *Case) WantSample() bool { return len(c.w.Res.Samples) < 6 && c.Index%7 == 0 }

func (c *Case) Violation(class, msg string, detail any) {
	c.viols++
	if c.viols > 3 {
		return
	}
	// every occurrence is counted; only the first few of a class are kept with
	// their input (a frequent known finding must not crowd out anything else,
	// nor end the batch early)
	full := c.Prop + "/" + class
	if c.w.Res.ClassCounts == nil {
		c.w.Res.ClassCounts = map[string]int{}
	}
	c.w.Res.ClassCounts[full]++
	if c.w.Res.ClassCounts[full] > 3 {
		return
	}
	if len(c.w.Res.Violations) >= c.w.MaxViol {
		return
	}
	in := c.input
	if len(in) > 8192 {
		in = in[:8192] + "...(truncated)"
	}
	c.w.Res.Violations = append(c.w.Res.Violations, Violation{Class: c.Prop + "/" + class, Msg: msg, Batch: c.Batch, Index: c.Index, Input: in, Detail: detail})
}

func (c *Case) Violated() bool { return c.viols > 0 }

func (w *Worker) Finish(outPath string) error {
	w.Res.NonTrivial = w.Res.NonTrivial[:0]
	for h := range w.nt {
		w.Res.NonTrivial = append(w.Res.NonTrivial, h)
	}
	sort.Slice(w.Res.NonTrivial, func(i, j int) bool { return w.Res.NonTrivial[i] < w.Res.NonTrivial[j] })
	w.Res.Done = true
	b, err := json.Marshal(&w.Res)
	if err != nil {
		return err
	}
	if w.curFile != nil {
		name := w.curFile.Name()
		w.curFile.Close()
		os.Remove(name)
	}
	return os.WriteFile(outPath, b, 0o644)
}

// PanicOrigin returns the first non-runtime function on a panic stack and
// whether the panic was raised in (or below, i.e. in a dependency called by)
// the hcl module rather than in the harness itself.
func PanicOrigin(stack string) (string, bool) {
	lines := strings.Split(stack, "\n")
	// skip until after the "panic(" frame
	start := 0
	for i, l := range lines {
		if strings.HasPrefix(l, "panic(") {
			start = i + 2
		}
	}
	first := ""
	for i := start; i < len(lines); i++ {
		l := lines[i]
		if l == "" || strings.HasPrefix(l, "\t") || strings.HasPrefix(l, "goroutine ") {
			continue
		}
		fn := l
		if k := strings.LastIndex(fn, "("); k > 0 {
			fn = fn[:k]
		}
		if strings.HasPrefix(fn, "runtime.") || strings.HasPrefix(fn, "runtime/") {
			continue
		}
		if first == "" {
			first = fn
		}
		if strings.HasPrefix(fn, "verifharness/") || strings.HasPrefix(fn, "main.") {
			// reached the harness before any hcl frame: harness bug, unless
			// first frame is in a library that hcl called... decide below.
			return shortFn(first), false
		}
		if strings.Contains(fn, "github.com/hashicorp/hcl/v2") {
			return shortFn(first), true
		}
	}
	return shortFn(first), false
}

func shortFn(fn string) string {
	fn = strings.TrimPrefix(fn, "github.com/hashicorp/hcl/v2/")
	fn = strings.TrimPrefix(fn, "github.com/hashicorp/hcl/v2.")
	fn = strings.TrimPrefix(fn, "github.com/zclconf/go-cty/")
	return fn
}

func TrimStack(s string) string {
	lines := strings.Split(s, "\n")
	if len(lines) > 40 {
		lines = lines[:40]
	}
	return strings.Join(lines, "\n")
}

// CPUSeconds returns the CPU time consumed so far by the calling thread's
// process (user+system); used as a load-independent clock.
func CPUSeconds() float64 {
	return cpuSeconds()
}

func init() {
	_ = runtime.NumCPU
}
