package gen

import (
	"fmt"
	"math/rand"
	"strings"
)

// RandomJSON returns a grammatical RFC 8259 text: every escape form, surrogate
// pairs, all four whitespace bytes in the gaps, varied number spellings,
// duplicate names.
func RandomJSON(r *rand.Rand, depth int) string {
	var sb strings.Builder
	jsonWS(r, &sb)
	jsonValue(r, &sb, depth, true)
	jsonWS(r, &sb)
	return sb.String()
}

func jsonWS(r *rand.Rand, sb *strings.Builder) {
	if Chance(r, 0.7) {
		return
	}
	n := 1 + r.Intn(3)
	for i := 0; i < n; i++ {
		sb.WriteByte(" \t\n\r"[r.Intn(4)])
	}
}

// JSONNumber returns a grammatical JSON number text.
func JSONNumber(r *rand.Rand) string {
	var sb strings.Builder
	if Chance(r, 0.3) {
		sb.WriteByte('-')
	}
	switch r.Intn(6) {
	case 0:
		sb.WriteString("0")
	case 1:
		sb.WriteString(fmt.Sprint(1 + r.Intn(9)))
	case 2:
		sb.WriteString(fmt.Sprint(1 + r.Intn(100000)))
	case 3:
		n := 20 + r.Intn(130)
		sb.WriteByte(byte('1' + r.Intn(9)))
		for i := 1; i < n; i++ {
			sb.WriteByte(byte('0' + r.Intn(10)))
		}
	default:
		sb.WriteString(fmt.Sprint(r.Intn(1000)))
	}
	if Chance(r, 0.35) {
		sb.WriteByte('.')
		n := 1 + r.Intn(6)
		if Chance(r, 0.1) {
			n = 40 + r.Intn(100)
		}
		for i := 0; i < n; i++ {
			sb.WriteByte(byte('0' + r.Intn(10)))
		}
	}
	if Chance(r, 0.3) {
		sb.WriteByte("eE"[r.Intn(2)])
		switch r.Intn(3) {
		case 0:
			sb.WriteByte('+')
		case 1:
			sb.WriteByte('-')
		}
		switch r.Intn(5) {
		case 0:
			sb.WriteString("0")
		case 1:
			sb.WriteString(fmt.Sprint(r.Intn(6000)))
		default:
			sb.WriteString(fmt.Sprint(r.Intn(40)))
		}
	}
	return sb.String()
}

// JSONString returns a grammatical JSON string token (with quotes) whose
// content is drawn from the hostile alphabet, using every escape form.
// prependRunes have the grapheme-cluster property Prepend: they join the
// character that FOLLOWS them into one cluster (also a quote or a backslash).
var prependRunes = []rune{0x0600, 0x0605, 0x06DD, 0x070F, 0x08E2, 0x110BD}

func JSONString(r *rand.Rand, level int) string {
	s := Str(r, level)
	if level >= 2 && Chance(r, 0.08) {
		p := string(Pick(r, prependRunes))
		switch r.Intn(3) {
		case 0:
			s += p // directly before the closing quote
		case 1:
			s = s + p + Pick(r, []string{"\"", "\\", "\n", "x"}) // before an escape
		default:
			s = p + s
		}
	}
	return JSONQuote(r, s)
}

// JSONQuote encodes s as a JSON string token with randomly chosen escape forms.
func JSONQuote(r *rand.Rand, s string) string {
	var sb strings.Builder
	sb.WriteByte('"')
	for _, c := range s {
		switch {
		case c == '"':
			sb.WriteString(`\"`)
		case c == '\\':
			sb.WriteString(`\\`)
		case c == '/' && r != nil && Chance(r, 0.5):
			sb.WriteString(`\/`)
		case c == '\b':
			sb.WriteString(`\b`)
		case c == '\f':
			sb.WriteString(`\f`)
		case c == '\n':
			sb.WriteString(`\n`)
		case c == '\r':
			sb.WriteString(`\r`)
		case c == '\t':
			sb.WriteString(`\t`)
		case c < 0x20:
			fmt.Fprintf(&sb, `\u%04x`, c)
		case c == 0xFFFD:
			sb.WriteString(`�`)
		case r != nil && Chance(r, 0.15):
			if c > 0xffff {
				c2 := c - 0x10000
				fmt.Fprintf(&sb, `\u%04x\u%04X`, 0xd800+(c2>>10), 0xdc00+(c2&0x3ff))
			} else {
				fmt.Fprintf(&sb, `\u%04X`, c)
			}
		default:
			sb.WriteRune(c)
		}
	}
	sb.WriteByte('"')
	return sb.String()
}

func jsonValue(r *rand.Rand, sb *strings.Builder, depth int, top bool) {
	c := r.Intn(10)
	if depth <= 0 && c >= 6 {
		c = r.Intn(6)
	}
	switch c {
	case 0:
		sb.WriteString("null")
	case 1:
		sb.WriteString(Pick(r, []string{"true", "false"}))
	case 2, 3:
		sb.WriteString(JSONNumber(r))
	case 4, 5:
		sb.WriteString(JSONString(r, 2))
	case 6, 7:
		sb.WriteByte('[')
		jsonWS(r, sb)
		n := r.Intn(4)
		for i := 0; i < n; i++ {
			if i > 0 {
				sb.WriteByte(',')
				jsonWS(r, sb)
			}
			jsonValue(r, sb, depth-1, false)
			jsonWS(r, sb)
		}
		sb.WriteByte(']')
	default:
		sb.WriteByte('{')
		jsonWS(r, sb)
		n := r.Intn(4)
		for i := 0; i < n; i++ {
			if i > 0 {
				sb.WriteByte(',')
				jsonWS(r, sb)
			}
			if Chance(r, 0.5) {
				sb.WriteString(JSONQuote(r, Pick(r, []string{"a", "b", "a", "//", "k"})))
			} else {
				sb.WriteString(JSONString(r, 2))
			}
			jsonWS(r, sb)
			sb.WriteByte(':')
			jsonWS(r, sb)
			jsonValue(r, sb, depth-1, false)
			jsonWS(r, sb)
		}
		sb.WriteByte('}')
	}
}
