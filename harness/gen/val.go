// Package gen holds the seeded workload generators shared by all monitors.
package gen

import (
	"fmt"
	"math/big"
	"math/rand"
	"sort"
	"strings"

	"github.com/zclconf/go-cty/cty"
)

// SortedKeys returns the keys of m in sorted order (generators must never
// depend on Go's randomised map iteration order).
func SortedKeys[V any](m map[string]V) []string {
	ks := make([]string, 0, len(m))
	for k := range m {
		ks = append(ks, k)
	}
	sort.Strings(ks)
	return ks
}

// Pick returns a random element of xs.
func Pick[T any](r *rand.Rand, xs []T) T { return xs[r.Intn(len(xs))] }

// Chance is true with probability p.
func Chance(r *rand.Rand, p float64) bool { return r.Float64() < p }

// --------------------------------------------------------------------- strings

var trickyRunes = []rune{
	'"', '\\', '$', '%', '{', '}', '~', '\n', '\r', '\t', 0, 0x7f, 0xa0, 0x301, 0x1F600, 0x200F, 'é', 'ß', 'Ω', ' ', ' ', 'a', 'b', 'Z', '0', '9', '-', '_', '.', ',', ':', '=', '/', '#', '*', '<', '>', '\'', '`',
	0x2028, 0x0085, 0xFFFE, 0x00C5, 0x212B, 0xFB01, 0x1100, 0x1161,
}

var plainWords = []string{"a", "b", "foo", "bar", "baz", "x", "hello", "world", "k1", "k2", "name", "id", "true", "false", "null", "1", "0", "12", "3.5", "for", "in", "if", "else", "endif", "endfor", ""}

// Str returns a string over an alphabet biased to troublesome characters.
// level 0: simple words; level 1: words and some punctuation; level 2: full hostile alphabet.
func Str(r *rand.Rand, level int) string {
	switch {
	case level <= 0 || Chance(r, 0.35):
		return Pick(r, plainWords)
	case level == 1:
		n := r.Intn(6)
		var sb strings.Builder
		for i := 0; i < n; i++ {
			sb.WriteRune(Pick(r, []rune("abcxyzAB019 _-.,:/")))
		}
		return sb.String()
	}
	n := r.Intn(8)
	var sb strings.Builder
	for i := 0; i < n; i++ {
		switch r.Intn(10) {
		case 0:
			sb.WriteString(Pick(r, []string{"${", "%{", "$${", "%%{", "$", "%", "$$", "%%", "${~", "~}", "}", "\\n", "\\\"", "\\u0041", "<<EOT", "EOT", "*/", "/*", "//"}))
		case 1, 2:
			sb.WriteString(Pick(r, plainWords))
		default:
			sb.WriteRune(Pick(r, trickyRunes))
		}
	}
	return sb.String()
}

// Ident returns an identifier; with hostile, keyword-like, dashed and
// non-ASCII identifiers too.
func Ident(r *rand.Rand, hostile bool) string {
	base := []string{"a", "b", "c", "foo", "bar", "baz", "x", "y", "item", "name", "id", "v", "k", "w1", "w_2"}
	if !hostile || Chance(r, 0.6) {
		return Pick(r, base)
	}
	return Pick(r, []string{"for", "in", "if", "else", "endif", "endfor", "null", "true", "false", "dynamic", "content", "a-b", "a_b", "_x", "é", "naïve", "x9", "A", "Ω1", "a--b", "each"})
}

// --------------------------------------------------------------------- numbers

// NumText returns the canonical decimal text of a number literal (non-negative;
// negation is an operator in HCL) and its exact value.
func NumText(r *rand.Rand) string {
	switch r.Intn(12) {
	case 0:
		return "0"
	case 1:
		return "1"
	case 2:
		return "2"
	case 3:
		return fmt.Sprint(r.Intn(10))
	case 4:
		return fmt.Sprint(r.Intn(1000))
	case 5:
		return fmt.Sprintf("%d.%d", r.Intn(100), r.Intn(100))
	case 6:
		return "0.5"
	case 7:
		return "1e3"
	case 8:
		// exponent forms include values float64 cannot hold exactly or at all
		switch r.Intn(4) {
		case 0:
			return fmt.Sprintf("%de%d", 1+r.Intn(9), 23+r.Intn(400))
		case 1:
			return fmt.Sprintf("%d.%de%d", 1+r.Intn(9), 1+r.Intn(99999), 23+r.Intn(40))
		}
		return fmt.Sprintf("%de%d", 1+r.Intn(9), r.Intn(20))
	case 9:
		return "123456789012345678901234567890"
	case 10:
		return fmt.Sprintf("%d.%de-%d", r.Intn(10), r.Intn(1000), r.Intn(10))
	}
	return fmt.Sprint(r.Intn(5))
}

// ParseNum parses decimal text exactly the way the HCL information model
// describes numbers (arbitrary precision; 512-bit mantissa as cty uses).
func ParseNum(s string) *big.Float {
	f, _, err := big.ParseFloat(s, 10, 512, big.ToNearestEven)
	if err != nil {
		panic("gen.ParseNum: " + s + ": " + err.Error())
	}
	return f
}

func NumVal(s string) cty.Value { return cty.NumberVal(ParseNum(s)) }

// --------------------------------------------------------------------- types and values

// Type returns a random cty type of bounded depth.
func Type(r *rand.Rand, depth int) cty.Type {
	if depth <= 0 || Chance(r, 0.5) {
		return Pick(r, []cty.Type{cty.String, cty.Number, cty.Bool})
	}
	switch r.Intn(6) {
	case 0:
		return cty.List(Type(r, depth-1))
	case 1:
		return cty.Set(Pick(r, []cty.Type{cty.String, cty.Number, cty.Bool}))
	case 2:
		return cty.Map(Type(r, depth-1))
	case 3:
		n := r.Intn(3)
		tys := make([]cty.Type, n)
		for i := range tys {
			tys[i] = Type(r, depth-1)
		}
		return cty.Tuple(tys)
	default:
		n := r.Intn(4)
		atys := map[string]cty.Type{}
		for i := 0; i < n; i++ {
			atys[Pick(r, attrNames)] = Type(r, depth-1)
		}
		return cty.Object(atys)
	}
}

var attrNames = []string{"a", "b", "c", "foo", "bar", "id", "name"}

// AttrNames lists the attribute names the generators use for objects.
func AttrNames() []string { return attrNames }

type ValOpts struct {
	StrLevel  int     // alphabet level for strings
	NullProb  float64 // probability of a null at each position
	EmptyProb float64 // extra probability of empty collections
	MapKeys   []string
}

// Value returns a wholly known value of the given type.
func Value(r *rand.Rand, ty cty.Type, o ValOpts) cty.Value {
	if o.NullProb > 0 && Chance(r, o.NullProb) {
		return cty.NullVal(ty)
	}
	switch {
	case ty == cty.String:
		return cty.StringVal(Str(r, o.StrLevel))
	case ty == cty.Number:
		if Chance(r, 0.25) {
			return NumVal("-" + NumText(r))
		}
		return NumVal(NumText(r))
	case ty == cty.Bool:
		return cty.BoolVal(Chance(r, 0.5))
	case ty == cty.DynamicPseudoType:
		return Value(r, Type(r, 1), o)
	case ty.IsListType():
		n := collLen(r, o)
		if n == 0 {
			return cty.ListValEmpty(ty.ElementType())
		}
		vs := make([]cty.Value, n)
		for i := range vs {
			vs[i] = Value(r, ty.ElementType(), o)
		}
		return cty.ListVal(vs)
	case ty.IsSetType():
		n := collLen(r, o)
		if n == 0 {
			return cty.SetValEmpty(ty.ElementType())
		}
		vs := make([]cty.Value, n)
		for i := range vs {
			vs[i] = Value(r, ty.ElementType(), ValOpts{StrLevel: o.StrLevel})
		}
		return cty.SetVal(vs)
	case ty.IsMapType():
		n := collLen(r, o)
		if n == 0 {
			return cty.MapValEmpty(ty.ElementType())
		}
		m := map[string]cty.Value{}
		for i := 0; i < n; i++ {
			var k string
			if len(o.MapKeys) > 0 {
				k = Pick(r, o.MapKeys)
			} else {
				k = Pick(r, []string{"a", "b", "c", "k1", "k2", "foo", "0", "1", "x y", ""})
			}
			m[k] = Value(r, ty.ElementType(), o)
		}
		return cty.MapVal(m)
	case ty.IsTupleType():
		etys := ty.TupleElementTypes()
		if len(etys) == 0 {
			return cty.EmptyTupleVal
		}
		vs := make([]cty.Value, len(etys))
		for i := range vs {
			vs[i] = Value(r, etys[i], o)
		}
		return cty.TupleVal(vs)
	case ty.IsObjectType():
		atys := ty.AttributeTypes()
		if len(atys) == 0 {
			return cty.EmptyObjectVal
		}
		m := map[string]cty.Value{}
		for _, k := range SortedKeys(atys) {
			m[k] = Value(r, atys[k], o)
		}
		return cty.ObjectVal(m)
	}
	panic("gen.Value: unsupported type " + ty.FriendlyName())
}

func collLen(r *rand.Rand, o ValOpts) int {
	if Chance(r, 0.15+o.EmptyProb) {
		return 0
	}
	return 1 + r.Intn(3)
}

// AnyValue returns a value of a random type.
func AnyValue(r *rand.Rand, depth int, o ValOpts) cty.Value {
	return Value(r, Type(r, depth), o)
}

// SameTypeOther returns another value of v's type, different from v where the
// type has more than one inhabitant (best effort, bounded tries).
func SameTypeOther(r *rand.Rand, v cty.Value, o ValOpts) cty.Value {
	uv, _ := v.UnmarkDeep()
	for i := 0; i < 12; i++ {
		w := Value(r, uv.Type(), o)
		if !w.RawEquals(uv) {
			return w
		}
	}
	return uv
}
