package gen

import (
	"math/rand"
	"strings"
)

// Abstract body trees: what a configuration says, independent of syntax.

type Attr struct {
	Name string
	Expr *Node
}

type Block struct {
	Type   string
	Labels []string
	Body   *Body
}

type Item struct {
	Attr  *Attr
	Block *Block
}

type Body struct {
	Items []*Item
}

func (b *Body) Attrs() []*Attr {
	var out []*Attr
	for _, it := range b.Items {
		if it.Attr != nil {
			out = append(out, it.Attr)
		}
	}
	return out
}

func (b *Body) Blocks() []*Block {
	var out []*Block
	for _, it := range b.Items {
		if it.Block != nil {
			out = append(out, it.Block)
		}
	}
	return out
}

// Walk visits every body in the tree (pre-order) with its nesting depth.
func (b *Body) Walk(f func(b *Body, depth int)) {
	var rec func(b *Body, d int)
	rec = func(b *Body, d int) {
		f(b, d)
		for _, it := range b.Items {
			if it.Block != nil {
				rec(it.Block.Body, d+1)
			}
		}
	}
	rec(b, 0)
}

type BodyOpts struct {
	MaxDepth   int
	MaxItems   int
	AttrNames  []string
	BlockTypes []string
	MaxLabels  int
	LabelLevel int // 0 identifiers, 1 mild, 2 hostile alphabet
	// ExprFn generates the expression of an attribute.
	ExprFn func(r *rand.Rand) *Node
	// FixedLabels: block type -> label count (consistent counts per type)
	FixedLabels map[string]int
}

var defaultAttrNames = []string{"a", "b", "c", "name", "id", "count", "enabled", "for", "in", "if", "null", "dynamic", "a-b", "é", "x9", "_u"}
var defaultBlockTypes = []string{"b", "blk", "resource", "svc", "nested", "x-y", "z_1"}

// GenBody builds a random abstract body tree with unique attribute names per body.
func GenBody(r *rand.Rand, o BodyOpts, depth int) *Body {
	if o.AttrNames == nil {
		o.AttrNames = defaultAttrNames
	}
	if o.BlockTypes == nil {
		o.BlockTypes = defaultBlockTypes
	}
	if o.MaxItems == 0 {
		o.MaxItems = 5
	}
	b := &Body{}
	n := r.Intn(o.MaxItems + 1)
	used := map[string]bool{}
	for i := 0; i < n; i++ {
		if depth < o.MaxDepth && Chance(r, 0.4) {
			ty := Pick(r, o.BlockTypes)
			nl := r.Intn(o.MaxLabels + 1)
			if o.FixedLabels != nil {
				if c, ok := o.FixedLabels[ty]; ok {
					nl = c
				} else {
					o.FixedLabels[ty] = nl
				}
			}
			blk := &Block{Type: ty}
			for j := 0; j < nl; j++ {
				blk.Labels = append(blk.Labels, Label(r, o.LabelLevel))
			}
			blk.Body = GenBody(r, o, depth+1)
			b.Items = append(b.Items, &Item{Block: blk})
		} else {
			name := Pick(r, o.AttrNames)
			if used[name] {
				continue
			}
			used[name] = true
			b.Items = append(b.Items, &Item{Attr: &Attr{Name: name, Expr: o.ExprFn(r)}})
		}
	}
	return b
}

// Label returns a block label string.
func Label(r *rand.Rand, level int) string {
	switch level {
	case 0:
		return Pick(r, []string{"a", "b", "foo", "bar", "web", "db", "x1"})
	case 1:
		return Pick(r, []string{"a", "foo", "A", "a b", "a.b", "a-b", "1", "", "true", "for", "é", "b", "c", "b.c", "a.b.c", "//", "#"})
	}
	if Chance(r, 0.5) {
		return Pick(r, []string{"a", "foo", "a$b", "100%", "$${x}", "${x}", "%{y}", "a\"b", "a\\b", "", "A", "tab\there", "nl\nx", "$", "%", "é", "𝒳", "a b", "for", "null", "~", "//", "/*", "#"})
	}
	return Str(r, 2)
}

// ------------------------------------------------------------ native rendering

// FileLayout controls the structural layout of a native rendering.
type FileLayout struct {
	R          *rand.Rand
	Expr       *Layout // expression layout (Body is forced true)
	Indent     string
	BlankProb  float64
	Comments   bool
	CRLF       bool
	rawHeredoc bool
	NoFinalNL  bool
	BOM        bool
	OneLine    bool // allow one-line blocks
	BareLabel  float64
	Gap        float64 // structural token-gap noise
}

func RandomFileLayout(r *rand.Rand) *FileLayout {
	el := RandomLayout(r)
	el.Body = true
	return &FileLayout{R: r, Expr: el, Indent: Pick(r, []string{"", "  ", "\t", "    "}), BlankProb: Pick(r, []float64{0, 0.2, 0.5}), Comments: Chance(r, 0.5),
		CRLF: Chance(r, 0.15), NoFinalNL: Chance(r, 0.2), BOM: Chance(r, 0.1), OneLine: Chance(r, 0.5), BareLabel: Pick(r, []float64{0, 0.5, 1}), Gap: Pick(r, []float64{0, 0.3})}
}

func CanonicalFileLayout() *FileLayout {
	return &FileLayout{Expr: &Layout{Body: true}, Indent: "  "}
}

func (fl *FileLayout) chance(p float64) bool {
	if fl.R == nil {
		return false
	}
	return fl.R.Float64() < p
}

func (fl *FileLayout) gap(canon string) string {
	if fl.R == nil || !fl.chance(fl.Gap) {
		return canon
	}
	opts := []string{" ", "  ", "\t", " \t"}
	if canon == "" || fl.chance(0.3) {
		opts = append(opts, "")
	}
	if fl.Comments {
		// (an inline comment is whitespace even when it spans several lines)
		opts = append(opts, " /* c */ ", "/**/", " /* two\n lines */ ", "/*\n*/")
	}
	return Pick(fl.R, opts)
}

func (fl *FileLayout) comment() string {
	return Pick(fl.R, []string{"# c\n", "// note\n", "/* block */\n", "#\n", "/* multi\n line */\n", "# é ${x} \"\n"})
}

// RenderNative renders the body tree as native syntax.
func RenderNative(b *Body, fl *FileLayout) string {
	var sb strings.Builder
	heredoc := false
	fl.rawHeredoc = false
	fl.renderBody(&sb, b, 0, &heredoc)
	out := sb.String()
	if fl.NoFinalNL && !heredoc && !fl.rawHeredoc {
		out = strings.TrimRight(out, "\n")
	}
	if fl.CRLF && !heredoc {
		out = strings.ReplaceAll(out, "\n", "\r\n")
	}
	if fl.BOM {
		out = "\xef\xbb\xbf" + out
	}
	return out
}

func (fl *FileLayout) renderBody(sb *strings.Builder, b *Body, depth int, heredoc *bool) {
	ind := strings.Repeat(fl.Indent, depth)
	for _, it := range b.Items {
		if fl.chance(fl.BlankProb) {
			sb.WriteString("\n")
		}
		if fl.Comments && fl.chance(0.25) {
			sb.WriteString(ind + fl.comment())
		}
		if it.Attr != nil {
			sb.WriteString(ind)
			sb.WriteString(it.Attr.Name)
			sb.WriteString(fl.gap(" "))
			sb.WriteString("=")
			sb.WriteString(fl.gap(" "))
			el := fl.Expr
			if el == nil {
				el = &Layout{}
			}
			el.Body = true
			el.UsedHeredoc = false
			src := RenderExpr(it.Attr.Expr, el)
			if el.UsedHeredoc {
				*heredoc = true
			}
			if it.Attr.Expr.Kind == KRaw && it.Attr.Expr.Bool {
				fl.rawHeredoc = true // (a closing marker needs its newline; CRLF conversion still applies)
			}
			sb.WriteString(strings.TrimLeft(src, " \t"))
			if strings.HasSuffix(src, "\n") {
				continue
			}
			if fl.Comments && fl.chance(0.25) {
				sb.WriteString(Pick(fl.R, []string{" # trailing", " // t", " /* t */", "#x"}))
			}
			sb.WriteString("\n")
			continue
		}
		blk := it.Block
		sb.WriteString(ind)
		sb.WriteString(blk.Type)
		for _, l := range blk.Labels {
			g := fl.gap(" ")
			if g == "" {
				g = " "
			}
			sb.WriteString(g)
			if validIdent(l) && fl.chance(fl.BareLabel) {
				sb.WriteString(l)
			} else {
				w := &writer{l: fl.Expr}
				sb.WriteString(w.quoted(l))
			}
		}
		g := fl.gap(" ")
		sb.WriteString(g)
		sb.WriteString("{")
		inner := blk.Body
		switch {
		case len(inner.Items) == 0 && fl.chance(0.5):
			sb.WriteString(fl.gap(""))
			sb.WriteString("}")
		case fl.OneLine && len(inner.Items) == 1 && inner.Items[0].Attr != nil && fl.chance(0.6):
			el := &Layout{R: fl.Expr.R, Noise: fl.Expr.Noise, Parens: fl.Expr.Parens, Spell: fl.Expr.Spell, Body: true, ObjStyle: true}
			src := RenderExpr(inner.Items[0].Attr.Expr, el)
			if strings.Contains(src, "\n") {
				sb.WriteString("\n")
				fl.renderBody(sb, inner, depth+1, heredoc)
				sb.WriteString(ind + "}")
			} else {
				sb.WriteString(fl.gap(" ") + inner.Items[0].Attr.Name + fl.gap(" ") + "=" + fl.gap(" ") + strings.TrimLeft(src, " \t") + fl.gap(" ") + "}")
			}
		default:
			if fl.Comments && fl.chance(0.2) {
				sb.WriteString(" # after brace")
			}
			sb.WriteString("\n")
			fl.renderBody(sb, inner, depth+1, heredoc)
			if fl.Comments && fl.chance(0.15) {
				sb.WriteString(ind + fl.Indent + fl.comment())
			}
			sb.WriteString(ind + "}")
		}
		if fl.Comments && fl.chance(0.2) {
			sb.WriteString(Pick(fl.R, []string{" # end", " // e", " /* e */"}))
		}
		sb.WriteString("\n")
	}
}
