package gen

import (
	"fmt"
	"math/big"
	"math/rand"
	"sort"

	"github.com/zclconf/go-cty/cty"
)

// Kind of an expression AST node. The AST is the harness's own (it shares
// nothing with hclsyntax) and is what generators build, renderers print,
// the reference evaluator interprets and shrinkers cut down.
type Kind int

const (
	KNum Kind = iota
	KBool
	KNull
	KStr      // quoted string literal without template sequences
	KVar      // variable reference
	KAttr     // Kids[0].Name
	KIndex    // Kids[0][Kids[1]]
	KLegacy   // Kids[0].N  (legacy index, N in Num)
	KSplat    // Kids[0].*tail or Kids[0][*]tail ; Full says which; Tail steps
	KTuple    // [Kids...]
	KObject   // {Keys[i] = Kids[i]}
	KUnary    // Op Kids[0]
	KBinary   // Kids[0] Op Kids[1]
	KCond     // Kids[0] ? Kids[1] : Kids[2]
	KParen    // (Kids[0])
	KCall     // Name(Kids...) ; Expand says last arg has "..."
	KForTuple // [for K, V in Coll : Val if Cond]
	KForObject
	KTemplate // quoted or heredoc template with Parts
	KRaw      // verbatim expression text in Str (rendered in parentheses)
)

var kindNames = map[Kind]string{KNum: "num", KBool: "bool", KNull: "null", KStr: "str", KVar: "var", KAttr: "attr", KIndex: "index", KLegacy: "legacyindex", KSplat: "splat", KTuple: "tuple", KObject: "object", KUnary: "unary", KBinary: "binary", KCond: "cond", KParen: "paren", KCall: "call", KForTuple: "fortuple", KForObject: "forobject", KTemplate: "template", KRaw: "raw"}

func (k Kind) String() string { return kindNames[k] }

// ObjKey forms.
const (
	KeyIdent  = iota // foo = ...   (literal name)
	KeyQuoted        // "foo" = ... (Expr is a KStr or KTemplate node)
	KeyParen         // (expr) = ...
	KeyExpr          // bare non-identifier expression: number, true/false/null, call
)

type ObjKey struct {
	Form int
	Name string // KeyIdent
	Expr *Node  // other forms
}

// Step of a splat tail.
type Step struct {
	Attr   string // when Index == nil && !Legacy
	Index  *Node
	Legacy bool
	N      int
}

// Template part kinds.
const (
	TLit = iota
	TInterp
	TIf
	TFor
)

type TPart struct {
	Kind    int
	Lit     string
	Expr    *Node // interpolation expr / if condition / for collection
	Then    []TPart
	Else    []TPart
	HasElse bool
	KeyVar  string
	ValVar  string
	// Strip flags. For TInterp: [0]=left (${~) [1]=right (~}).
	// For TIf: [0,1]=if marker, [2,3]=else marker, [4,5]=endif marker.
	// For TFor: [0,1]=for marker, [4,5]=endfor marker.
	Strip [6]bool
}

type Node struct {
	Kind Kind
	Num  string // KNum: literal text; KLegacy: index digits
	Bool bool
	Str  string // KStr content
	Name string // KVar, KAttr, KCall
	Op   string
	Kids []*Node
	Keys []ObjKey
	// splat
	Full bool
	Tail []Step
	// call
	Expand bool
	// for
	KeyVar, ValVar         string
	Coll, KeyE, ValE, Cond *Node
	Group                  bool
	// template
	Parts []TPart
	// Ty is the generator's static guess of the result type
	// (DynamicPseudoType when it does not know). Never used by oracles.
	Ty cty.Type
}

func N(k Kind) *Node { return &Node{Kind: k, Ty: cty.DynamicPseudoType} }

func Num(s string) *Node              { return &Node{Kind: KNum, Num: s, Ty: cty.Number} }
func Bool(b bool) *Node               { return &Node{Kind: KBool, Bool: b, Ty: cty.Bool} }
func Null() *Node                     { return &Node{Kind: KNull, Ty: cty.DynamicPseudoType} }
func StrLit(s string) *Node           { return &Node{Kind: KStr, Str: s, Ty: cty.String} }
func Var(n string, ty cty.Type) *Node { return &Node{Kind: KVar, Name: n, Ty: ty} }

// Walk visits n and every descendant expression node.
func (n *Node) Walk(f func(*Node)) {
	if n == nil {
		return
	}
	f(n)
	for _, k := range n.Kids {
		k.Walk(f)
	}
	for _, k := range n.Keys {
		k.Expr.Walk(f)
	}
	for _, s := range n.Tail {
		s.Index.Walk(f)
	}
	n.Coll.Walk(f)
	n.KeyE.Walk(f)
	n.ValE.Walk(f)
	n.Cond.Walk(f)
	walkParts(n.Parts, f)
}

func walkParts(ps []TPart, f func(*Node)) {
	for _, p := range ps {
		p.Expr.Walk(f)
		walkParts(p.Then, f)
		walkParts(p.Else, f)
	}
}

// Depth of the AST.
func (n *Node) Depth() int {
	if n == nil {
		return 0
	}
	d := 0
	var rec func(m *Node, lvl int)
	seen := 0
	rec = func(m *Node, lvl int) {
		if m == nil {
			return
		}
		seen++
		if lvl > d {
			d = lvl
		}
		for _, k := range m.Kids {
			rec(k, lvl+1)
		}
		for _, k := range m.Keys {
			rec(k.Expr, lvl+1)
		}
		for _, s := range m.Tail {
			rec(s.Index, lvl+1)
		}
		rec(m.Coll, lvl+1)
		rec(m.KeyE, lvl+1)
		rec(m.ValE, lvl+1)
		rec(m.Cond, lvl+1)
		var rp func(ps []TPart)
		rp = func(ps []TPart) {
			for _, p := range ps {
				rec(p.Expr, lvl+1)
				rp(p.Then)
				rp(p.Else)
			}
		}
		rp(m.Parts)
	}
	rec(n, 1)
	return d
}

// KindsUsed returns the sorted distinct node kinds in the AST.
func (n *Node) KindsUsed() []string {
	set := map[string]bool{}
	n.Walk(func(m *Node) {
		set[m.Kind.String()] = true
		if m.Kind == KBinary || m.Kind == KUnary {
			set["op"+m.Op] = true
		}
		if m.Kind == KSplat {
			if m.Full {
				set["splat[*]"] = true
			} else {
				set["splat.*"] = true
			}
		}
		if m.Kind == KTemplate {
			var rp func(ps []TPart)
			rp = func(ps []TPart) {
				for _, p := range ps {
					switch p.Kind {
					case TInterp:
						set["t-interp"] = true
					case TIf:
						set["t-if"] = true
					case TFor:
						set["t-for"] = true
					}
					for _, s := range p.Strip {
						if s {
							set["t-strip"] = true
						}
					}
					rp(p.Then)
					rp(p.Else)
				}
			}
			rp(m.Parts)
		}
	})
	var out []string
	for k := range set {
		out = append(out, k)
	}
	sort.Strings(out)
	return out
}

// ------------------------------------------------------------------ scopes

// Scope is a variable scope of wholly known values.
type Scope struct {
	Vars  map[string]cty.Value
	Names []string // sorted
}

func (s *Scope) Set(name string, v cty.Value) {
	if _, ok := s.Vars[name]; !ok {
		s.Names = append(s.Names, name)
		sort.Strings(s.Names)
	}
	s.Vars[name] = v
}

func (s *Scope) Clone() *Scope {
	c := &Scope{Vars: map[string]cty.Value{}, Names: append([]string(nil), s.Names...)}
	for k, v := range s.Vars {
		c.Vars[k] = v
	}
	return c
}

var scopeNames = []string{"a", "b", "c", "n", "m", "s", "t", "f", "lst", "mp", "obj", "tup", "st", "nul", "x", "y", "deep", "e"}

// NewScope builds a scope with at least one variable of every cty kind.
func NewScope(r *rand.Rand, o ValOpts) *Scope {
	s := &Scope{Vars: map[string]cty.Value{}}
	s.Set("n", Value(r, cty.Number, ValOpts{}))
	s.Set("m", Value(r, cty.Number, ValOpts{}))
	s.Set("s", Value(r, cty.String, o))
	s.Set("t", Value(r, cty.String, ValOpts{StrLevel: 0}))
	s.Set("f", Value(r, cty.Bool, ValOpts{}))
	s.Set("lst", Value(r, cty.List(Pick(r, []cty.Type{cty.String, cty.Number, cty.Object(map[string]cty.Type{"id": cty.Number, "name": cty.String})})), o))
	s.Set("mp", Value(r, cty.Map(Pick(r, []cty.Type{cty.String, cty.Number, cty.Bool})), o))
	s.Set("obj", Value(r, cty.Object(map[string]cty.Type{"a": cty.Number, "b": cty.String, "c": cty.List(cty.Number), "id": Type(r, 1)}), o))
	s.Set("tup", Value(r, cty.Tuple([]cty.Type{cty.Number, cty.String, Type(r, 1)}), o))
	s.Set("st", Value(r, cty.Set(Pick(r, []cty.Type{cty.String, cty.Number})), o))
	if Chance(r, 0.5) {
		s.Set("nul", cty.NullVal(Pick(r, []cty.Type{cty.DynamicPseudoType, cty.String, cty.Number, cty.List(cty.String), cty.Bool})))
	}
	if Chance(r, 0.6) {
		s.Set("deep", Value(r, cty.List(cty.Object(map[string]cty.Type{"id": cty.Number, "tags": cty.List(cty.String), "sub": cty.Object(map[string]cty.Type{"name": cty.String})})), o))
	}
	n := r.Intn(4)
	for i := 0; i < n; i++ {
		s.Set(Pick(r, []string{"a", "b", "c", "x", "y", "e"}), AnyValue(r, 2, o))
	}
	return s
}

// Path is an expression that reads (part of) a scope variable, with its type.
type Path struct {
	E  *Node
	Ty cty.Type
}

// Paths enumerates variable reads and nested reads (attribute, index) up to
// two steps deep, with exact static types, for type-directed generation.
func (s *Scope) Paths() []Path {
	var out []Path
	for _, name := range s.Names {
		v := s.Vars[name]
		uv, _ := v.UnmarkDeep()
		root := Var(name, uv.Type())
		out = append(out, Path{root, uv.Type()})
		if v.ContainsMarked() {
			// never spell parts of a marked value (map keys) into source text
			continue
		}
		addSubPaths(&out, root, uv, 2)
	}
	return out
}

func addSubPaths(out *[]Path, base *Node, v cty.Value, depth int) {
	if depth == 0 || v.IsNull() || !v.IsKnown() {
		return
	}
	ty := v.Type()
	switch {
	case ty.IsObjectType():
		for _, name := range SortedKeys(ty.AttributeTypes()) {
			if !validIdent(name) {
				continue
			}
			e := &Node{Kind: KAttr, Name: name, Kids: []*Node{base}, Ty: ty.AttributeType(name)}
			*out = append(*out, Path{e, e.Ty})
			addSubPaths(out, e, v.GetAttr(name), depth-1)
		}
	case ty.IsListType() || ty.IsTupleType():
		n := v.LengthInt()
		for i := 0; i < n && i < 3; i++ {
			ev := v.Index(cty.NumberIntVal(int64(i)))
			e := &Node{Kind: KIndex, Kids: []*Node{base, Num(fmt.Sprint(i))}, Ty: ev.Type()}
			*out = append(*out, Path{e, e.Ty})
			addSubPaths(out, e, ev, depth-1)
		}
	case ty.IsMapType():
		vm := v.AsValueMap()
		for _, k := range SortedKeys(vm) {
			ev := vm[k]
			e := &Node{Kind: KIndex, Kids: []*Node{base, StrLit(k)}, Ty: ev.Type()}
			*out = append(*out, Path{e, e.Ty})
		}
	}
}

func validIdent(s string) bool {
	if s == "" {
		return false
	}
	for i, c := range s {
		if c == '_' || (c >= 'a' && c <= 'z') || (c >= 'A' && c <= 'Z') {
			continue
		}
		if i > 0 && ((c >= '0' && c <= '9') || c == '-') {
			continue
		}
		return false
	}
	switch s {
	case "for", "in", "if", "else", "endif", "endfor", "null", "true", "false":
		return false
	}
	return true
}

// ------------------------------------------------------------------ functions

// FuncSpec describes one harness function for both the cty function table and
// the reference evaluator's independent argument mapping.
type FuncParam struct {
	Type         cty.Type
	AllowNull    bool
	AllowUnknown bool
	AllowDynamic bool
	AllowMarked  bool
}

type FuncSpec struct {
	Name   string
	Params []FuncParam
	Var    *FuncParam
	// Ret computes the return type from (converted) argument types.
	Ret func(args []cty.Value) cty.Type
	// Impl computes the result from converted, known, unmarked arguments.
	Impl func(args []cty.Value) (cty.Value, error)
}

// ------------------------------------------------------------------ generator

type Want int

const (
	WAny Want = iota
	WNum
	WStr
	WBool
	WSeq // tuple / list / set
	WObj // object / map
)

type bound struct {
	name string
	ty   cty.Type
}

// G generates expression ASTs, type-directed with error rate Eps.
type G struct {
	R        *rand.Rand
	Scope    *Scope
	paths    []Path
	bound    []bound
	Eps      float64
	StrLevel int
	// feature switches (true disables)
	NoCalls, NoTemplates, NoFor, NoSplat, NoHostileKeys bool
	// FreshBound makes every iterator name globally unique (C07 precision clause).
	FreshBound bool
	fresh      int
	// Funcs lists callable functions (name -> spec).
	Funcs map[string]*FuncSpec
}

func NewG(r *rand.Rand, s *Scope, eps float64) *G {
	return &G{R: r, Scope: s, paths: s.Paths(), Eps: eps, StrLevel: 1, Funcs: StdFuncs()}
}

func wantOf(ty cty.Type) Want {
	switch {
	case ty == cty.Number:
		return WNum
	case ty == cty.String:
		return WStr
	case ty == cty.Bool:
		return WBool
	case ty.IsListType() || ty.IsTupleType() || ty.IsSetType():
		return WSeq
	case ty.IsObjectType() || ty.IsMapType():
		return WObj
	}
	return WAny
}

func (g *G) typeOK(ty cty.Type, w Want) bool {
	if w == WAny {
		return true
	}
	return wantOf(ty) == w
}

// pickPath returns a scope read (or bound iterator) matching w, or nil.
func (g *G) pickPath(w Want) *Node {
	var cands []*Node
	for _, b := range g.bound {
		if g.typeOK(b.ty, w) || (b.ty == cty.DynamicPseudoType && Chance(g.R, 0.3)) {
			cands = append(cands, Var(b.name, b.ty), Var(b.name, b.ty)) // weight bound vars
		}
	}
	for _, p := range g.paths {
		if g.typeOK(p.Ty, w) {
			cands = append(cands, p.E)
		}
	}
	if len(cands) == 0 {
		return nil
	}
	return cloneNode(Pick(g.R, cands))
}

func cloneNode(n *Node) *Node {
	if n == nil {
		return nil
	}
	c := *n
	c.Kids = make([]*Node, len(n.Kids))
	for i, k := range n.Kids {
		c.Kids[i] = cloneNode(k)
	}
	return &c
}

// Rewrite returns a deep copy of the AST in which f has been applied to every
// node, children first (f may return its argument or a replacement).
func Rewrite(n *Node, f func(*Node) *Node) *Node {
	if n == nil {
		return nil
	}
	c := *n
	c.Kids = make([]*Node, len(n.Kids))
	for i, k := range n.Kids {
		c.Kids[i] = Rewrite(k, f)
	}
	c.Keys = make([]ObjKey, len(n.Keys))
	for i, k := range n.Keys {
		c.Keys[i] = k
		c.Keys[i].Expr = Rewrite(k.Expr, f)
	}
	c.Tail = make([]Step, len(n.Tail))
	for i, st := range n.Tail {
		c.Tail[i] = st
		c.Tail[i].Index = Rewrite(st.Index, f)
	}
	c.Coll, c.KeyE, c.ValE, c.Cond = Rewrite(n.Coll, f), Rewrite(n.KeyE, f), Rewrite(n.ValE, f), Rewrite(n.Cond, f)
	var parts func(ps []TPart) []TPart
	parts = func(ps []TPart) []TPart {
		if ps == nil {
			return nil
		}
		out := make([]TPart, len(ps))
		for i, p := range ps {
			out[i] = p
			out[i].Expr = Rewrite(p.Expr, f)
			out[i].Then = parts(p.Then)
			out[i].Else = parts(p.Else)
		}
		return out
	}
	c.Parts = parts(n.Parts)
	return f(&c)
}

// Expr generates an expression the generator believes has a type matching w.
func (g *G) Expr(w Want, depth int) *Node {
	if Chance(g.R, g.Eps) {
		w = Want(g.R.Intn(6))
	}
	if depth <= 0 {
		return g.leaf(w)
	}
	if Chance(g.R, 0.22) {
		return g.leaf(w)
	}
	switch w {
	case WNum:
		return g.numExpr(depth)
	case WStr:
		return g.strExpr(depth)
	case WBool:
		return g.boolExpr(depth)
	case WSeq:
		return g.seqExpr(depth)
	case WObj:
		return g.objExpr(depth)
	}
	return g.Expr(Want(1+g.R.Intn(5)), depth)
}

func (g *G) leaf(w Want) *Node {
	if Chance(g.R, 0.55) {
		if p := g.pickPath(w); p != nil {
			return p
		}
	}
	switch w {
	case WNum:
		return Num(NumText(g.R))
	case WStr:
		return StrLit(Str(g.R, g.StrLevel))
	case WBool:
		return Bool(Chance(g.R, 0.5))
	case WSeq:
		if p := g.pickPath(w); p != nil && Chance(g.R, 0.7) {
			return p
		}
		n := g.R.Intn(3)
		t := &Node{Kind: KTuple}
		var etys []cty.Type
		for i := 0; i < n; i++ {
			k := g.leaf(Want(1 + g.R.Intn(3)))
			t.Kids = append(t.Kids, k)
			etys = append(etys, k.Ty)
		}
		t.Ty = cty.Tuple(etys)
		return t
	case WObj:
		if p := g.pickPath(w); p != nil && Chance(g.R, 0.7) {
			return p
		}
		return g.objectCons(0)
	}
	switch g.R.Intn(8) {
	case 0:
		return Null()
	case 1:
		if p := g.pickPath(WAny); p != nil {
			return p
		}
	}
	return g.leaf(Want(1 + g.R.Intn(5)))
}

func (g *G) paren(n *Node) *Node {
	return &Node{Kind: KParen, Kids: []*Node{n}, Ty: n.Ty}
}

func (g *G) cond(w Want, depth int) *Node {
	a, b := g.Expr(w, depth-1), g.Expr(w, depth-1)
	ty := cty.DynamicPseudoType
	if a.Ty.Equals(b.Ty) {
		ty = a.Ty
	}
	return &Node{Kind: KCond, Kids: []*Node{g.Expr(WBool, depth-1), a, b}, Ty: ty}
}

func (g *G) numExpr(depth int) *Node {
	switch g.R.Intn(10) {
	case 0, 1, 2, 3:
		op := Pick(g.R, []string{"+", "-", "*", "/", "%"})
		return &Node{Kind: KBinary, Op: op, Kids: []*Node{g.Expr(WNum, depth-1), g.Expr(WNum, depth-1)}, Ty: cty.Number}
	case 4:
		return &Node{Kind: KUnary, Op: "-", Kids: []*Node{g.Expr(WNum, depth-1)}, Ty: cty.Number}
	case 5:
		return g.cond(WNum, depth)
	case 6:
		if n := g.callExpr(WNum, depth); n != nil {
			return n
		}
	case 7:
		return g.paren(g.Expr(WNum, depth-1))
	case 8:
		if n := g.accessExpr(WNum, depth); n != nil {
			return n
		}
	}
	return g.leaf(WNum)
}

func (g *G) strExpr(depth int) *Node {
	switch g.R.Intn(8) {
	case 0, 1, 2:
		if !g.NoTemplates {
			return g.Template(depth)
		}
	case 3:
		return g.cond(WStr, depth)
	case 4:
		if n := g.callExpr(WStr, depth); n != nil {
			return n
		}
	case 5:
		if n := g.accessExpr(WStr, depth); n != nil {
			return n
		}
	case 6:
		return g.paren(g.Expr(WStr, depth-1))
	}
	return g.leaf(WStr)
}

func (g *G) boolExpr(depth int) *Node {
	switch g.R.Intn(10) {
	case 0, 1:
		op := Pick(g.R, []string{"<", ">", "<=", ">="})
		return &Node{Kind: KBinary, Op: op, Kids: []*Node{g.Expr(WNum, depth-1), g.Expr(WNum, depth-1)}, Ty: cty.Bool}
	case 2, 3:
		op := Pick(g.R, []string{"==", "!="})
		w := Want(g.R.Intn(6))
		return &Node{Kind: KBinary, Op: op, Kids: []*Node{g.Expr(w, depth-1), g.Expr(w, depth-1)}, Ty: cty.Bool}
	case 4, 5:
		op := Pick(g.R, []string{"&&", "||"})
		return &Node{Kind: KBinary, Op: op, Kids: []*Node{g.Expr(WBool, depth-1), g.Expr(WBool, depth-1)}, Ty: cty.Bool}
	case 6:
		return &Node{Kind: KUnary, Op: "!", Kids: []*Node{g.Expr(WBool, depth-1)}, Ty: cty.Bool}
	case 7:
		return g.cond(WBool, depth)
	case 8:
		return g.paren(g.Expr(WBool, depth-1))
	}
	return g.leaf(WBool)
}

func (g *G) seqExpr(depth int) *Node {
	switch g.R.Intn(9) {
	case 0, 1:
		n := g.R.Intn(4)
		t := &Node{Kind: KTuple}
		var etys []cty.Type
		ew := Want(g.R.Intn(6))
		for i := 0; i < n; i++ {
			w := ew
			if Chance(g.R, 0.3) {
				w = Want(g.R.Intn(6))
			}
			k := g.Expr(w, depth-1)
			t.Kids = append(t.Kids, k)
			etys = append(etys, k.Ty)
		}
		t.Ty = cty.Tuple(etys)
		return t
	case 2, 3:
		if !g.NoFor {
			return g.forExpr(false, depth)
		}
	case 4, 5:
		if !g.NoSplat {
			return g.splatExpr(depth)
		}
	case 6:
		return g.cond(WSeq, depth)
	case 7:
		if n := g.callExpr(WSeq, depth); n != nil {
			return n
		}
	}
	return g.leaf(WSeq)
}

func (g *G) objExpr(depth int) *Node {
	switch g.R.Intn(6) {
	case 0, 1, 2:
		return g.objectCons(depth)
	case 3, 4:
		if !g.NoFor {
			return g.forExpr(true, depth)
		}
	}
	return g.leaf(WObj)
}

func (g *G) objectCons(depth int) *Node {
	n := g.R.Intn(4)
	o := &Node{Kind: KObject}
	atys := map[string]cty.Type{}
	known := true
	for i := 0; i < n; i++ {
		var v *Node
		if depth > 0 {
			v = g.Expr(Want(g.R.Intn(6)), depth-1)
		} else {
			v = g.leaf(Want(1 + g.R.Intn(3)))
		}
		var k ObjKey
		switch c := g.R.Intn(12); {
		case c < 6:
			name := Pick(g.R, attrNames)
			if !g.NoHostileKeys && Chance(g.R, 0.15) {
				name = Ident(g.R, true)
				if name == "for" && i == 0 {
					name = "in"
				}
				if name == "null" || name == "true" || name == "false" {
					name = "else"
				}
			}
			k = ObjKey{Form: KeyIdent, Name: name}
			atys[name] = v.Ty
		case c < 8:
			s := Pick(g.R, attrNames)
			if Chance(g.R, 0.3) {
				s = Str(g.R, g.StrLevel)
			}
			k = ObjKey{Form: KeyQuoted, Expr: StrLit(s)}
			atys[s] = v.Ty
		case c < 10:
			var ke *Node
			if depth > 0 {
				ke = g.Expr(WStr, depth-1)
			} else {
				ke = g.leaf(WStr)
			}
			k = ObjKey{Form: KeyParen, Expr: ke}
			known = false
		case c == 10 && !g.NoHostileKeys:
			k = ObjKey{Form: KeyExpr, Expr: Pick(g.R, []*Node{Num("1"), Num("2"), Bool(true), Bool(false), Num("1.5")})}
			known = false
		default:
			if !g.NoTemplates && depth > 0 {
				k = ObjKey{Form: KeyQuoted, Expr: g.Template(depth - 1)}
				known = false
			} else {
				k = ObjKey{Form: KeyIdent, Name: "z"}
				atys["z"] = v.Ty
			}
		}
		o.Keys = append(o.Keys, k)
		o.Kids = append(o.Kids, v)
	}
	if known {
		o.Ty = cty.Object(atys)
	} else {
		o.Ty = cty.DynamicPseudoType
	}
	return o
}

// accessExpr builds an index / attribute / legacy index on a compound
// sub-expression (not only on variables).
func (g *G) accessExpr(w Want, depth int) *Node {
	switch g.R.Intn(4) {
	case 0: // index into a tuple constructor / sequence expression
		seq := g.Expr(WSeq, depth-1)
		key := g.Expr(WNum, depth-1)
		if Chance(g.R, 0.6) {
			key = Num(fmt.Sprint(g.R.Intn(3)))
		}
		if seq.Kind != KVar && seq.Kind != KAttr && seq.Kind != KIndex && seq.Kind != KTuple && seq.Kind != KCall && seq.Kind != KSplat && seq.Kind != KForTuple && seq.Kind != KParen {
			seq = g.paren(seq)
		}
		return &Node{Kind: KIndex, Kids: []*Node{seq, key}, Ty: elemTy(seq.Ty, key)}
	case 1: // index into object / map with string key
		o := g.Expr(WObj, depth-1)
		var key *Node
		if Chance(g.R, 0.6) {
			key = StrLit(Pick(g.R, attrNames))
		} else {
			key = g.Expr(WStr, depth-1)
		}
		if o.Kind == KCond || o.Kind == KBinary || o.Kind == KUnary {
			o = g.paren(o)
		}
		return &Node{Kind: KIndex, Kids: []*Node{o, key}, Ty: elemTy(o.Ty, key)}
	case 2: // attribute access
		o := g.Expr(WObj, depth-1)
		if o.Kind == KCond || o.Kind == KBinary || o.Kind == KUnary {
			o = g.paren(o)
		}
		name := Pick(g.R, attrNames)
		ty := cty.DynamicPseudoType
		if o.Ty.IsObjectType() && o.Ty.HasAttribute(name) {
			ty = o.Ty.AttributeType(name)
		}
		return &Node{Kind: KAttr, Name: name, Kids: []*Node{o}, Ty: ty}
	default: // legacy index on a variable-rooted path
		if p := g.pickPath(WSeq); p != nil {
			i := g.R.Intn(3)
			return &Node{Kind: KLegacy, Num: fmt.Sprint(i), Kids: []*Node{p}, Ty: elemTy(p.Ty, Num(fmt.Sprint(i)))}
		}
	}
	return nil
}

func elemTy(coll cty.Type, key *Node) cty.Type {
	switch {
	case coll.IsListType() || coll.IsMapType() || coll.IsSetType():
		return coll.ElementType()
	case coll.IsTupleType():
		if key != nil && key.Kind == KNum {
			var i int
			if _, err := fmt.Sscanf(key.Num, "%d", &i); err == nil && i >= 0 && i < coll.Length() && fmt.Sprint(i) == key.Num {
				return coll.TupleElementType(i)
			}
		}
	case coll.IsObjectType():
		if key != nil && key.Kind == KStr && coll.HasAttribute(key.Str) {
			return coll.AttributeType(key.Str)
		}
	}
	return cty.DynamicPseudoType
}

func (g *G) iterNames(two bool) (string, string) {
	if g.FreshBound {
		g.fresh++
		k, v := "", fmt.Sprintf("it%dv", g.fresh)
		if two {
			k = fmt.Sprintf("it%dk", g.fresh)
		}
		return k, v
	}
	pool := []string{"i", "k", "v", "x", "each", "item", "n", "s", "lst", "a"}
	v := Pick(g.R, pool)
	k := ""
	if two {
		for {
			k = Pick(g.R, pool)
			if k != v {
				break
			}
		}
	}
	return k, v
}

func iterTypes(coll cty.Type) (cty.Type, cty.Type) {
	switch {
	case coll.IsListType():
		return cty.Number, coll.ElementType()
	case coll.IsMapType():
		return cty.String, coll.ElementType()
	case coll.IsSetType():
		return coll.ElementType(), coll.ElementType()
	case coll.IsTupleType():
		etys := coll.TupleElementTypes()
		if len(etys) > 0 {
			same := true
			for _, e := range etys {
				if !e.Equals(etys[0]) {
					same = false
				}
			}
			if same {
				return cty.Number, etys[0]
			}
		}
		return cty.Number, cty.DynamicPseudoType
	case coll.IsObjectType():
		var first *cty.Type
		same := true
		for _, a := range coll.AttributeTypes() {
			a := a
			if first == nil {
				first = &a
			} else if !a.Equals(*first) {
				same = false
			}
		}
		if first != nil && same {
			return cty.String, *first
		}
		return cty.String, cty.DynamicPseudoType
	}
	return cty.DynamicPseudoType, cty.DynamicPseudoType
}

func (g *G) collExpr(depth int) *Node {
	if Chance(g.R, 0.5) {
		return g.Expr(WSeq, depth)
	}
	return g.Expr(WObj, depth)
}

func (g *G) withBound(k, v string, kty, vty cty.Type, f func()) {
	save := g.bound
	nb := append([]bound(nil), g.bound...)
	if k != "" {
		nb = append(nb, bound{k, kty})
	}
	nb = append(nb, bound{v, vty})
	g.bound = nb
	f()
	g.bound = save
}

func (g *G) forExpr(obj bool, depth int) *Node {
	coll := g.collExpr(depth - 1)
	k, v := g.iterNames(Chance(g.R, 0.5))
	kty, vty := iterTypes(coll.Ty)
	n := &Node{KeyVar: k, ValVar: v, Coll: coll, Ty: cty.DynamicPseudoType}
	g.withBound(k, v, kty, vty, func() {
		if obj {
			n.Kind = KForObject
			n.KeyE = g.Expr(WStr, depth-1)
			if Chance(g.R, 0.5) && k != "" && (kty == cty.String || kty == cty.Number) {
				n.KeyE = Var(k, kty)
			} else if Chance(g.R, 0.3) && (vty == cty.String || vty == cty.Number) {
				n.KeyE = Var(v, vty)
			}
			n.ValE = g.Expr(Want(g.R.Intn(6)), depth-1)
			n.Group = Chance(g.R, 0.3)
		} else {
			n.Kind = KForTuple
			n.ValE = g.Expr(Want(g.R.Intn(6)), depth-1)
		}
		if Chance(g.R, 0.35) {
			n.Cond = g.Expr(WBool, depth-1)
		}
	})
	return n
}

func (g *G) splatExpr(depth int) *Node {
	var src *Node
	if Chance(g.R, 0.75) {
		src = g.pickPath(WSeq)
	}
	if src == nil {
		if Chance(g.R, 0.3) {
			src = g.pickPath(WAny) // auto-upgrade of non-sequences
		}
		if src == nil {
			src = g.Expr(WSeq, depth-1)
			switch src.Kind {
			case KVar, KAttr, KIndex, KTuple, KCall, KParen, KForTuple, KSplat, KLegacy:
			default:
				src = g.paren(src)
			}
		}
	}
	n := &Node{Kind: KSplat, Kids: []*Node{src}, Full: Chance(g.R, 0.6), Ty: cty.DynamicPseudoType}
	ety := cty.DynamicPseudoType
	if src.Ty.IsListType() || src.Ty.IsSetType() {
		ety = src.Ty.ElementType()
	} else if src.Ty.IsTupleType() && src.Ty.Length() > 0 {
		ety = src.Ty.TupleElementType(0)
	}
	steps := g.R.Intn(3)
	for i := 0; i < steps; i++ {
		switch {
		case ety.IsObjectType() && len(ety.AttributeTypes()) > 0 && Chance(g.R, 0.85):
			var names []string
			for a := range ety.AttributeTypes() {
				if validIdent(a) {
					names = append(names, a)
				}
			}
			if len(names) == 0 {
				break
			}
			sort.Strings(names)
			a := Pick(g.R, names)
			n.Tail = append(n.Tail, Step{Attr: a})
			ety = ety.AttributeType(a)
		case n.Full && (ety.IsListType() || ety.IsTupleType() || ety.IsMapType()) && Chance(g.R, 0.8):
			var key *Node
			if ety.IsMapType() {
				key = StrLit(Pick(g.R, []string{"a", "b", "k1"}))
			} else {
				key = Num(fmt.Sprint(g.R.Intn(2)))
			}
			n.Tail = append(n.Tail, Step{Index: key})
			ety = elemTy(ety, key)
		case Chance(g.R, 0.2):
			n.Tail = append(n.Tail, Step{Attr: Pick(g.R, attrNames)})
			ety = cty.DynamicPseudoType
		case !n.Full && Chance(g.R, 0.1):
			n.Tail = append(n.Tail, Step{Legacy: true, N: g.R.Intn(2)})
			ety = cty.DynamicPseudoType
			i = steps // legacy index chains are not renderable (0.0 lexes as a number)
		}
	}
	return n
}

func (g *G) callExpr(w Want, depth int) *Node {
	if g.NoCalls || len(g.Funcs) == 0 {
		return nil
	}
	var names []string
	for n := range g.Funcs {
		names = append(names, n)
	}
	sort.Strings(names)
	// choose a function whose result suits w
	for try := 0; try < 6; try++ {
		name := Pick(g.R, names)
		fs := g.Funcs[name]
		rw := funcWant[name]
		if w != WAny && rw != WAny && rw != w && !Chance(g.R, g.Eps) {
			continue
		}
		c := &Node{Kind: KCall, Name: name, Ty: cty.DynamicPseudoType}
		switch rw {
		case WNum:
			c.Ty = cty.Number
		case WStr:
			c.Ty = cty.String
		case WBool:
			c.Ty = cty.Bool
		}
		for _, p := range fs.Params {
			c.Kids = append(c.Kids, g.argFor(p, w, depth))
		}
		if fs.Var != nil {
			nv := g.R.Intn(3)
			if Chance(g.R, 0.25) {
				// expansion argument
				var elems []*Node
				for i := 0; i < nv; i++ {
					elems = append(elems, g.argFor(*fs.Var, w, depth))
				}
				t := &Node{Kind: KTuple, Kids: elems, Ty: cty.DynamicPseudoType}
				if Chance(g.R, 0.3) {
					if p := g.pickPath(WSeq); p != nil {
						t = p
					}
				}
				c.Kids = append(c.Kids, t)
				c.Expand = true
			} else {
				for i := 0; i < nv; i++ {
					c.Kids = append(c.Kids, g.argFor(*fs.Var, w, depth))
				}
			}
		}
		if Chance(g.R, g.Eps*0.5) && len(c.Kids) > 0 { // wrong arity
			if Chance(g.R, 0.5) {
				c.Kids = c.Kids[:len(c.Kids)-1]
				c.Expand = false
			} else {
				c.Kids = append(c.Kids, g.leaf(WAny))
			}
		}
		return c
	}
	return nil
}

func (g *G) argFor(p FuncParam, w Want, depth int) *Node {
	pw := wantOf(p.Type)
	if p.Type == cty.DynamicPseudoType {
		pw = w
	}
	return g.Expr(pw, depth-1)
}

// Template generates a template node (quoted/heredoc form is a layout choice).
func (g *G) Template(depth int) *Node {
	t := &Node{Kind: KTemplate, Ty: cty.String}
	t.Parts = g.tparts(depth, 1+g.R.Intn(4))
	if Chance(g.R, 0.3) {
		// multi-line templates ending in a newline can be laid out as heredocs
		for i := range t.Parts {
			if t.Parts[i].Kind == TLit && Chance(g.R, 0.5) {
				t.Parts[i].Lit += Pick(g.R, []string{"\n", "\n  ", "\n\t", " \n"})
			}
		}
		t.Parts = append(t.Parts, TPart{Kind: TLit, Lit: Pick(g.R, []string{"\n", "end\n", "  x\n", "a b\n"})})
	}
	// the single-interpolation "unwrap" shape yields the inner type
	if len(t.Parts) == 1 && t.Parts[0].Kind == TInterp {
		t.Ty = t.Parts[0].Expr.Ty
	}
	return t
}

func (g *G) tlit() TPart {
	var s string
	switch g.R.Intn(6) {
	case 0:
		s = Pick(g.R, []string{" ", "  ", " x ", "x ", " x", "\n", " \n ", "a b", "  a  "})
	case 1:
		s = Str(g.R, 2)
	default:
		s = Str(g.R, g.StrLevel)
	}
	if s == "" {
		s = Pick(g.R, []string{"-", " ", "x"})
	}
	return TPart{Kind: TLit, Lit: s}
}

func (g *G) strips(idx ...int) [6]bool {
	var s [6]bool
	for _, i := range idx {
		s[i] = Chance(g.R, 0.25)
	}
	return s
}

func (g *G) tparts(depth, n int) []TPart {
	var ps []TPart
	for i := 0; i < n; i++ {
		c := g.R.Intn(10)
		switch {
		case c < 4 || depth <= 0:
			if len(ps) > 0 && ps[len(ps)-1].Kind == TLit {
				// adjacent literals are one literal in the source text
				ps[len(ps)-1].Lit += g.tlit().Lit
			} else {
				ps = append(ps, g.tlit())
			}
		case c < 8:
			w := Pick(g.R, []Want{WStr, WNum, WBool, WStr, WAny})
			ps = append(ps, TPart{Kind: TInterp, Expr: g.Expr(w, depth-1), Strip: g.strips(0, 1)})
		case c == 8:
			p := TPart{Kind: TIf, Expr: g.Expr(WBool, depth-1), Strip: g.strips(0, 1, 2, 3, 4, 5)}
			p.Then = g.tparts(depth-1, g.R.Intn(3))
			if Chance(g.R, 0.5) {
				p.HasElse = true
				p.Else = g.tparts(depth-1, g.R.Intn(3))
			}
			ps = append(ps, p)
		default:
			if g.NoFor {
				ps = append(ps, g.tlit())
				continue
			}
			coll := g.collExpr(depth - 1)
			k, v := g.iterNames(Chance(g.R, 0.4))
			kty, vty := iterTypes(coll.Ty)
			p := TPart{Kind: TFor, Expr: coll, KeyVar: k, ValVar: v, Strip: g.strips(0, 1, 4, 5)}
			g.withBound(k, v, kty, vty, func() {
				p.Then = g.tparts(depth-1, 1+g.R.Intn(2))
			})
			ps = append(ps, p)
		}
	}
	return ps
}

// Children returns the direct sub-expressions of n (all positions).
func (n *Node) Children() []*Node {
	if n == nil {
		return nil
	}
	var out []*Node
	add := func(m *Node) {
		if m != nil {
			out = append(out, m)
		}
	}
	for _, k := range n.Kids {
		add(k)
	}
	for _, k := range n.Keys {
		add(k.Expr)
	}
	for _, s := range n.Tail {
		add(s.Index)
	}
	add(n.Coll)
	add(n.KeyE)
	add(n.ValE)
	add(n.Cond)
	var rp func(ps []TPart)
	rp = func(ps []TPart) {
		for _, p := range ps {
			add(p.Expr)
			rp(p.Then)
			rp(p.Else)
		}
	}
	rp(n.Parts)
	return out
}

// Uses reports whether the AST refers to a variable with the given root name
// (bound iterator names are not distinguished: conservative).
func (n *Node) Uses(name string) bool {
	found := false
	n.Walk(func(m *Node) {
		if m.Kind == KVar && m.Name == name {
			found = true
		}
	})
	return found
}

// FreeVars returns the root name of every variable reference in the AST that
// is not bound by an enclosing for expression or template for directive (one
// entry per reference, sorted). Collections of for constructs are evaluated
// outside the scope they open.
func (n *Node) FreeVars() []string {
	var out []string
	var walk func(m *Node, bound map[string]int)
	var parts func(ps []TPart, bound map[string]int)
	with := func(bound map[string]int, names []string, f func()) {
		for _, nm := range names {
			if nm != "" {
				bound[nm]++
			}
		}
		f()
		for _, nm := range names {
			if nm != "" {
				bound[nm]--
			}
		}
	}
	parts = func(ps []TPart, bound map[string]int) {
		for _, p := range ps {
			switch p.Kind {
			case TFor:
				walk(p.Expr, bound)
				with(bound, []string{p.KeyVar, p.ValVar}, func() { parts(p.Then, bound) })
			default:
				walk(p.Expr, bound)
				parts(p.Then, bound)
				parts(p.Else, bound)
			}
		}
	}
	walk = func(m *Node, bound map[string]int) {
		if m == nil {
			return
		}
		switch m.Kind {
		case KVar:
			if bound[m.Name] == 0 {
				out = append(out, m.Name)
			}
			return
		case KForTuple, KForObject:
			walk(m.Coll, bound)
			with(bound, []string{m.KeyVar, m.ValVar}, func() {
				walk(m.KeyE, bound)
				walk(m.ValE, bound)
				walk(m.Cond, bound)
			})
			return
		}
		for _, k := range m.Kids {
			walk(k, bound)
		}
		for _, k := range m.Keys {
			walk(k.Expr, bound)
		}
		for _, st := range m.Tail {
			walk(st.Index, bound)
		}
		parts(m.Parts, bound)
	}
	walk(n, map[string]int{})
	sort.Strings(out)
	return out
}

// Shrink greedily replaces the AST by one of its sub-expressions as long as
// the predicate keeps holding; it returns the smallest AST found.
func Shrink(n *Node, still func(*Node) bool) *Node {
	cur := n
	for steps := 0; steps < 64; steps++ {
		progressed := false
		for _, ch := range cur.Children() {
			if still(ch) {
				cur = ch
				progressed = true
				break
			}
		}
		if !progressed {
			break
		}
	}
	return cur
}

// Shape is a short structural signature of an AST: the root kind and the
// kinds of its direct children, used to class witnesses.
func (n *Node) Shape() string {
	s := n.Kind.String()
	if n.Kind == KBinary || n.Kind == KUnary {
		s += n.Op
	}
	if n.Kind == KSplat {
		if n.Full {
			s += "[*]"
		} else {
			s += ".*"
		}
	}
	if n.Kind == KCall {
		s += ":" + n.Name
	}
	var ks []string
	for _, c := range n.Children() {
		ks = append(ks, c.Kind.String())
	}
	if len(ks) > 6 {
		ks = ks[:6]
	}
	if len(ks) > 0 {
		s += "(" + joinStr(ks, ",") + ")"
	}
	return s
}

func joinStr(xs []string, sep string) string {
	out := ""
	for i, x := range xs {
		if i > 0 {
			out += sep
		}
		out += x
	}
	return out
}

// LitNode builds the literal AST that denotes a wholly known value made of
// primitives, tuples/lists (as tuple constructors) and objects/maps (as object
// constructors with quoted keys).
func LitNode(v cty.Value) *Node {
	if v.IsNull() {
		return Null()
	}
	ty := v.Type()
	switch {
	case ty == cty.String:
		return StrLit(v.AsString())
	case ty == cty.Number:
		bf := v.AsBigFloat()
		if bf.Sign() < 0 {
			neg := new(big.Float).Neg(bf)
			return &Node{Kind: KUnary, Op: "-", Kids: []*Node{Num(neg.Text('f', -1))}, Ty: cty.Number}
		}
		return Num(bf.Text('f', -1))
	case ty == cty.Bool:
		return Bool(v.True())
	case ty.IsListType() || ty.IsTupleType() || ty.IsSetType():
		n := &Node{Kind: KTuple, Ty: cty.DynamicPseudoType}
		for it := v.ElementIterator(); it.Next(); {
			_, ev := it.Element()
			n.Kids = append(n.Kids, LitNode(ev))
		}
		return n
	case ty.IsMapType() || ty.IsObjectType():
		n := &Node{Kind: KObject, Ty: cty.DynamicPseudoType}
		m := v.AsValueMap()
		for _, k := range SortedKeys(m) {
			n.Keys = append(n.Keys, ObjKey{Form: KeyQuoted, Expr: StrLit(k)})
			n.Kids = append(n.Kids, LitNode(m[k]))
		}
		return n
	}
	return Null()
}
