package gen

import (
	"errors"
	"strings"

	"github.com/zclconf/go-cty/cty"
	"github.com/zclconf/go-cty/cty/function"
)

var funcWant = map[string]Want{
	"upper": WStr, "slen": WNum, "join": WStr, "add": WNum, "len": WNum, "id": WAny, "idn": WAny,
	"coalesce": WAny, "fail": WAny, "isnull": WBool, "ns::inc": WNum, "tup": WSeq, "idu": WAny, "idm": WAny,
}

// StdFuncs returns the harness function table as specs. The Go bodies are
// deliberately trivial; every error text is canary-free and fixed.
func StdFuncs() map[string]*FuncSpec {
	str := FuncParam{Type: cty.String}
	num := FuncParam{Type: cty.Number}
	anyP := FuncParam{Type: cty.DynamicPseudoType}
	// (a parameter that accepts null must also accept the untyped null literal,
	// otherwise cty answers the call with an unknown value)
	anyNull := FuncParam{Type: cty.DynamicPseudoType, AllowNull: true, AllowDynamic: true}
	anyUnk := FuncParam{Type: cty.DynamicPseudoType, AllowNull: true, AllowUnknown: true, AllowDynamic: true}
	anyMarked := FuncParam{Type: cty.DynamicPseudoType, AllowMarked: true, AllowUnknown: true} // (cty answers an unknown argument itself, without the marks, unless the parameter takes unknowns)
	fs := []*FuncSpec{
		{Name: "upper", Params: []FuncParam{str},
			Ret:  func(a []cty.Value) cty.Type { return cty.String },
			Impl: func(a []cty.Value) (cty.Value, error) { return cty.StringVal(strings.ToUpper(a[0].AsString())), nil }},
		{Name: "join", Params: []FuncParam{str}, Var: &str,
			Ret: func(a []cty.Value) cty.Type { return cty.String },
			Impl: func(a []cty.Value) (cty.Value, error) {
				var parts []string
				for _, v := range a[1:] {
					parts = append(parts, v.AsString())
				}
				return cty.StringVal(strings.Join(parts, a[0].AsString())), nil
			}},
		{Name: "add", Params: []FuncParam{num, num},
			Ret:  func(a []cty.Value) cty.Type { return cty.Number },
			Impl: func(a []cty.Value) (cty.Value, error) { return a[0].Add(a[1]), nil }},
		{Name: "ns::inc", Params: []FuncParam{num},
			Ret:  func(a []cty.Value) cty.Type { return cty.Number },
			Impl: func(a []cty.Value) (cty.Value, error) { return a[0].Add(cty.NumberIntVal(1)), nil }},
		{Name: "len", Params: []FuncParam{anyP},
			Ret: func(a []cty.Value) cty.Type { return cty.Number },
			Impl: func(a []cty.Value) (cty.Value, error) {
				ty := a[0].Type()
				if ty.IsCollectionType() || ty.IsTupleType() {
					return cty.NumberIntVal(int64(a[0].LengthInt())), nil
				}
				if ty.IsObjectType() {
					return cty.NumberIntVal(int64(len(ty.AttributeTypes()))), nil
				}
				return cty.NilVal, errors.New("argument has no length")
			}},
		{Name: "slen", Params: []FuncParam{str},
			Ret: func(a []cty.Value) cty.Type { return cty.Number },
			Impl: func(a []cty.Value) (cty.Value, error) {
				return cty.NumberIntVal(int64(len([]rune(a[0].AsString())))), nil
			}},
		{Name: "id", Params: []FuncParam{anyP},
			Ret:  func(a []cty.Value) cty.Type { return a[0].Type() },
			Impl: func(a []cty.Value) (cty.Value, error) { return a[0], nil }},
		{Name: "idn", Params: []FuncParam{anyNull},
			Ret:  func(a []cty.Value) cty.Type { return a[0].Type() },
			Impl: func(a []cty.Value) (cty.Value, error) { return a[0], nil }},
		{Name: "idu", Params: []FuncParam{anyUnk},
			Ret:  func(a []cty.Value) cty.Type { return a[0].Type() },
			Impl: func(a []cty.Value) (cty.Value, error) { return a[0], nil }},
		{Name: "idm", Params: []FuncParam{anyMarked},
			Ret:  func(a []cty.Value) cty.Type { return a[0].Type() },
			Impl: func(a []cty.Value) (cty.Value, error) { return a[0], nil }},
		{Name: "isnull", Params: []FuncParam{anyNull},
			Ret:  func(a []cty.Value) cty.Type { return cty.Bool },
			Impl: func(a []cty.Value) (cty.Value, error) { return cty.BoolVal(a[0].IsNull()), nil }},
		{Name: "coalesce", Var: &anyNull,
			Ret: func(a []cty.Value) cty.Type { return cty.DynamicPseudoType },
			Impl: func(a []cty.Value) (cty.Value, error) {
				for _, v := range a {
					if !v.IsNull() {
						return v, nil
					}
				}
				return cty.NilVal, errors.New("no non-null arguments")
			}},
		{Name: "tup", Var: &anyNull,
			Ret: func(a []cty.Value) cty.Type { return cty.DynamicPseudoType },
			Impl: func(a []cty.Value) (cty.Value, error) {
				if len(a) == 0 {
					return cty.EmptyTupleVal, nil
				}
				return cty.TupleVal(a), nil
			}},
		{Name: "fail",
			Ret:  func(a []cty.Value) cty.Type { return cty.DynamicPseudoType },
			Impl: func(a []cty.Value) (cty.Value, error) { return cty.NilVal, errors.New("this function always fails") }},
	}
	m := map[string]*FuncSpec{}
	for _, f := range fs {
		m[f.Name] = f
	}
	return m
}

func ctyParam(name string, p FuncParam) function.Parameter {
	return function.Parameter{Name: name, Type: p.Type, AllowNull: p.AllowNull, AllowUnknown: p.AllowUnknown, AllowDynamicType: p.AllowDynamic, AllowMarked: p.AllowMarked}
}

// CtyFuncs builds the cty function table for an hcl.EvalContext from specs.
func CtyFuncs(specs map[string]*FuncSpec) map[string]function.Function {
	out := map[string]function.Function{}
	for name, fs := range specs {
		fs := fs
		spec := &function.Spec{}
		for i, p := range fs.Params {
			spec.Params = append(spec.Params, ctyParam(string(rune('a'+i)), p))
		}
		if fs.Var != nil {
			vp := ctyParam("rest", *fs.Var)
			spec.VarParam = &vp
		}
		spec.Type = func(args []cty.Value) (cty.Type, error) {
			for _, a := range args {
				if !a.IsKnown() && fs.Name != "idu" {
					// cty short-circuits unknown args before Impl unless AllowUnknown;
					// the type function still runs with them.
					_ = a
				}
			}
			return fs.Ret(args), nil
		}
		spec.Impl = func(args []cty.Value, retType cty.Type) (cty.Value, error) {
			return fs.Impl(args)
		}
		out[name] = function.New(spec)
	}
	return out
}
