package gen

import (
	"fmt"
	"math/rand"
	"strings"
	"unicode"
	"unicode/utf8"
)

// Layout selects one concrete source text for an AST. The zero Layout (with
// R == nil) is the canonical minimal rendering.
type Layout struct {
	R        *rand.Rand
	Noise    float64 // probability of a non-canonical separator at each gap
	Comments bool    // allow comments in separators
	Newlines bool    // allow newlines where the grammar ignores them
	Parens   float64 // probability of redundant parentheses around a sub-expression
	Heredoc  float64 // probability of rendering an eligible template as heredoc
	Spell    float64 // probability of alternative number spellings / string escapes
	ObjStyle bool    // vary '=' / ':' and comma / newline in object constructors
	// Body says the expression sits in a body attribute (top-level newlines
	// are significant); otherwise it is a standalone expression.
	Body bool
	// UsedHeredoc reports (after rendering) that a heredoc was emitted.
	UsedHeredoc bool
	UsedFlush   bool
}

func (l *Layout) chance(p float64) bool {
	if l == nil || l.R == nil || p <= 0 {
		return false
	}
	return l.R.Float64() < p
}

// RandomLayout returns a noisy layout driven by r.
func RandomLayout(r *rand.Rand) *Layout {
	return &Layout{R: r, Noise: Pick(r, []float64{0.1, 0.3, 0.6}), Comments: Chance(r, 0.5), Newlines: Chance(r, 0.6), Parens: Pick(r, []float64{0, 0.1, 0.3}), Heredoc: Pick(r, []float64{0, 0.5, 1}), Spell: Pick(r, []float64{0, 0.3}), ObjStyle: true}
}

type writer struct {
	l            *Layout
	sb           strings.Builder
	prev         string
	prevKind     int    // 0 other, 1 ident/keyword, 2 number
	nl           []bool // stack: newlines ignored here?
	inQuoted     int    // depth of enclosing quoted templates
	inHeredocSeq int
}

const (
	tkOther = iota
	tkIdent
	tkNum
)

func isIdentChar(c rune) bool {
	return c == '_' || c == '-' || unicode.IsLetter(c) || unicode.IsDigit(c) || unicode.Is(unicode.Mn, c) || unicode.Is(unicode.Mc, c) || unicode.Is(unicode.Pc, c)
}

const opChars = "!<>=&|+-*/%?:.$#~"

func (w *writer) canJoin(next string, nextKind int) bool {
	if w.prev == "" || next == "" {
		return true
	}
	lc, _ := utf8.DecodeLastRuneInString(w.prev)
	fc, _ := utf8.DecodeRuneInString(next)
	if w.prevKind == tkIdent && (isIdentChar(fc) || fc == '-') {
		return false
	}
	if w.prevKind == tkNum && (isIdentChar(fc) && fc != '-' || fc == '.') {
		return false
	}
	if isIdentChar(lc) && lc != '-' && isIdentChar(fc) && fc != '-' {
		return false
	}
	if nextKind == tkNum && lc == '.' {
		return true
	}
	if strings.ContainsRune(opChars, lc) && strings.ContainsRune(opChars, fc) {
		// dots join with idents and '*', never with other operator chars
		return false
	}
	if (lc == '$' || lc == '%') && fc == '{' {
		return false
	}
	if lc == '<' && fc == '<' {
		return false
	}
	return true
}

func (w *writer) nlIgnored() bool {
	if len(w.nl) == 0 {
		return false
	}
	return w.nl[len(w.nl)-1]
}

func (w *writer) push(ignored bool) { w.nl = append(w.nl, ignored) }
func (w *writer) pop()              { w.nl = w.nl[:len(w.nl)-1] }

var commentTexts = []string{"c", "", " note ", "x=1", "\"q\"", "${x}", "é", "}", "]"}

// sep chooses the separator before the next token.
func (w *writer) sep(gap int, next string, nextKind int) string {
	l := w.l
	canon := ""
	if gap > 0 {
		canon = " "
	}
	join := w.canJoin(next, nextKind)
	if canon == "" && !join {
		canon = " "
	}
	if w.prev == "" {
		canon = ""
	}
	if l == nil || l.R == nil || !l.chance(l.Noise) {
		return canon
	}
	nlok := l.Newlines && w.nlIgnored() && w.inQuoted == 0
	pre := ""
	if strings.HasSuffix(w.prev, "/") {
		pre = " " // "/" followed by a comment opener would start the comment early
	}
	for tries := 0; tries < 4; tries++ {
		switch l.R.Intn(9) {
		case 0:
			if join {
				return ""
			}
		case 1:
			return " "
		case 2:
			return "  "
		case 3:
			return "\t"
		case 4:
			return " \t "
		case 5:
			if l.Comments && w.prev != "" {
				return " /*" + Pick(l.R, commentTexts[:5]) + "*/" + Pick(l.R, []string{" ", ""})
			}
		case 6:
			if nlok && w.prev != "" {
				return Pick(l.R, []string{"\n", "\n  ", " \n\t", "\n\n"})
			}
		case 7:
			if nlok && l.Comments && w.prev != "" {
				return pre + Pick(l.R, []string{" # ", " // ", "#", "//"}) + Pick(l.R, commentTexts) + "\n" + Pick(l.R, []string{"", "  "})
			}
		case 8:
			if l.Comments && w.prev != "" && join {
				return pre + "/**/"
			}
		}
	}
	return canon
}

// t emits one token with a chosen separator before it.
func (w *writer) t(gap int, s string) { w.tk(gap, s, tkOther) }

func (w *writer) tk(gap int, s string, kind int) {
	w.sb.WriteString(w.sep(gap, s, kind))
	w.sb.WriteString(s)
	w.prev = s
	w.prevKind = kind
}

// raw emits text with no separator logic (template content).
func (w *writer) raw(s string) {
	w.sb.WriteString(s)
	if s != "" {
		w.prev = s
		w.prevKind = tkOther
	}
}

// RenderExpr renders the AST under the layout. nlTop says whether newlines are
// ignored at the top level (true for stand-alone expressions).
func RenderExpr(n *Node, l *Layout) string {
	w := &writer{l: l}
	w.push(l == nil || !l.Body)
	w.expr(n, 0, true)
	return w.sb.String()
}

// RenderTemplateBody renders a KTemplate node as a bare template (the input of
// ParseTemplate, and the content of a JSON string): no quotes, no escapes
// other than the template escapes.
func RenderTemplateBody(n *Node, l *Layout) string {
	w := &writer{l: l}
	w.push(true)
	w.inHeredocSeq++ // bare templates behave like heredoc content: raw text
	w.parts(n.Parts, partsBare)
	return w.sb.String()
}

var binPrec = map[string]int{"||": 1, "&&": 2, "==": 3, "!=": 3, "<": 4, ">": 4, "<=": 4, ">=": 4, "+": 5, "-": 5, "*": 6, "/": 6, "%": 6}

// prec: 0 conditional, 1..6 binary, 7 unary, 8 term
func prec(n *Node) int {
	switch n.Kind {
	case KCond:
		return 0
	case KBinary:
		return binPrec[n.Op]
	case KUnary:
		return 7
	}
	return 8
}

// expr renders n in a position that requires at least precedence min.
// last says the expression ends the enclosing newline-sensitive construct.
func (w *writer) expr(n *Node, min int, last bool) {
	need := prec(n) < min
	extra := false
	if !need && w.l.chance(w.l.Parens) {
		extra = true
	}
	if need || extra {
		w.t(0, "(")
		w.push(true)
		w.node(n, true)
		w.pop()
		w.t(0, ")")
		return
	}
	w.node(n, last)
}

func isWordy(n *Node) bool {
	switch n.Kind {
	case KNum, KBool, KNull:
		return true
	}
	return false
}

// base renders the operand of a postfix operator.
func (w *writer) base(n *Node) {
	switch n.Kind {
	case KNum, KBool, KNull, KUnary, KBinary, KCond, KTemplate, KStr, KSplat:
		// (a splat base must be parenthesised: postfix operators written
		// directly after a splat extend the splat's per-element traversal)
		w.t(0, "(")
		w.push(true)
		w.node(n, true)
		w.pop()
		w.t(0, ")")
	default:
		w.expr(n, 8, false)
	}
}

func (w *writer) node(n *Node, last bool) {
	switch n.Kind {
	case KNum:
		w.tk(1, w.numSpelling(n.Num), tkNum)
	case KBool:
		if n.Bool {
			w.tk(1, "true", tkIdent)
		} else {
			w.tk(1, "false", tkIdent)
		}
	case KNull:
		w.tk(1, "null", tkIdent)
	case KStr:
		w.t(1, w.quoted(n.Str))
	case KVar:
		w.tk(1, n.Name, tkIdent)
	case KAttr:
		w.base(n.Kids[0])
		w.t(0, ".")
		w.tk(0, n.Name, tkIdent)
	case KIndex:
		w.base(n.Kids[0])
		w.t(0, "[")
		w.push(true)
		w.expr(n.Kids[1], 0, true)
		w.pop()
		w.t(0, "]")
	case KLegacy:
		b := n.Kids[0]
		if b.Kind == KLegacy || (b.Kind == KSplat && len(b.Tail) > 0 && b.Tail[len(b.Tail)-1].Legacy) {
			w.t(0, "(")
			w.push(true)
			w.node(b, true)
			w.pop()
			w.t(0, ")")
		} else {
			w.base(b)
		}
		w.t(0, ".")
		w.tk(0, n.Num, tkNum)
	case KSplat:
		w.base(n.Kids[0])
		if n.Full {
			w.t(0, "[")
			w.t(0, "*")
			w.t(0, "]")
		} else {
			w.t(0, ".")
			w.t(0, "*")
		}
		for _, s := range n.Tail {
			switch {
			case s.Index != nil:
				w.t(0, "[")
				w.push(true)
				w.expr(s.Index, 0, true)
				w.pop()
				w.t(0, "]")
			case s.Legacy:
				w.t(0, ".")
				w.tk(0, fmt.Sprint(s.N), tkNum)
			default:
				w.t(0, ".")
				w.tk(0, s.Attr, tkIdent)
			}
		}
	case KTuple:
		w.t(1, "[")
		w.push(true)
		for i, k := range n.Kids {
			if i > 0 {
				w.t(0, ",")
			}
			// a leading element that starts with the identifier "for" would be a for-expression
			if i == 0 && startsWithFor(k) {
				w.t(0, "(")
				w.node(k, true)
				w.t(0, ")")
			} else {
				w.expr(k, 0, true)
			}
		}
		if len(n.Kids) > 0 && w.l.chance(0.15) {
			w.t(0, ",")
		}
		w.pop()
		w.t(0, "]")
	case KObject:
		w.object(n)
	case KUnary:
		w.t(1, n.Op)
		w.expr(n.Kids[0], 7, last)
	case KBinary:
		p := binPrec[n.Op]
		w.expr(n.Kids[0], p, false)
		w.t(1, n.Op)
		w.expr(n.Kids[1], p+1, last)
	case KCond:
		w.expr(n.Kids[0], 1, false)
		w.t(1, "?")
		w.expr(n.Kids[1], 0, false)
		w.t(1, ":")
		w.expr(n.Kids[2], 0, last)
	case KRaw:
		if n.Bool {
			// verbatim, without parentheses (text that ends its own line, e.g. a heredoc)
			w.sb.WriteString(w.sep(1, "<<", tkOther))
			w.raw(n.Str)
			w.prev = ""
			break
		}
		w.t(1, "(")
		w.raw(n.Str)
		w.t(0, ")")
	case KParen:
		w.t(1, "(")
		w.push(true)
		w.expr(n.Kids[0], 0, true)
		w.pop()
		w.t(0, ")")
	case KCall:
		w.tk(1, n.Name, tkIdent)
		w.t(0, "(")
		w.push(true)
		for i, k := range n.Kids {
			if i > 0 {
				w.t(0, ",")
			}
			w.expr(k, 0, true)
		}
		if n.Expand {
			w.t(0, "...")
		} else if len(n.Kids) > 0 && w.l.chance(0.1) {
			w.t(0, ",")
		}
		w.pop()
		w.t(0, ")")
	case KForTuple, KForObject:
		open, cl := "[", "]"
		if n.Kind == KForObject {
			open, cl = "{", "}"
		}
		w.t(1, open)
		w.push(true)
		w.tk(0, "for", tkIdent)
		if n.KeyVar != "" {
			w.tk(1, n.KeyVar, tkIdent)
			w.t(0, ",")
		}
		w.tk(1, n.ValVar, tkIdent)
		w.tk(1, "in", tkIdent)
		w.expr(n.Coll, 0, false)
		w.t(1, ":")
		if n.Kind == KForObject {
			w.expr(n.KeyE, 0, false)
			w.t(1, "=>")
		}
		w.expr(n.ValE, 0, false)
		if n.Group {
			w.t(0, "...")
		}
		if n.Cond != nil {
			w.tk(1, "if", tkIdent)
			w.expr(n.Cond, 0, true)
		}
		w.pop()
		w.t(0, cl)
	case KTemplate:
		w.template(n, last)
	default:
		panic("render: unknown kind")
	}
}

func startsWithFor(n *Node) bool {
	for n != nil {
		switch n.Kind {
		case KVar:
			return n.Name == "for"
		case KAttr, KIndex, KLegacy, KSplat, KBinary, KCond:
			n = n.Kids[0]
		case KCall:
			return n.Name == "for"
		default:
			return false
		}
	}
	return false
}

func (w *writer) object(n *Node) {
	w.t(1, "{")
	w.push(false) // newlines separate items inside object constructors
	for i, k := range n.Keys {
		if i > 0 {
			if w.l != nil && w.l.ObjStyle && w.l.Newlines && w.inQuoted == 0 && w.l.chance(0.4) {
				w.raw(Pick(w.l.R, []string{"\n", "\n  ", " \n"}))
			} else {
				w.t(0, ",")
			}
		} else if w.l != nil && w.l.Newlines && w.inQuoted == 0 && w.l.chance(0.2) {
			w.raw("\n")
		}
		switch k.Form {
		case KeyIdent:
			w.tk(1, k.Name, tkIdent)
		case KeyQuoted:
			w.node(k.Expr, false)
		case KeyParen:
			w.t(1, "(")
			w.push(true)
			w.expr(k.Expr, 0, true)
			w.pop()
			w.t(0, ")")
		case KeyExpr:
			w.node(k.Expr, false)
		}
		if w.l != nil && w.l.ObjStyle && w.l.chance(0.3) {
			w.t(1, ":")
		} else {
			w.t(1, "=")
		}
		w.expr(n.Kids[i], 0, false)
	}
	if len(n.Keys) > 0 && w.l.chance(0.15) {
		w.t(0, ",")
	}
	if len(n.Keys) > 0 && w.l != nil && w.l.Newlines && w.inQuoted == 0 && w.l.chance(0.2) {
		w.raw("\n")
	}
	w.pop()
	w.t(0, "}")
}

func (w *writer) numSpelling(s string) string {
	if w.l == nil || !w.l.chance(w.l.Spell) {
		return s
	}
	if strings.ContainsAny(s, "eE.") {
		if strings.ContainsAny(s, "eE") {
			if strings.Contains(s, "e-") {
				return strings.Replace(s, "e-", Pick(w.l.R, []string{"e-", "E-", "e-0"}), 1)
			}
			return strings.Replace(s, "e", Pick(w.l.R, []string{"e", "E", "e+", "E+", "e0"}), 1)
		}
		return s + Pick(w.l.R, []string{"0", "00", "e0", "E+0"})
	}
	return Pick(w.l.R, []string{s + ".0", s + ".000", s + "e0", s + "E+0", s + "e-0", "0" + s, s + "0e-1", s + "00E-2"})
}

// quoted renders a literal string as a quoted template with escapes.
func (w *writer) quoted(s string) string {
	return "\"" + w.escapeQuoted(s) + "\""
}

func (w *writer) escapeQuoted(s string) string {
	var sb strings.Builder
	rs := []rune(s)
	for i := 0; i < len(rs); i++ {
		c := rs[i]
		alt := w.l.chance(w.l.Spell * 0.3)
		switch {
		case c == '"':
			sb.WriteString("\\\"")
		case c == '\\':
			sb.WriteString("\\\\")
		case c == '\n':
			sb.WriteString("\\n")
		case c == '\r':
			sb.WriteString("\\r")
		case c == '\t':
			if alt {
				sb.WriteRune(c)
			} else {
				sb.WriteString("\\t")
			}
		case (c == '$' || c == '%') && i+1 < len(rs) && rs[i+1] == '{':
			// escape of a template introducer: "$${" (the brace must stay a raw
			// brace, or the doubled sign would be two literal signs)
			sb.WriteRune(c)
			sb.WriteRune(c)
			sb.WriteRune('{')
			i++
		case c < 0x20 || c == 0x7f || c == 0x2028 || c == 0x2029 || c == 0x85:
			fmt.Fprintf(&sb, "\\u%04x", c)
		case c == utf8.RuneError:
			sb.WriteString("\\ufffd")
		case alt && c != '$' && c != '%':
			if c > 0xffff {
				fmt.Fprintf(&sb, "\\U%08x", c)
			} else if w.l.chance(0.5) {
				fmt.Fprintf(&sb, "\\u%04X", c)
			} else {
				fmt.Fprintf(&sb, "\\u%04x", c)
			}
		default:
			sb.WriteRune(c)
		}
	}
	return sb.String()
}

// escapeRawTemplate escapes only the template introducers (heredoc and bare
// template literals).
func escapeRawTemplate(s string) string {
	s = strings.ReplaceAll(s, "${", "$${")
	s = strings.ReplaceAll(s, "%{", "%%{")
	return s
}

const (
	partsQuoted = iota
	partsHeredoc
	partsBare
)

// FlatLits returns the literal/sequence skeleton of template parts in source
// order: each element is either a literal string or "\x00" for a sequence.
func flatten(ps []TPart, out *[]string) {
	for _, p := range ps {
		switch p.Kind {
		case TLit:
			*out = append(*out, p.Lit)
		case TInterp:
			*out = append(*out, "\x00")
		case TIf:
			*out = append(*out, "\x00")
			flatten(p.Then, out)
			if p.HasElse {
				*out = append(*out, "\x00")
				flatten(p.Else, out)
			}
			*out = append(*out, "\x00")
		case TFor:
			*out = append(*out, "\x00")
			flatten(p.Then, out)
			*out = append(*out, "\x00")
		}
	}
}

func heredocSafeText(s string) bool {
	for _, c := range s {
		if c == '\n' || c == ' ' || c == '\t' {
			continue
		}
		if c < 0x20 || c == 0x7f || c == utf8.RuneError || c == 0x2028 || c == 0x2029 || c == 0x85 || c == '\r' {
			return false
		}
	}
	return true
}

// stripCrossesNewline reports whether some strip marker is adjacent to a
// literal whose adjacent whitespace run contains a newline (see DESIGN §8 #14:
// kept out of random heredoc layouts, exercised by a directed case).
func stripCrossesNewline(ps []TPart) bool {
	var flat []struct {
		lit            string
		isLit          bool
		stripL, stripR bool // marker strips to its left / right
	}
	var rec func(ps []TPart)
	add := func(l, r bool) {
		flat = append(flat, struct {
			lit            string
			isLit          bool
			stripL, stripR bool
		}{"", false, l, r})
	}
	rec = func(ps []TPart) {
		for _, p := range ps {
			switch p.Kind {
			case TLit:
				flat = append(flat, struct {
					lit            string
					isLit          bool
					stripL, stripR bool
				}{p.Lit, true, false, false})
			case TInterp:
				add(p.Strip[0], p.Strip[1])
			case TIf:
				add(p.Strip[0], p.Strip[1])
				rec(p.Then)
				if p.HasElse {
					add(p.Strip[2], p.Strip[3])
					rec(p.Else)
				}
				add(p.Strip[4], p.Strip[5])
			case TFor:
				add(p.Strip[0], p.Strip[1])
				rec(p.Then)
				add(p.Strip[4], p.Strip[5])
			}
		}
	}
	rec(ps)
	for i, f := range flat {
		if f.isLit {
			continue
		}
		if f.stripL && i > 0 && flat[i-1].isLit {
			l := flat[i-1].lit
			tr := strings.TrimRightFunc(l, unicode.IsSpace)
			if strings.Contains(l[len(tr):], "\n") {
				return true
			}
		}
		if f.stripR && i+1 < len(flat) && flat[i+1].isLit {
			l := flat[i+1].lit
			tr := strings.TrimLeftFunc(l, unicode.IsSpace)
			if strings.Contains(l[:len(l)-len(tr)], "\n") {
				return true
			}
		}
	}
	return false
}

// BareTemplateEligible reports whether the template can be handed to the
// bare-template parser with the same meaning as its quoted form: no strip
// marker adjacent to whitespace that spans a newline (DESIGN §8 #14) and no
// lone carriage return in its literals (known finding: a lone CR hides the
// template sequences after it).
func BareTemplateEligible(n *Node) bool {
	if n.Kind != KTemplate || stripCrossesNewline(n.Parts) {
		return false
	}
	var flat []string
	flatten(n.Parts, &flat)
	for _, f := range flat {
		if f == "\x00" {
			continue
		}
		if strings.Contains(strings.ReplaceAll(f, "\r\n", ""), "\r") || strings.HasPrefix(f, "\ufeff") {
			return false
		}
	}
	return true
}

// HeredocEligible reports whether the template can be written as a heredoc
// with the same meaning: it ends in a literal newline, its literal text is
// raw-representable, and no line equals the terminator.
func HeredocEligible(n *Node) bool {
	if n.Kind != KTemplate || len(n.Parts) == 0 {
		return false
	}
	lastP := n.Parts[len(n.Parts)-1]
	if lastP.Kind != TLit || !strings.HasSuffix(lastP.Lit, "\n") {
		return false
	}
	var flat []string
	flatten(n.Parts, &flat)
	for _, f := range flat {
		if f == "\x00" {
			continue
		}
		if !heredocSafeText(f) {
			return false
		}
		if strings.Contains(f, "EOT") {
			return false
		}
	}
	if stripCrossesNewline(n.Parts) {
		return false
	}
	return true
}

// flushInfo decides whether a flush heredoc is in the specified zone: every
// line starts with literal text or a template sequence, no line is blank, and
// some line starts with a non-space character or a sequence.
func flushOK(n *Node) bool {
	// (whether strip markers are applied before or after the indentation
	// analysis is not specified: templates with strip markers are not laid out
	// as flush heredocs)
	if hasStrip(n.Parts) {
		return false
	}
	var flat []string
	flatten(n.Parts, &flat)
	atLineStart := true
	sawZero := false
	var line strings.Builder
	lineHasSeq := false
	for _, f := range flat {
		if f == "\x00" {
			if atLineStart {
				// a line that starts with an interpolation or directive has no
				// leading spaces: it fixes the common indentation at zero
				sawZero = true
				atLineStart = false
			}
			lineHasSeq = true
			continue
		}
		for _, c := range f {
			if atLineStart {
				if c != ' ' && c != '\n' {
					sawZero = true
				}
				if c != ' ' && c != '\n' && unicode.IsSpace(c) {
					// tabs, NBSP and other Unicode spaces at a line start: whether
					// they count as indentation "spaces" is not specified
					return false
				}
				atLineStart = false
			}
			if c == '\n' {
				if strings.TrimSpace(line.String()) == "" && !lineHasSeq {
					return false // blank line
				}
				line.Reset()
				lineHasSeq = false
				atLineStart = true
			} else {
				line.WriteRune(c)
			}
		}
	}
	return sawZero
}

func (w *writer) template(n *Node, last bool) {
	l := w.l
	canHeredoc := l != nil && l.R != nil && w.inQuoted == 0 && w.inHeredocSeq == 0 && HeredocEligible(n) &&
		(w.nlIgnored() || (last && len(w.nl) == 1))
	if canHeredoc && l.chance(l.Heredoc) {
		flush := flushOK(n) && l.chance(0.5)
		indent := ""
		intro := "<<EOT"
		if flush {
			intro = "<<-EOT"
			indent = strings.Repeat(" ", l.R.Intn(4))
			l.UsedFlush = true
		}
		l.UsedHeredoc = true
		w.t(1, intro)
		w.raw("\n")
		start := w.sb.Len()
		w.inHeredocSeq++
		w.parts(n.Parts, partsHeredoc)
		w.inHeredocSeq--
		if indent != "" {
			body := w.sb.String()[start:]
			lines := strings.SplitAfter(body, "\n")
			var nb strings.Builder
			for _, ln := range lines {
				if ln == "" {
					continue
				}
				nb.WriteString(indent)
				nb.WriteString(ln)
			}
			all := w.sb.String()[:start] + nb.String()
			w.sb.Reset()
			w.sb.WriteString(all)
		}
		if flush {
			w.raw(strings.Repeat(" ", l.R.Intn(5)))
		}
		w.raw("EOT\n")
		w.prev = ""
		return
	}
	w.t(1, "\"")
	w.inQuoted++
	w.parts(n.Parts, partsQuoted)
	w.inQuoted--
	w.raw("\"")
}

func (w *writer) lit(s string, mode int) {
	if mode == partsQuoted {
		w.raw(w.escapeQuoted(s))
	} else {
		w.raw(escapeRawTemplate(s))
	}
}

func (w *writer) open(intro string, strip bool) {
	if strip {
		w.raw(intro + "~")
	} else {
		w.raw(intro)
	}
	w.prev = "{"
	w.prevKind = tkOther
}

func (w *writer) close(strip bool) {
	if strip {
		w.t(0, "~}")
	} else {
		w.t(0, "}")
	}
}

func (w *writer) parts(ps []TPart, mode int) {
	// newlines inside template sequences: only in plain (non-flush) raw contexts
	seqNL := mode != partsQuoted && w.inQuoted == 0 && false
	for _, p := range ps {
		switch p.Kind {
		case TLit:
			w.lit(p.Lit, mode)
		case TInterp:
			w.open("${", p.Strip[0])
			w.push(seqNL)
			w.expr(p.Expr, 0, true)
			w.pop()
			w.close(p.Strip[1])
		case TIf:
			w.open("%{", p.Strip[0])
			w.push(seqNL)
			w.tk(1, "if", tkIdent)
			w.expr(p.Expr, 0, true)
			w.pop()
			w.close(p.Strip[1])
			w.parts(p.Then, mode)
			if p.HasElse {
				w.open("%{", p.Strip[2])
				w.tk(1, "else", tkIdent)
				w.close(p.Strip[3])
				w.parts(p.Else, mode)
			}
			w.open("%{", p.Strip[4])
			w.tk(1, "endif", tkIdent)
			w.close(p.Strip[5])
		case TFor:
			w.open("%{", p.Strip[0])
			w.push(seqNL)
			w.tk(1, "for", tkIdent)
			if p.KeyVar != "" {
				w.tk(1, p.KeyVar, tkIdent)
				w.t(0, ",")
			}
			w.tk(1, p.ValVar, tkIdent)
			w.tk(1, "in", tkIdent)
			w.expr(p.Expr, 0, true)
			w.pop()
			w.close(p.Strip[1])
			w.parts(p.Then, mode)
			w.open("%{", p.Strip[4])
			w.tk(1, "endfor", tkIdent)
			w.close(p.Strip[5])
		}
	}
}

// FixTemplates normalises every template in the AST so that it is
// representable: a literal that ends in '$' or '%' directly before a template
// sequence gets a '-' appended (otherwise "$" + "${" would read as an escape),
// and empty literals are dropped.
func FixTemplates(n *Node) {
	n.Walk(func(m *Node) {
		if m.Kind == KTemplate {
			m.Parts = fixParts(m.Parts)
		}
	})
}

func fixParts(ps []TPart) []TPart {
	var out []TPart
	for i := range ps {
		p := ps[i]
		p.Then = fixParts(p.Then)
		p.Else = fixParts(p.Else)
		if p.Kind == TLit {
			if p.Lit == "" {
				continue
			}
			if len(out) > 0 && out[len(out)-1].Kind == TLit {
				out[len(out)-1].Lit += p.Lit
				continue
			}
		}
		out = append(out, p)
	}
	return out
}

// fixDollar must run on the flattened source order, because a literal may be
// followed by a sequence that belongs to an enclosing directive.
func FixDollar(n *Node) {
	n.Walk(func(m *Node) {
		if m.Kind == KTemplate {
			var prev *TPart
			var rec func(ps []TPart)
			seq := func() {
				if prev != nil && prev.Kind == TLit && (strings.HasSuffix(prev.Lit, "$") || strings.HasSuffix(prev.Lit, "%")) {
					prev.Lit += "-"
				}
				prev = nil
			}
			rec = func(ps []TPart) {
				for i := range ps {
					p := &ps[i]
					switch p.Kind {
					case TLit:
						prev = p
					case TInterp:
						seq()
					case TIf:
						seq()
						rec(p.Then)
						if p.HasElse {
							seq()
							rec(p.Else)
						}
						seq()
					case TFor:
						seq()
						rec(p.Then)
						seq()
					}
				}
			}
			rec(m.Parts)
		}
	})
}

func hasStrip(ps []TPart) bool {
	for _, p := range ps {
		for _, b := range p.Strip {
			if b {
				return true
			}
		}
		if hasStrip(p.Then) || hasStrip(p.Else) {
			return true
		}
	}
	return false
}
