package gen

import (
	"math/rand"
	"os"
	"path/filepath"
	"regexp"
	"strings"
	"sync"
)

var (
	corpusOnce sync.Once
	corpusNat  [][]byte
	corpusJSON [][]byte
)

// RepoCorpus returns native-syntax and JSON sample inputs found in /repo
// (spec suite, test data, fuzz corpora), read once per process.
func RepoCorpus() (native [][]byte, json [][]byte) {
	corpusOnce.Do(func() {
		filepath.Walk("/repo", func(p string, info os.FileInfo, err error) error {
			if err != nil {
				return nil
			}
			if info.IsDir() {
				if info.Name() == ".git" {
					return filepath.SkipDir
				}
				return nil
			}
			if info.Size() > 32*1024 {
				return nil
			}
			ext := filepath.Ext(p)
			inCorpus := strings.Contains(p, "/corpus/") || strings.Contains(p, "/testdata/fuzz/")
			switch {
			case ext == ".hcl" || ext == ".hcldec" || ext == ".t" || ext == ".tf":
				if b, e := os.ReadFile(p); e == nil {
					corpusNat = append(corpusNat, b)
				}
			case ext == ".json":
				if b, e := os.ReadFile(p); e == nil {
					corpusJSON = append(corpusJSON, b)
				}
			case inCorpus:
				if b, e := os.ReadFile(p); e == nil {
					if strings.Contains(p, "/json/") {
						corpusJSON = append(corpusJSON, b)
					} else {
						corpusNat = append(corpusNat, b)
					}
				}
			}
			return nil
		})
	})
	return corpusNat, corpusJSON
}

var hostileTokens = []string{
	"{", "}", "[", "]", "(", ")", "\"", "\"\"", "${", "%{", "~}", "${~", "$${", "%%{", "}", "<<EOT\n", "<<-EOT\n", "\nEOT\n", "EOT", "<<", "<<-",
	"for", "in", "if", "else", "endif", "endfor", "null", "true", "false", "=>", "...", "=", ":", "?", ",", "\n", "\r\n", "\r", ".", ".*", "[*]", "*",
	"+", "-", "!", "&&", "||", "==", "!=", "<=", ">=", "<", ">", "/", "%", "/*", "*/", "//", "#", "\\", "\\\"", "\\u", "\\u00", "\\U0010FFFF", "\\x", "\\ud800", "\\uDFFF", "\\U0000dc00", "\\U00110000", "\\uD83D\\uDE00", "\\uFFFF", "\\U0010FFFE", "\\u0000", "\\Uffffffff",
	"1e", "1e9999999", "0x10", "1.", ".5", "1.5.5", "::", "a::b", "dynamic", "content", "for_each", "\t", " ", "\x00", "\xff", "\xc0\xaf", "\xed\xa0\x80", "\xf4\x90\x80\x80", "\xe2\x82", "\ufeff", "\u2028", "é", "\u00a0",
	"$", "%", "~", "`", "'", "@", "^", "&", "|", ";",
}

// Mutate returns a near-miss variant of src: 1..k token- or byte-level edits.
func Mutate(r *rand.Rand, src []byte, k int) []byte {
	b := append([]byte(nil), src...)
	n := 1 + r.Intn(k)
	for i := 0; i < n; i++ {
		b = mutateOnce(r, b)
	}
	if len(b) > 64*1024 {
		b = b[:64*1024]
	}
	return b
}

func mutateOnce(r *rand.Rand, b []byte) []byte {
	pos := 0
	if len(b) > 0 {
		pos = r.Intn(len(b) + 1)
	}
	switch r.Intn(16) {
	case 14, 15: // one punctuation character written as another ("=" for ":", "]" for "}", ...)
		idxs := []int{}
		for i, c := range b {
			if strings.IndexByte(":=,;{}[]()", c) >= 0 {
				idxs = append(idxs, i)
			}
		}
		if len(idxs) == 0 {
			return b
		}
		p := Pick(r, idxs)
		return splice(b, p, p+1, []byte{":=,;{}[]()"[r.Intn(10)]})
	case 0, 1, 2: // insert hostile token
		t := Pick(r, hostileTokens)
		return splice(b, pos, pos, []byte(t))
	case 3: // delete a byte
		if len(b) == 0 {
			return b
		}
		p := r.Intn(len(b))
		return splice(b, p, p+1, nil)
	case 4: // delete a span
		if len(b) == 0 {
			return b
		}
		p := r.Intn(len(b))
		q := p + 1 + r.Intn(8)
		if q > len(b) {
			q = len(b)
		}
		return splice(b, p, q, nil)
	case 5: // replace a byte with hostile token
		if len(b) == 0 {
			return b
		}
		p := r.Intn(len(b))
		return splice(b, p, p+1, []byte(Pick(r, hostileTokens)))
	case 6: // truncate
		return b[:pos]
	case 7: // bit flip
		if len(b) == 0 {
			return b
		}
		p := r.Intn(len(b))
		c := append([]byte(nil), b...)
		c[p] ^= 1 << uint(r.Intn(8))
		return c
	case 8: // duplicate a span
		if len(b) == 0 {
			return b
		}
		p := r.Intn(len(b))
		q := p + 1 + r.Intn(12)
		if q > len(b) {
			q = len(b)
		}
		return splice(b, q, q, b[p:q])
	case 9: // swap two adjacent spans
		if len(b) < 4 {
			return b
		}
		p := r.Intn(len(b) - 2)
		m := p + 1 + r.Intn(len(b)-p-1)
		q := m + r.Intn(len(b)-m) + 1
		if q > len(b) {
			q = len(b)
		}
		out := append([]byte(nil), b[:p]...)
		out = append(out, b[m:q]...)
		out = append(out, b[p:m]...)
		out = append(out, b[q:]...)
		return out
	case 10: // delete a bracket/quote character occurrence
		idxs := []int{}
		for i, c := range b {
			if strings.IndexByte("{}[]()\"$%~", c) >= 0 {
				idxs = append(idxs, i)
			}
		}
		if len(idxs) == 0 {
			return b
		}
		p := Pick(r, idxs)
		return splice(b, p, p+1, nil)
	case 11: // newline style
		if Chance(r, 0.5) {
			return []byte(strings.ReplaceAll(string(b), "\n", "\r\n"))
		}
		return []byte(strings.ReplaceAll(string(b), "\n", "\r"))
	case 12: // BOM somewhere
		return splice(b, pos, pos, []byte("\xef\xbb\xbf"))
	default: // random byte
		return splice(b, pos, pos, []byte{byte(r.Intn(256))})
	}
}

// SwapPunct replaces one punctuation character by another one ("=" written
// for ":", a missing or wrong bracket): the most common hand-made damage.
func SwapPunct(r *rand.Rand, src []byte) []byte {
	idxs := []int{}
	for i, c := range src {
		if strings.IndexByte(":=,;{}[]()", c) >= 0 {
			idxs = append(idxs, i)
		}
	}
	if len(idxs) == 0 {
		return src
	}
	p := Pick(r, idxs)
	// half of the time the confusable partner, otherwise any punctuation
	partner := map[byte]byte{':': '=', '=': ':', '{': '[', '[': '{', '}': ']', ']': '}', ',': ';', ';': ',', '(': '[', ')': ']'}
	if Chance(r, 0.5) {
		return splice(src, p, p+1, []byte{partner[src[p]]})
	}
	return splice(src, p, p+1, []byte{":=,;{}[]()"[r.Intn(10)]})
}

var keywordRe = regexp.MustCompile(`\b(in|if|for|else|endif|endfor|true|false|null)\b`)

// SwapKeyword replaces one keyword occurrence by another word (a misspelt or
// misplaced keyword: "of" for "in", "elsif" for "else", ...).
func SwapKeyword(r *rand.Rand, src []byte) []byte {
	locs := keywordRe.FindAllIndex(src, -1)
	if len(locs) == 0 {
		return src
	}
	l := Pick(r, locs)
	w := Pick(r, []string{"of", "on", "in", "if", "iff", "fro", "for", "else", "elsif", "endif", "endfor", "end", "nul", "x", ":", "=>", ""})
	return splice(src, l[0], l[1], []byte(w))
}

func splice(b []byte, p, q int, ins []byte) []byte {
	out := make([]byte, 0, len(b)+len(ins))
	out = append(out, b[:p]...)
	out = append(out, ins...)
	out = append(out, b[q:]...)
	return out
}

// DeepNest returns a deeply nested input of the given shape and depth.
func DeepNest(shape string, depth int) []byte {
	switch shape {
	case "paren":
		return []byte("a = " + strings.Repeat("(", depth) + "1" + strings.Repeat(")", depth) + "\n")
	case "tuple":
		return []byte("a = " + strings.Repeat("[", depth) + strings.Repeat("]", depth) + "\n")
	case "object":
		return []byte("a = " + strings.Repeat("{a=", depth) + "1" + strings.Repeat("}", depth) + "\n")
	case "block":
		return []byte(strings.Repeat("b {\n", depth) + strings.Repeat("}\n", depth))
	case "template":
		return []byte("a = " + strings.Repeat("\"${", depth) + "1" + strings.Repeat("}\"", depth) + "\n")
	case "unary":
		return []byte("a = " + strings.Repeat("!", depth) + "true\n")
	case "jsonarr":
		return []byte(strings.Repeat("[", depth) + strings.Repeat("]", depth))
	case "jsonobj":
		return []byte(strings.Repeat("{\"a\":", depth) + "1" + strings.Repeat("}", depth))
	case "binary":
		return []byte("a = 1" + strings.Repeat(" + 1", depth) + "\n")
	case "index":
		return []byte("a = x" + strings.Repeat("[0]", depth) + "\n")
	case "cond":
		return []byte("a = " + strings.Repeat("true ? 1 : ", depth) + "2\n")
	}
	return nil
}
