package gen

import (
	"math/rand"
	"strings"
)

// JSONEnc selects one admissible JSON encoding of an abstract body
// (json/spec.md): object or array-of-objects bodies, label levels as nested
// objects or arrays of single-property objects, repeated blocks as separate
// (duplicate) properties, as one property holding an array, or as an array of
// bodies at the innermost level, "//" comment properties, whitespace.
type JSONEnc struct {
	R *rand.Rand
	// ExprJSON renders an attribute expression as a JSON value.
	ExprJSON func(n *Node) string
	// LabelCounts: block type -> number of labels
	LabelCounts map[string]int
	// OrderPreserving is cleared when an encoding choice gives up the relative
	// order of blocks of different types (grouping by type).
	OrderPreserving bool
	Comments        bool
}

func (e *JSONEnc) ws() string {
	if e.R == nil || Chance(e.R, 0.7) {
		return ""
	}
	return Pick(e.R, []string{" ", "\n", "\t", " \n  ", "\r\n"})
}

type jprop struct {
	name string
	val  string
}

func (e *JSONEnc) propsToBody(props []jprop, root bool) string {
	r := e.R
	if e.Comments && Chance(r, 0.3) {
		pos := r.Intn(len(props) + 1)
		cm := jprop{"//", Pick(r, []string{"\"comment\"", "{\"a\": 1}", "[1, 2]", "null", "\"${nope}\""})}
		props = append(props[:pos:pos], append([]jprop{cm}, props[pos:]...)...)
	}
	obj := func(ps []jprop) string {
		var parts []string
		for _, p := range ps {
			parts = append(parts, e.ws()+JSONQuote(r, p.name)+e.ws()+":"+e.ws()+p.val+e.ws())
		}
		return "{" + strings.Join(parts, ",") + "}"
	}
	// (only the root body may be an array of objects: below a block type an
	// array means several blocks)
	switch {
	case !root:
	case len(props) > 0 && Chance(r, 0.2):
		// array of single-property objects
		var parts []string
		for _, p := range props {
			parts = append(parts, obj([]jprop{p}))
		}
		return "[" + strings.Join(parts, ","+e.ws()) + "]"
	case len(props) > 1 && Chance(r, 0.15):
		// split over two objects in an array
		cut := 1 + r.Intn(len(props)-1)
		return "[" + obj(props[:cut]) + "," + e.ws() + obj(props[cut:]) + "]"
	}
	return obj(props)
}

// labelWrap wraps an innermost value in the label levels.
func (e *JSONEnc) labelWrap(labels []string, inner string, outerArrayOK bool) string {
	r := e.R
	for i := len(labels) - 1; i >= 0; i-- {
		o := "{" + e.ws() + JSONQuote(r, labels[i]) + e.ws() + ":" + e.ws() + inner + e.ws() + "}"
		if Chance(r, 0.2) && (i > 0 || outerArrayOK) {
			o = "[" + o + "]"
		}
		inner = o
	}
	return inner
}

func sameLabels(a, b []string) bool {
	if len(a) != len(b) {
		return false
	}
	for i := range a {
		if a[i] != b[i] {
			return false
		}
	}
	return true
}

// Body renders b; root says whether b is the file-level body.
func (e *JSONEnc) Body(b *Body, root bool) string {
	r := e.R
	var props []jprop
	groupByType := Chance(r, 0.3)
	if groupByType {
		// attributes first (any order), then one property per block type holding
		// an array of label objects in per-type order
		attrs := b.Attrs()
		idx := r.Perm(len(attrs))
		for _, i := range idx {
			props = append(props, jprop{attrs[i].Name, e.ExprJSON(attrs[i].Expr)})
		}
		var order []string
		byType := map[string][]*Block{}
		for _, blk := range b.Blocks() {
			if _, ok := byType[blk.Type]; !ok {
				order = append(order, blk.Type)
			}
			byType[blk.Type] = append(byType[blk.Type], blk)
		}
		if len(order) > 1 {
			e.OrderPreserving = false
		}
		if len(attrs) > 0 && len(order) > 0 {
			// attributes and blocks are not ordered relative to each other in hcl
		}
		for _, ty := range order {
			blks := byType[ty]
			if len(blks) > 1 && len(blks[0].Labels) > 0 && Chance(r, 0.6) {
				if val, ok := e.labelTrie(blks); ok {
					props = append(props, jprop{ty, val})
					continue
				}
			}
			var elems []string
			for i := 0; i < len(blks); i++ {
				// consecutive blocks with identical labels: array of bodies innermost
				j := i
				if Chance(r, 0.5) {
					for j+1 < len(blks) && sameLabels(blks[j+1].Labels, blks[i].Labels) {
						j++
					}
				}
				var inner string
				if j > i && len(blks[i].Labels) > 0 {
					var bodies []string
					for k := i; k <= j; k++ {
						bodies = append(bodies, e.Body(blks[k].Body, false))
					}
					inner = "[" + strings.Join(bodies, ","+e.ws()) + "]"
				} else {
					j = i
					inner = e.Body(blks[i].Body, false)
				}
				// (elements of the per-type array must be objects)
				elems = append(elems, e.labelWrap(blks[i].Labels, inner, false))
				i = j
			}
			val := "[" + strings.Join(elems, ","+e.ws()) + "]"
			if len(elems) == 1 && Chance(r, 0.5) {
				val = elems[0]
			}
			props = append(props, jprop{ty, val})
		}
		return e.propsToBody(props, root)
	}
	// flat: every item its own property, in source order (duplicate names allowed)
	for _, it := range b.Items {
		if it.Attr != nil {
			props = append(props, jprop{it.Attr.Name, e.ExprJSON(it.Attr.Expr)})
		} else {
			props = append(props, jprop{it.Block.Type, e.labelWrap(it.Block.Labels, e.Body(it.Block.Body, false), true)})
		}
	}
	return e.propsToBody(props, root)
}

// labelTrie renders the blocks of one type as nested label objects in which
// blocks that share a label prefix share the object for that prefix. This
// keeps the per-type order only when every prefix's blocks are contiguous and
// no two blocks have identical labels, which is checked first.
func (e *JSONEnc) labelTrie(blks []*Block) (string, bool) {
	type node struct {
		keys []string
		kids map[string]*node
		leaf *Block
	}
	root := &node{kids: map[string]*node{}}
	var lastPath []*node
	for _, blk := range blks {
		cur := root
		var path []*node
		for i, l := range blk.Labels {
			nx, ok := cur.kids[l]
			if ok {
				// re-entering an existing prefix is only order-preserving if it is
				// the most recently used one at this depth
				if i >= len(lastPath) || lastPath[i] != nx {
					return "", false
				}
				if i == len(blk.Labels)-1 {
					return "", false // identical labels
				}
			} else {
				nx = &node{kids: map[string]*node{}}
				cur.kids[l] = nx
				cur.keys = append(cur.keys, l)
			}
			path = append(path, nx)
			cur = nx
		}
		cur.leaf = blk
		lastPath = path
	}
	var render func(n *node) string
	render = func(n *node) string {
		if n.leaf != nil {
			return e.Body(n.leaf.Body, false)
		}
		var parts []string
		for _, k := range n.keys {
			parts = append(parts, e.ws()+JSONQuote(e.R, k)+e.ws()+":"+e.ws()+render(n.kids[k]))
		}
		return "{" + strings.Join(parts, ",") + e.ws() + "}"
	}
	return render(root), true
}
